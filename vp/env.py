"""Process-level environment for running ARMI from the checks.

* makes sure ``armi`` is imported from the tree under test (``/repo`` or ``VP_ARMI_ROOT``),
* configures one App per process, imposes the burn chain, silences logging,
* gives every process a private scratch dir (cwd + fast path) under /verif/.scratch.
"""
import logging
import os
import shutil
import sys
import tempfile

VERIF_ROOT = os.path.dirname(os.path.dirname(os.path.abspath(__file__)))
ARMI_ROOT = os.path.abspath(os.environ.get("VP_ARMI_ROOT", "/repo"))
GUARD = "ARMI_VERIF"

_configured = False
_scratch = None


def armi_root():
    return ARMI_ROOT


def ensure_path():
    if sys.path[0] != ARMI_ROOT:
        sys.path.insert(0, ARMI_ROOT)
    os.environ.setdefault(GUARD, "1")


def scratch_dir():
    """Private scratch directory of this process (created on first use)."""
    global _scratch
    if _scratch is None:
        base = os.path.join(VERIF_ROOT, ".scratch")
        os.makedirs(base, exist_ok=True)
        # named after the run (the parent that started the workers) so that the parent can sweep what killed workers leave
        _scratch = tempfile.mkdtemp(prefix="p%s_%d_" % (os.environ.get("VP_RUN_ID", "0"), os.getpid()), dir=base)
    return _scratch


def cleanup_scratch():
    global _scratch
    if _scratch is not None:
        try:
            os.chdir(VERIF_ROOT)
        except OSError:
            pass
        shutil.rmtree(_scratch, ignore_errors=True)
        _scratch = None


def configure(chdir=True):
    """Configure ARMI once per process (idempotent)."""
    global _configured
    ensure_path()
    if _configured:
        if _scratch is None:
            # a pool process running another shard after cleanup_scratch(): re-establish cwd and fast path
            _workdir(chdir)
        return
    import warnings

    warnings.filterwarnings("ignore")
    import armi

    got = os.path.abspath(os.path.dirname(os.path.dirname(armi.__file__)))
    if got != ARMI_ROOT:
        raise RuntimeError("armi imported from %s, expected %s" % (got, ARMI_ROOT))
    from armi import apps, context, runLog

    if not armi.isConfigured():
        import contextlib
        import io

        with contextlib.redirect_stdout(io.StringIO()):
            armi.configure(apps.App())
    from armi.nucDirectory import nuclideBases
    from armi.settings import caseSettings

    context.Mode.setMode(context.Mode.BATCH)
    cs = caseSettings.Settings()
    with open(cs["burnChainFileName"]) as stream:
        nuclideBases.imposeBurnChain(stream)
    try:
        import matplotlib

        matplotlib.use("agg")
    except Exception:
        pass
    # silence logging
    runLog.setVerbosity("error")
    logging.disable(10**6)
    _workdir(chdir)
    _configured = True


def _workdir(chdir=True):
    from armi import context

    d = scratch_dir()
    if chdir:
        os.chdir(d)
    fp = os.path.join(d, "fast")
    os.makedirs(fp, exist_ok=True)
    context._FAST_PATH = fp
    context._FAST_PATH_IS_TEMPORARY = False


def quiet_settings(extra=None):
    """A Settings object with quiet logging and ``extra`` applied."""
    configure()
    from armi.settings import caseSettings

    cs = caseSettings.Settings()
    new = {"verbosity": "error", "branchVerbosity": "error", "moduleVerbosity": {}}
    if extra:
        new.update(extra)
    return cs.modified(newSettings=new)
