"""C07 - grid indices, ring/position, labels and coordinates are consistent bijections."""
import math

from hypothesis import strategies as st

from vp.model import hexmodel as hm
from vp.runner import Out, Part

PROPERTY = "C07"
LEVEL = "exploration"
ASSUMPTIONS = [
    "coordinates are compared with an absolute tolerance of 1e-9 * pitch (1e-9 * largest bound for bounds grids)",
    "hex reference geometry (vp/model/hexmodel.py) derives rings/positions by walking the ring; it shares "
    "only the documented conventions (position 1 on the +i axis, counter-clockwise) with armi",
    "index magnitudes are bounded (|i|,|j| <= 10**6) so that float64 coordinates stay exact to the tolerance",
]


def _close(a, b, tol):
    return all(abs(float(x) - float(y)) <= tol for x, y in zip(a, b)) and len(a) == len(b)


# --------------------------------------------------------------------------------------------
# part 1: every cell of a hex ring, both orientations (complete enumeration up to N rings)

_HEX_RINGS = {"quick": 40, "thorough": 160}


def hex_enum(tier):
    n = _HEX_RINGS[tier]
    cases = []
    for cu in (False, True):
        for ring in range(1, n + 1):
            cases.append({"ring": ring, "cornersUp": cu, "pitch": 1.0 if ring % 3 else 16.142})
    return cases


def hex_execute(case):
    from armi.reactor import grids
    from armi.utils import hexagon

    out = Out()
    ring, cu, pitch = case["ring"], case["cornersUp"], case["pitch"]
    g = grids.HexGrid.fromPitch(pitch, numRings=2, cornersUp=cu)
    tol = 1e-9 * pitch
    cells = hm.ring_cells(ring)
    out.evals = len(cells)
    out.nontrivial_count = len(cells) if ring >= 2 else 0
    npos = hexagon.numPositionsInRing(ring)
    expected_n = 1 if ring == 1 else 6 * (ring - 1)
    out.check(npos == expected_n and g.getPositionsInRing(ring) == expected_n, "hex/positions-in-ring",
              lambda: "ring %d: numPositionsInRing=%r expected %d" % (ring, npos, expected_n))
    out.check(hexagon.totalPositionsUpToRing(ring) == 1 + 3 * ring * (ring - 1), "hex/total-positions",
              "ring %d" % ring)
    out.check(abs(g.pitch - pitch) <= tol, "hex/pitch", "pitch %r reported %r" % (pitch, g.pitch))
    out.check(g.cornersUp == cu, "hex/cornersUp", "orientation flag lost")
    seen = set()
    prev_angle = None
    for p0, (i, j) in enumerate(cells):
        pos = p0 + 1
        # ring / position numbering
        rp = g.indicesToRingPos(i, j)
        if not out.check(tuple(rp) == (ring, pos), "hex/indicesToRingPos",
                         lambda: "indices %s -> %s, expected %s" % ((i, j), rp, (ring, pos))):
            continue
        out.check(hm.hex_distance(i, j) + 1 == rp[0], "hex/ring-is-distance+1", "indices %s" % ((i, j),))
        out.check(tuple(g.getRingPos((i, j, 0))) == (ring, pos), "hex/getRingPos", "indices %s" % ((i, j),))
        ij = g.getIndicesFromRingAndPos(ring, pos)
        out.check(tuple(ij) == (i, j), "hex/getIndicesFromRingAndPos",
                  lambda: "ring,pos %s -> %s expected %s" % ((ring, pos), ij, (i, j)))
        seen.add(tuple(ij))
        # labels and locators
        for k in (0, 7):
            label = g.getLabel((i, j, k))
            back = grids.locatorLabelToIndices(label)
            out.check(tuple(back) == (ring, pos, k), "hex/label-roundtrip",
                      lambda: "label %r of %s decodes to %s" % (label, (i, j, k), back))
            loc = g.getLocatorFromRingAndPos(back[0], back[1], k)
            out.check((loc.i, loc.j, loc.k) == (i, j, k) and loc.grid is g, "hex/locator-from-ringpos",
                      lambda: "ring/pos %s k=%d gives %r" % ((ring, pos), k, loc))
        label2 = g.getLabel((i, j))
        out.check(tuple(grids.locatorLabelToIndices(label2)) == (ring, pos, None), "hex/label2-roundtrip",
                  "label %r" % label2)
        loc = g[i, j, 0]
        out.check((loc.i, loc.j, loc.k) == (i, j, 0) and loc.grid is g and g[i, j, 0] is loc,
                  "hex/getitem", "grid[%d,%d,0] -> %r" % (i, j, loc))
        out.check(tuple(loc.getCompleteIndices()) == (i, j, 0), "hex/complete-indices", "%r" % loc)
        # coordinates
        ex = hm.centre(i, j, pitch, cu)
        c = g.getCoordinates((i, j, 0))
        out.check(_close(c, (ex[0], ex[1], 0.0), tol * max(1, ring)), "hex/centre",
                  lambda: "cell %s centre %s expected %s" % ((i, j), list(c), ex))
        out.check(_close(loc.getGlobalCoordinates(), c, 0.0) and _close(loc.getLocalCoordinates(), c, 0.0),
                  "hex/locator-coordinates", "locator and grid disagree at %s" % ((i, j),))
        # ring walk: consecutive positions adjacent, polar angle increasing
        if ring > 1:
            ni, nj = cells[(p0 + 1) % len(cells)]
            out.check(hm.hex_distance(ni - i, nj - j) == 1, "hex/positions-contiguous", "pos %d" % pos)
            start = math.radians(60.0 if cu else 30.0)
            ang = (math.atan2(ex[1], ex[0]) - start + 1e-9) % (2 * math.pi)
            if prev_angle is not None:
                out.check(ang > prev_angle - 1e-12, "hex/positions-ccw", "pos %d angle decreases" % pos)
            prev_angle = ang
        # neighbours
        nb = g.getNeighboringCellIndices(i, j, 3)
        out.check(len(nb) == 6 and len(set(nb)) == 6 and all(n[2] == 3 for n in nb), "hex/neighbours-distinct",
                  "cell %s" % ((i, j),))
        first = 60.0 if cu else 30.0
        for m, (a, b, _k) in enumerate(nb):
            nc = g.getCoordinates((a, b, 0))
            dx, dy = nc[0] - c[0], nc[1] - c[1]
            dist = math.hypot(dx, dy)
            ang = math.degrees(math.atan2(dy, dx)) % 360.0
            want = (first + 60.0 * m) % 360.0
            dang = abs((ang - want + 180.0) % 360.0 - 180.0)
            out.check(abs(dist - pitch) <= tol * max(1, ring) and dang < 1e-6, "hex/neighbour-geometry",
                      lambda: "cell %s neighbour #%d %s: dist %r angle %r (want %r)" % ((i, j), m, (a, b), dist, ang, want))
    out.check(len(seen) == len(cells), "hex/ring-bijection", "ring %d: %d distinct cells of %d" % (ring, len(seen), len(cells)))
    # positions outside 1..count are refused or at least do not alias a cell of this ring silently
    return out


# --------------------------------------------------------------------------------------------
# part 2: ring counting, complete enumeration of n in [1, N]

_COUNT_MAX = {"quick": 600_000, "thorough": 24_000_000}
_CHUNK = 100_000


def count_enum(tier):
    n = _COUNT_MAX[tier]
    return [{"lo": a, "hi": min(a + _CHUNK, n + 1)} for a in range(0, n + 1, _CHUNK)]


def count_execute(case):
    from armi.reactor import grids
    from armi.utils import hexagon

    out = Out()
    lo, hi = case["lo"], case["hi"]
    out.evals = hi - lo
    out.nontrivial_count = max(0, hi - max(lo, 2))
    f = hexagon.numRingsToHoldNumCells
    r = hm.min_rings(max(lo, 1))
    cap = 1 + 3 * r * (r - 1)
    bad = None
    for n in range(lo, hi):
        if n == 0:
            if f(0) != 0:
                bad = (0, f(0), 0)
            continue
        while n > cap:
            r += 1
            cap = 1 + 3 * r * (r - 1)
        if f(n) != r:
            bad = (n, f(n), r)
            break
    out.check(bad is None, "hex/min-rings", lambda: "numRingsToHoldNumCells(%d) = %r, least ring count is %d" % bad)
    mid = (lo + hi) // 2
    if mid >= 1:
        out.check(grids.HexGrid.getMinimumRings(mid) == hm.min_rings(mid), "hex/getMinimumRings", "n=%d" % mid)
    return out


# --------------------------------------------------------------------------------------------
# part 3: generated hex grids: pitches, far cells, offsets, reduce(), changePitch

def hexgen_strategy(tier):
    cell = st.tuples(st.integers(-10**6, 10**6), st.integers(-10**6, 10**6), st.integers(0, 50))
    near = st.tuples(st.integers(-12, 12), st.integers(-12, 12), st.integers(0, 3))
    return st.fixed_dictionaries(
        {
            "pitch": st.floats(1e-3, 1e4, allow_nan=False),
            "newPitch": st.floats(1e-3, 1e4, allow_nan=False),
            "cornersUp": st.booleans(),
            "numRings": st.integers(1, 6),
            "symmetry": st.sampled_from(["", "full", "third periodic"]),
            "cells": st.lists(st.one_of(cell, near), min_size=1, max_size=8).map(lambda l: [list(c) for c in l]),
        }
    )


def _rebuild(g):
    return type(g)(*g.reduce())


def hexgen_execute(case):
    from armi.reactor import grids

    out = Out()
    p, cu = case["pitch"], case["cornersUp"]
    g = grids.HexGrid.fromPitch(p, numRings=case["numRings"], cornersUp=cu, symmetry=case["symmetry"])
    out.nontrivial = any(hm.hex_distance(c[0], c[1]) >= 1 for c in case["cells"])
    out.label("cornersUp" if cu else "flatsUp", "sym:" + (case["symmetry"] or "none"))
    g2 = _rebuild(g)
    out.check(type(g2) is type(g) and g2.cornersUp == cu and g2._symmetry == g._symmetry
              and g2._geomType == g._geomType and g2.reduce() == g.reduce() and len(g2) == len(g),
              "hex/reduce-metadata", "rebuilt grid differs in metadata")
    out.check(abs(g.pitch - p) <= 1e-12 * p, "hex/pitch", "pitch %r -> %r" % (p, g.pitch))

    def coords(grid, scale):
        res = []
        for i, j, k in case["cells"]:
            ex = hm.centre(i, j, scale, cu)
            mag = max(1, abs(i), abs(j))
            c = grid.getCoordinates((i, j, k))
            res.append(c)
            out.check(_close(c, (ex[0], ex[1], 0.0), 1e-9 * scale * mag), "hex/centre-generated",
                      lambda: "pitch %r cell %s: %s expected %s" % (scale, (i, j, k), list(c), ex))
            # base / top: affine in the indices, half a step either side
            b = grid.getCellBase((i, j, k))
            t = grid.getCellTop((i, j, k))
            lo = hm.centre(i - 0.5, j - 0.5, scale, cu)
            hi = hm.centre(i + 0.5, j + 0.5, scale, cu)
            out.check(_close(b, (lo[0], lo[1], 0.0), 1e-9 * scale * mag) and _close(t, (hi[0], hi[1], 0.0), 1e-9 * scale * mag),
                      "hex/base-top", lambda: "cell %s base %s top %s" % ((i, j, k), list(b), list(t)))
            rp = grid.indicesToRingPos(i, j)
            out.check(rp[0] == hm.hex_distance(i, j) + 1 and 1 <= rp[1] <= max(1, 6 * (rp[0] - 1)), "hex/ringpos-far",
                      "cell %s ring/pos %s" % ((i, j), rp))
            out.check(tuple(grid.getIndicesFromRingAndPos(*rp)) == (i, j), "hex/ringpos-far-inverse", "cell %s" % ((i, j),))
        return res

    c1 = coords(g, p)
    c1b = [g2.getCoordinates(tuple(c)) for c in case["cells"]]
    out.check(all(_close(a, b, 0.0) for a, b in zip(c1, c1b)), "hex/reduce-coordinates", "rebuilt grid gives other coordinates")
    before = g.reduce()
    g.changePitch(case["newPitch"])
    after = g.reduce()
    out.check(before[1:] == after[1:] and g.cornersUp == cu, "hex/changePitch-other-state",
              "changePitch changed more than the unit steps")
    out.check(abs(g.pitch - case["newPitch"]) <= 1e-12 * case["newPitch"], "hex/changePitch-pitch", "pitch after change %r" % g.pitch)
    coords(g, case["newPitch"])
    return out


# --------------------------------------------------------------------------------------------
# part 4: Cartesian grids (complete enumeration of cells within N "rings", both centre styles)

_CART_N = {"quick": 25, "thorough": 120}


def cart_enum(tier):
    n = _CART_N[tier]
    cases = []
    for off in (False, True):
        for ring in range(1, n + 1):
            cases.append({"ring": ring, "isOffset": off, "w": 1.0 if ring % 2 else 2.5, "h": 1.0 if ring % 3 else 0.75})
    return cases


def _cart_ring_cells(ring, through_centre):
    """Independent: cells whose Chebyshev shell is ``ring`` (1-based)."""
    cells = []
    if through_centre:
        r = ring - 1
        for i in range(-r, r + 1):
            for j in range(-r, r + 1):
                if max(abs(i), abs(j)) == r:
                    cells.append((i, j))
    else:
        # cells are centred at (i+.5, j+.5); shell = max(|i+.5|,|j+.5|) = ring-.5
        r = ring
        for i in range(-r, r):
            for j in range(-r, r):
                if max(abs(i + 0.5), abs(j + 0.5)) == r - 0.5:
                    cells.append((i, j))
    return cells


def cart_execute(case):
    from armi.reactor import grids

    out = Out()
    ring, off, w, h = case["ring"], case["isOffset"], case["w"], case["h"]
    g = grids.CartesianGrid.fromRectangle(w, h, numRings=2, isOffset=off)
    cells = _cart_ring_cells(ring, not off)
    out.evals = len(cells)
    out.nontrivial_count = len(cells) if ring >= 2 else 0
    n = g.getPositionsInRing(ring)
    out.check(n == len(cells), "cart/positions-in-ring", lambda: "ring %d offset=%s: %d positions, %d cells" % (ring, off, n, len(cells)))
    seen = {}
    tol = 1e-9 * max(w, h) * max(1, ring)
    for i, j in cells:
        rp = g.getRingPos((i, j, 0))
        out.check(rp[0] == ring, "cart/ring", lambda: "cell %s offset=%s ring %s expected %d" % ((i, j), off, rp, ring))
        out.check(1 <= rp[1] <= len(cells), "cart/pos-range", lambda: "cell %s offset=%s pos %s of %d" % ((i, j), off, rp, len(cells)))
        if rp in seen:
            out.fail("cart/ringpos-injective", "cells %s and %s offset=%s share ring/pos %s" % (seen[rp], (i, j), off, rp))
        seen[rp] = (i, j)
        ox, oy = (w / 2.0, h / 2.0) if off else (0.0, 0.0)
        c = g.getCoordinates((i, j, 0))
        out.check(_close(c, (i * w + ox, j * h + oy, 0.0), tol), "cart/centre", lambda: "cell %s: %s" % ((i, j), list(c)))
        b = g.getCellBase((i, j, 0))
        t = g.getCellTop((i, j, 0))
        out.check(_close(b, ((i - 0.5) * w + ox, (j - 0.5) * h + oy, 0.0), tol) and _close(t, ((i + 0.5) * w + ox, (j + 0.5) * h + oy, 0.0), tol),
                  "cart/base-top", lambda: "cell %s base %s top %s" % ((i, j), list(b), list(t)))
        label = g.getLabel((i, j, 2))
        if i >= 0 and j >= 0:
            out.check(tuple(grids.locatorLabelToIndices(label)) == (i, j, 2), "cart/label-roundtrip", "label %r of %s" % (label, (i, j, 2)))
        loc = g[i, j, 0]
        out.check((loc.i, loc.j, loc.k) == (i, j, 0) and loc.grid is g, "cart/getitem", "grid[%d,%d,0]" % (i, j))
    # least ring count holding n cells
    total = sum(g.getPositionsInRing(r) for r in range(1, ring + 1))
    prev = total - n
    for q in sorted({prev + 1, total, max(1, (prev + total) // 2)}):
        if q > prev:
            out.check(g.getMinimumRings(q) == ring, "cart/min-rings", lambda: "getMinimumRings(%d) = %d expected %d (offset=%s)" % (q, g.getMinimumRings(q), ring, off))
    # rebuild + change pitch
    g2 = _rebuild(g)
    out.check(g2.reduce() == g.reduce() and all(_close(g2.getCoordinates((i, j, 0)), g.getCoordinates((i, j, 0)), 0.0) for i, j in cells[:6]),
              "cart/reduce", "rebuilt grid differs")
    out.check(g2._isThroughCenter() == (not off), "cart/reduce-centre-style", "centre style changed by rebuild")
    nw, nh = w * 1.75, h * 0.5
    g.changePitch(nw, nh)
    ox, oy = (nw / 2.0, nh / 2.0) if off else (0.0, 0.0)
    for i, j in cells[:8]:
        c = g.getCoordinates((i, j, 0))
        out.check(_close(c, (i * nw + ox, j * nh + oy, 0.0), tol * 2), "cart/changePitch", lambda: "cell %s: %s" % ((i, j), list(c)))
    out.check(tuple(g.pitch) == (nw, nh), "cart/pitch", "pitch %r" % (g.pitch,))
    return out


# --------------------------------------------------------------------------------------------
# part 5: bounds-defined grids (axial, theta-R-Z) and nestings up to three deep


def _bounds(minsize, maxsize, lo=0.0, hi=1000.0):
    return st.lists(st.floats(1e-3, 50.0, allow_nan=False), min_size=minsize, max_size=maxsize).map(
        lambda steps: [lo + sum(steps[: n + 1]) - steps[0] for n in range(len(steps))]
    )


def nest_strategy(tier):
    return st.fixed_dictionaries(
        {
            "corePitch": st.floats(1.0, 50.0),
            "coreKind": st.sampled_from(["hexF", "hexC", "cart", "cartOff"]),
            "coreCell": st.tuples(st.integers(-9, 9), st.integers(-9, 9)).map(list),
            "zbounds": _bounds(2, 9),
            "k": st.integers(0, 7),
            # axial level of the cell of the (radial) core grid that holds the assembly: indices add in every direction
            "coreK": st.sampled_from([0, 0, 1, 2, 3, 5]),
            "pinPitch": st.floats(0.1, 3.0),
            "pinKind": st.sampled_from(["hexF", "hexC", "cart", "axial"]),
            "pinCell": st.tuples(st.integers(-6, 6), st.integers(-6, 6)).map(list),
            "coreOrigin": st.one_of(st.none(), st.tuples(st.floats(-100, 100), st.floats(-100, 100), st.floats(-100, 100)).map(list)),
            "midFree": st.one_of(st.none(), st.tuples(st.floats(-5, 5), st.floats(-5, 5), st.floats(0, 5)).map(list)),
            "depth": st.integers(1, 3),
            # axial grid of the assembly given by bounds (None) or by a regular step h through unitSteps/unitStepLimits/offset
            "axStep": st.one_of(st.none(), st.none(), st.floats(0.1, 60.0)),
            "boffset": st.one_of(st.none(), st.tuples(st.floats(-50, 50), st.floats(-50, 50), st.floats(-50, 50)).map(list)),
            "trz": st.fixed_dictionaries({"theta": st.integers(1, 8), "r": _bounds(2, 6), "z": _bounds(2, 5), "cell": st.tuples(st.integers(0, 7), st.integers(0, 4), st.integers(0, 3)).map(list)}),
        }
    )


def _mkgrid(kind, pitch, obj):
    from armi.reactor import grids

    if kind == "hexF":
        return grids.HexGrid.fromPitch(pitch, numRings=1, armiObject=obj)
    if kind == "hexC":
        return grids.HexGrid.fromPitch(pitch, numRings=1, armiObject=obj, cornersUp=True)
    if kind == "cart":
        return grids.CartesianGrid.fromRectangle(pitch, pitch, numRings=1, armiObject=obj)
    return grids.CartesianGrid.fromRectangle(pitch, pitch, numRings=1, armiObject=obj, isOffset=True)


def _expect_xy(kind, pitch, i, j):
    if kind == "hexF":
        return hm.centre(i, j, pitch, False)
    if kind == "hexC":
        return hm.centre(i, j, pitch, True)
    if kind == "cart":
        return (i * pitch, j * pitch)
    return (i * pitch + pitch / 2.0, j * pitch + pitch / 2.0)


def nest_execute(case):
    import numpy as np

    from armi.reactor import composites, grids

    out = Out()
    depth = case["depth"]
    out.nontrivial = depth >= 2
    out.label("depth%d" % depth, "free-mid" if case["midFree"] else "indexed-mid")
    # ---- bounds grids on their own
    zb = case["zbounds"]
    ax = grids.AxialGrid(bounds=(None, None, np.array(zb)))
    k = case["k"] % (len(zb) - 1)
    tolz = 1e-9 * zb[-1]
    c = ax.getCoordinates((0, 0, k))
    out.check(_close(c, (0.0, 0.0, (zb[k] + zb[k + 1]) / 2.0), tolz), "axial/centre", lambda: "k=%d %s bounds %s" % (k, list(c), zb))
    out.check(_close(ax.getCellBase((0, 0, k)), (0, 0, zb[k]), tolz) and _close(ax.getCellTop((0, 0, k)), (0, 0, zb[k + 1]), tolz),
              "axial/base-top", "k=%d" % k)
    out.check(ax.isAxialOnly and len(ax) == len(zb), "axial/axial-only", "axial grid flags")
    # there is no cell below the first bound: centre and base refuse a negative index ("Bounds-defined indices may not be
    # negative") instead of wrapping around to the last bound (the top of index -1 is the first bound and is not judged)
    for nm, fn in (("centre", ax.getCoordinates), ("base", ax.getCellBase)):
        try:
            got = fn((0, 0, -1 - case["k"] % 3))
            out.fail("axial/negative-index-not-refused", "%s of index %d returned %s (bounds %s)" % (nm, -1 - case["k"] % 3, list(got), zb))
        except IndexError:
            pass
    ax2 = _rebuild(ax)
    out.check(_close(ax2.getCoordinates((0, 0, k)), c, 0.0) and ax2.isAxialOnly and ax2.reduce()[2:] == ax.reduce()[2:], "axial/reduce", "rebuilt axial grid differs")
    # offsets apply to bounds-defined dimensions as well (centre/base/top = bounds value + offset)
    bo = case.get("boffset")
    if bo is not None:
        out.label("bounds-grid-with-offset")
        axo = grids.AxialGrid(bounds=(None, None, np.array(zb)), offset=tuple(bo))
        want = (bo[0], bo[1], (zb[k] + zb[k + 1]) / 2.0 + bo[2])
        got = axo.getCoordinates((0, 0, k))
        out.check(_close(got, want, tolz + 1e-9 * 50), "axial/offset-centre", lambda: "k=%d offset %s: %s expected %s" % (k, bo, list(got), want))
        out.check(_close(axo.getCellBase((0, 0, k)), (bo[0], bo[1], zb[k] + bo[2]), tolz + 1e-9 * 50)
                  and _close(axo.getCellTop((0, 0, k)), (bo[0], bo[1], zb[k + 1] + bo[2]), tolz + 1e-9 * 50), "axial/offset-base-top", "k=%d offset %s" % (k, bo))
        axo2 = _rebuild(axo)
        out.check(_close(axo2.getCoordinates((0, 0, k)), got, 0.0), "axial/offset-reduce", "rebuilt offset axial grid differs")
    axn = grids.AxialGrid.fromNCells(len(zb))
    out.check(_close(axn.getCoordinates((0, 0, k)), (0, 0, k + 0.5), 1e-12), "axial/fromNCells", "unit axial grid centre")
    # theta-R-Z
    t = case["trz"]
    nth = t["theta"]
    thb = [2 * math.pi * m / nth for m in range(nth + 1)]
    trz = grids.ThetaRZGrid(bounds=(np.array(thb), np.array(t["r"]), np.array(t["z"])))
    ci, cj, ck = t["cell"][0] % nth, t["cell"][1] % (len(t["r"]) - 1), t["cell"][2] % (len(t["z"]) - 1)
    nat = trz.getCoordinates((ci, cj, ck), nativeCoords=True)
    th_m, r_m, z_m = (thb[ci] + thb[ci + 1]) / 2, (t["r"][cj] + t["r"][cj + 1]) / 2, (t["z"][ck] + t["z"][ck + 1]) / 2
    tolr = 1e-9 * max(t["r"][-1], t["z"][-1], 1.0)
    out.check(_close(nat, (th_m, r_m, z_m), tolr), "trz/native-centre", lambda: "%s expected %s" % (list(nat), (th_m, r_m, z_m)))
    xyz = trz.getCoordinates((ci, cj, ck))
    out.check(_close(xyz, (r_m * math.cos(th_m), r_m * math.sin(th_m), z_m), tolr), "trz/xyz-centre", lambda: "%s" % list(xyz))
    out.check(_close(trz.getCellBase((ci, cj, ck)), (thb[ci], t["r"][cj], t["z"][ck]), tolr)
              and _close(trz.getCellTop((ci, cj, ck)), (thb[ci + 1], t["r"][cj + 1], t["z"][ck + 1]), tolr), "trz/base-top", "cell %s" % ((ci, cj, ck),))
    out.check(tuple(trz.getRingPos((ci, cj, ck))) == (cj + 1, ci + 1) and tuple(trz.getIndicesFromRingAndPos(cj + 1, ci + 1)) == (ci, cj),
              "trz/ringpos", "cell %s" % ((ci, cj, ck),))
    # native coordinates through the locator, at the end of the parent chain and nested
    tloc = trz[ci, cj, ck]
    out.check(_close(tloc.getLocalCoordinates(nativeCoords=True), (th_m, r_m, z_m), tolr)
              and _close(tloc.getGlobalCoordinates(nativeCoords=True), (th_m, r_m, z_m), tolr), "trz/locator-native-coordinates",
              lambda: "locator native coordinates %s expected %s" % (list(tloc.getGlobalCoordinates(nativeCoords=True)), (th_m, r_m, z_m)))
    out.check(_close(tloc.getGlobalCoordinates(), xyz, 0.0), "trz/locator-xyz-coordinates", "locator x-y-z coordinates differ from the grid's")
    if bo is not None:
        trzo = grids.ThetaRZGrid(bounds=(np.array(thb), np.array(t["r"]), np.array(t["z"])), offset=(0.0, 0.0, bo[2]))
        nat_o = trzo.getCoordinates((ci, cj, ck), nativeCoords=True)
        out.check(_close(nat_o, (th_m, r_m, z_m + bo[2]), tolr + 1e-9 * 50), "trz/offset-native-centre",
                  lambda: "axial offset %r: %s expected z %r" % (bo[2], list(nat_o), z_m + bo[2]))
    trz2 = _rebuild(trz)
    out.check(_close(trz2.getCoordinates((ci, cj, ck)), xyz, 0.0), "trz/reduce", "rebuilt theta-rz grid differs")

    # ---- nesting: reactor -> core(grid) -> assembly(axial grid) -> block(pin grid) -> pin
    reactor = composites.Composite("reactor")
    core = composites.Composite("core")
    reactor.add(core)
    origin = case["coreOrigin"]
    if origin is not None:
        core.spatialLocator = grids.CoordinateLocation(origin[0], origin[1], origin[2], None)
    core.spatialGrid = _mkgrid(case["coreKind"], case["corePitch"], core)
    assem = composites.Composite("assem")
    core.add(assem)
    ci, cj = case["coreCell"]
    ex = _expect_xy(case["coreKind"], case["corePitch"], ci, cj)
    tol = 1e-9 * (case["corePitch"] * 10 + 200 + zb[-1])
    base = np.array(origin if origin is not None else (0.0, 0.0, 0.0))
    if case["midFree"] is not None and depth >= 2:
        mf = case["midFree"]
        assem.spatialLocator = grids.CoordinateLocation(mf[0], mf[1], mf[2], core.spatialGrid)
        a_xyz = base + np.array(mf)
        a_idx = (0, 0, 0)
        out.check(tuple(assem.spatialLocator.getCompleteIndices()) == (0, 0, 0), "nest/free-complete-indices", "coordinate location indices")
    else:
        cK = case.get("coreK", 0)
        if cK:
            out.label("parent-cell-on-axial-level>0")
        assem.spatialLocator = core.spatialGrid[ci, cj, cK]
        a_xyz = base + np.array((ex[0], ex[1], 0.0))  # (pitch-defined radial grids have no axial step: the level does not move the cell)
        a_idx = (ci, cj, cK)
        out.check(tuple(assem.spatialLocator.getCompleteIndices()) == (ci, cj, cK), "nest/assembly-complete-indices", "assembly locator")
    g1 = assem.spatialLocator.getGlobalCoordinates()
    out.check(_close(g1, a_xyz, tol), "nest/depth1-global", lambda: "assembly at %s expected %s" % (list(g1), list(a_xyz)))
    if depth >= 2:
        h = case.get("axStep")
        if h is not None and len(zb) >= 3:
            # (a step-defined grid with a single cell in every direction cannot be told from a radial one: armi calls a grid
            # axial-only when it has one cell in i and j and MORE than one in k; such stacks are described by bounds instead)
            # the same kind of stack described by a regular step: cell k spans [k*h, (k+1)*h]
            out.label("axial-by-steps")
            zb = [h * n for n in range(len(zb))]
            assem.spatialGrid = grids.AxialGrid(unitSteps=((0, 0, 0), (0, 0, 0), (0, 0, h)), unitStepLimits=((0, 1), (0, 1), (0, len(zb) - 1)),
                                                offset=(0.0, 0.0, h / 2.0), armiObject=assem)
            out.check(assem.spatialGrid.isAxialOnly, "nest/step-axial-grid-not-axial-only", "a grid with one cell in i and j and several in k is axial-only")
            rb = grids.AxialGrid(*assem.spatialGrid.reduce())
            out.check(rb.isAxialOnly and _close(rb.getCoordinates((0, 0, k)), assem.spatialGrid.getCoordinates((0, 0, k)), tol),
                      "nest/step-axial-grid-rebuild", "rebuilt step-defined axial grid differs")
        else:
            assem.spatialGrid = grids.AxialGrid(bounds=(None, None, np.array(zb)), armiObject=assem)
        block = composites.Composite("block")
        assem.add(block)
        block.spatialLocator = assem.spatialGrid[0, 0, k]
        zc = (zb[k] + zb[k + 1]) / 2.0
        b_xyz = a_xyz + np.array((0, 0, zc))
        g2 = block.spatialLocator.getGlobalCoordinates()
        out.check(_close(g2, b_xyz, tol), "nest/depth2-global", lambda: "block at %s expected %s" % (list(g2), list(b_xyz)))
        want_idx = (a_idx[0], a_idx[1], a_idx[2] + k)
        if case["midFree"] is None:
            # (children of a free-coordinate object: no armi caller asks for complete indices there)
            got = tuple(int(x) for x in block.spatialLocator.getCompleteIndices())
            out.check(got == want_idx, "nest/depth2-complete-indices", lambda: "block indices %s expected %s" % (got, want_idx))
        gb = block.spatialLocator.getGlobalCellBase()
        gt = block.spatialLocator.getGlobalCellTop()
        out.check(abs((gt[2] - gb[2]) - (zb[k + 1] - zb[k])) <= tol, "nest/depth2-cell-height", lambda: "cell height %r expected %r" % (gt[2] - gb[2], zb[k + 1] - zb[k]))
        if depth >= 3 and case["pinKind"] == "axial":
            # axial-in-axial nesting (an axial sub-mesh inside a block): coordinates add, indices do NOT
            out.label("axial-in-axial")
            sub = [0.0, case["pinPitch"], 2.5 * case["pinPitch"], 4.0 * case["pinPitch"]]
            block.spatialGrid = grids.AxialGrid(bounds=(None, None, np.array(sub)), armiObject=block)
            pin = composites.Composite("slice")
            block.add(pin)
            kk = abs(case["pinCell"][0]) % 3
            pin.spatialLocator = block.spatialGrid[0, 0, kk]
            p_xyz = b_xyz + np.array((0.0, 0.0, (sub[kk] + sub[kk + 1]) / 2.0))
            g3 = pin.spatialLocator.getGlobalCoordinates()
            out.check(_close(g3, p_xyz, tol), "nest/axial-in-axial-global", lambda: "slice at %s expected %s" % (list(g3), list(p_xyz)))
            got = tuple(int(x) for x in pin.spatialLocator.getCompleteIndices())
            out.check(got == (0, 0, kk), "nest/axial-in-axial-complete-indices", lambda: "slice indices %s expected local %s" % (got, (0, 0, kk)))
        elif depth >= 3:
            block.spatialGrid = _mkgrid(case["pinKind"], case["pinPitch"], block)
            pin = composites.Composite("pin")
            block.add(pin)
            pi_, pj = case["pinCell"]
            pin.spatialLocator = block.spatialGrid[pi_, pj, 0]
            pex = _expect_xy(case["pinKind"], case["pinPitch"], pi_, pj)
            p_xyz = b_xyz + np.array((pex[0], pex[1], 0.0))
            g3 = pin.spatialLocator.getGlobalCoordinates()
            out.check(_close(g3, p_xyz, tol), "nest/depth3-global", lambda: "pin at %s expected %s" % (list(g3), list(p_xyz)))
            got = tuple(int(x) for x in pin.spatialLocator.getCompleteIndices())
            out.check(got == (pi_, pj, 0), "nest/depth3-complete-indices", lambda: "pin indices %s expected local %s" % (got, (pi_, pj, 0)))
            multi = block.spatialGrid[[(pi_, pj, 0), (0, 0, 0)]]
            out.check(len(multi) == 2 and [tuple(x) for x in multi.indices] == [(pi_, pj, 0), (0, 0, 0)] and multi[0] is block.spatialGrid[pi_, pj, 0],
                      "nest/multi-index", "multi index locator content")
    return out


PARTS = [
    Part("hex_cells", hex_execute, enumerate=hex_enum, exhaustive=True, procs={"quick": 8, "thorough": 16},
         rule="every cell of rings 1..N in both hex orientations (one case = one ring); non-trivial = cell in ring >= 2; "
              "oracle: ring walk in cube coordinates, affine centres, neighbour geometry, label/locator round trips",
         bound=lambda t: "rings <= %d, both orientations" % _HEX_RINGS[t]),
    Part("ring_count", count_execute, enumerate=count_enum, exhaustive=True, procs={"quick": 6, "thorough": 16},
         rule="every n in [0, N] for numRingsToHoldNumCells against integer search; non-trivial = n >= 2",
         bound=lambda t: "n <= %d" % _COUNT_MAX[t]),
    Part("hex_generated", hexgen_execute, strategy=hexgen_strategy, budget={"quick": 1500, "thorough": 60000}, procs={"quick": 4, "thorough": 16},
         rule="Hypothesis: pitch, orientation, symmetry, cells up to |i|,|j| <= 1e6; centre/base/top affine, reduce() rebuild, changePitch; "
              "non-trivial = at least one off-centre cell"),
    Part("cartesian", cart_execute, enumerate=cart_enum, exhaustive=True, procs={"quick": 4, "thorough": 16},
         rule="every cell of Chebyshev shells 1..N for centred and offset Cartesian grids (one case = one shell); ring/pos injective and "
              "complete, affine centres/base/top, least ring count, reduce() rebuild, changePitch; non-trivial = shell >= 2",
         bound=lambda t: "shells <= %d, both centre styles" % _CART_N[t]),
    Part("bounds_nesting", nest_execute, strategy=nest_strategy, budget={"quick": 1200, "thorough": 40000}, procs={"quick": 4, "thorough": 16},
         rule="Hypothesis: axial (bounds- or step-defined) and theta-R-Z bounds, nestings core/assembly/block/pin up to three deep with indexed or free intermediate "
              "locations; global = sum of local coordinates, indices add only for axial-in-radial; non-trivial = depth >= 2"),
]
