"""C17 - case settings survive a write/read cycle and reject what they cannot hold.

Parts
-----
defaults     every setting's default is admitted by the setting's own schema (enumeration)
assign       histories of assignments: schema-defined validity, near misses keep the previous value
documents    random subsets changed at once -> armi writer (short/medium/full, stream/file) -> armi reader;
             the text is also parsed independently with ruamel
handwritten  files produced without armi (block/flow YAML): valid values, invalid values, unknown keys (batch mode and
             a user answering the prompt)
renames      every documented old name (+ synthetic expiring ones) in a file lands on the new setting
copies       modified()/duplicate()/pickle leave the original untouched (also for list/dict values)
each_setting one group of single-setting documents per setting of the App (deterministic values, all styles)
numeric_table every numeric setting x boundary values against the documented coercion + range (independent table)
xs_table     complete presence table of geometry / xsFileLocation / fluxFileLocation of a crossSectionControl entry
"""
import copy
import datetime
import io
import math
import os

from hypothesis import strategies as st

from vp.runner import Out, Part

PROPERTY = "C17"
LEVEL = "exploration"
ASSUMPTIONS = [
    "validity of a value is DEFINED by the setting's own schema evaluated on an independent Setting copy "
    "(schema(v) raises <=> invalid); near misses built from the introspected Range/In/Coerce constraints are "
    "additionally expected to be invalid by construction",
    "equality is taken after schema normalisation: tuples == lists, numbers compare numerically (bool, str and None "
    "are distinct kinds), XSModelingOptions compare by attributes",
    "`versions` is metadata: the writer always adds versions['armi'] = <live version>; it is compared modulo that key",
    "strings are drawn from Unicode without surrogates and without control characters other than \\n and \\t "
    "(ruamel itself folds U+0085 NEL to a blank; not an armi property); NaN is not generated",
    "verbosity/branchVerbosity/moduleVerbosity values are restricted to valid log levels and userPlugins is never a "
    "non-empty list when a file is read (reading applies them as process-wide side effects)",
    "voluptuous, ruamel.yaml and the Python float repr are trusted (second-generation texts are compared with rel 1e-12 on floats: "
    "ruamel re-formats the ScalarFloat objects of its round-trip loader and may move the last digits)",
    "dated old names are classified with today's date exactly as SettingRenamer does (the App defines none; the synthetic ones use "
    "2000-01-01 and 9999-12-31); the unknown-key prompt is answered through a replaced sys.stdin in interactive mode",
]

# Confirmed defects of the unchanged tree (AUTHORING rule 3): the generators avoid the triggering shape while the
# entry is True and count the avoided draws with a label `excluded:<signature>`; `execute` is never weakened.
EXCLUDE_KNOWN = {
    # all three were repaired in /repo (fix: commits 8c98ef0, 2950948, 883b0fa): the shapes are searched again
    "renames/old-name-not-applied-by-reader": False,
    "defaults/default-rejected-by-own-schema": False,
    "documents/userPlugins-none-crashes-file-read": False,
}
SIG_RENAME = "renames/old-name-not-applied-by-reader"
SIG_DEFAULT = "defaults/default-rejected-by-own-schema"
SIG_UPLUG = "documents/userPlugins-none-crashes-file-read"


def _excluded(sig):
    return bool(EXCLUDE_KNOWN.get(sig)) and os.environ.get("VP_C17_INCLUDE_KNOWN") != "1"


LOG_LEVELS = ["debug", "extra", "info", "important", "prompt", "warning", "error"]
SIDE_EFFECT_LEVEL = ("verbosity", "branchVerbosity")
STYLES = ["short", "medium", "full"]

HOSTILE = [
    "", " ", "null", "Null", "~", "yes", "no", "on", "off", "y", "N", "true", "False", "1e3", "1E-3", ".5", "1.", "+1",
    "012", "0x10", "0o17", "1_000", ".inf", "-.inf", ".nan", "1:30", "2001-01-01", " lead", "trail ", "a: b", "a:b",
    "key:", ": x", "x #y", "#", "# c", "- x", "-", "---", "...", "? x", "{a: 1}", "[1]", "[", "}", "!tag", "&a", "*a",
    "%d", "@at", "`bt", "|", ">", "|-", "\"q\"", "'q'", "it's", "a\\nb", "\\", "\ttab", "tab\t", "line1\nline2",
    "\n", "a\n", "\na", "a\n\nb", "a \nb", " a\nb", "a\n b", "é", "漢字", "\U0001f600", " x", "﻿b",
    "None", "<<", "=", "%", ",", "a,b", "a\rb",
]

# --------------------------------------------------------------------------------------------------
# case value encoding (JSON only): {"$t": [...]} tuple, {"$f": "inf"} special float, {"$d": 1} "the default"


def dec(v, default=None):
    if isinstance(v, list):
        return [dec(x) for x in v]
    if isinstance(v, dict):
        if len(v) == 1:
            if "$t" in v:
                return tuple(dec(x) for x in v["$t"])
            if "$f" in v:
                return float(v["$f"])
            if "$d" in v:
                return copy.deepcopy(default)
        return {k: dec(x) for k, x in v.items()}
    return v


def same(a, b):
    """Equality after normalisation (see ASSUMPTIONS)."""
    if isinstance(a, bool) or isinstance(b, bool):
        return isinstance(a, bool) and isinstance(b, bool) and a == b
    if a is None or b is None:
        return a is None and b is None
    if isinstance(a, str) or isinstance(b, str):
        return isinstance(a, str) and isinstance(b, str) and str(a) == str(b)
    if isinstance(a, (int, float)) and isinstance(b, (int, float)):
        return a == b
    if isinstance(a, (list, tuple)) and isinstance(b, (list, tuple)):
        return len(a) == len(b) and all(same(x, y) for x, y in zip(a, b))
    if isinstance(a, dict) and isinstance(b, dict):
        if len(a) != len(b) or set(a.keys()) != set(b.keys()):
            return False
        return all(same(a[k], b[k]) for k in a)
    if hasattr(a, "xsID") and hasattr(b, "xsID"):
        return same(dict(vars(a)), dict(vars(b)))
    try:
        return type(a) is type(b) and bool(a == b)
    except Exception:  # noqa: BLE001
        return False


def plain(v):
    """Deep, armi-free snapshot of a setting value."""
    if v is None or isinstance(v, bool):
        return v
    if isinstance(v, int):
        return int(v)
    if isinstance(v, float):
        return float(v)
    if isinstance(v, str):
        return str(v)
    if isinstance(v, (list, tuple)):
        return [plain(x) for x in v]
    if isinstance(v, dict):
        return {k: plain(x) for k, x in v.items()}
    if hasattr(v, "xsID"):
        return {"$xs": {k: plain(x) for k, x in vars(v).items()}}
    return copy.deepcopy(v)


def _unxs(p):
    return p["$xs"] if isinstance(p, dict) and len(p) == 1 and "$xs" in p else p


def psame(a, b):
    """same() for plain() snapshots."""
    a, b = _unxs(a), _unxs(b)
    if isinstance(a, dict) and isinstance(b, dict):
        return set(a) == set(b) and all(psame(a[k], b[k]) for k in a)
    if isinstance(a, list) and isinstance(b, list):
        return len(a) == len(b) and all(psame(x, y) for x, y in zip(a, b))
    return same(a, b)


def psame_tol(a, b, rel=1e-12):
    """psame() with a relative tolerance on floats (second-generation texts: ruamel re-formats the ScalarFloat objects
    its round-trip loader returned and may move the 16th digit; trusted library behaviour, not asserted)."""
    a, b = _unxs(a), _unxs(b)
    if isinstance(a, dict) and isinstance(b, dict):
        return set(a) == set(b) and all(psame_tol(a[k], b[k], rel) for k in a)
    if isinstance(a, list) and isinstance(b, list):
        return len(a) == len(b) and all(psame_tol(x, y, rel) for x, y in zip(a, b))
    if isinstance(a, float) and isinstance(b, float) and math.isfinite(a) and math.isfinite(b):
        return abs(a - b) <= rel * max(abs(a), abs(b)) or max(abs(a), abs(b)) < 1e-300  # subnormals carry fewer digits
    return same(a, b)


def _val(cs, name):
    """Value of a setting without the simple-cycles access guard of Settings.__getitem__."""
    return dict(cs.items())[name].value


def snapshot(cs):
    return {n: plain(s.value) for n, s in cs.items()}


def _diff(snap_a, snap_b, skip=()):
    names = sorted(set(snap_a) | set(snap_b))
    return [n for n in names if n not in skip and (n not in snap_a or n not in snap_b or not psame(snap_a[n], snap_b[n]))]


# --------------------------------------------------------------------------------------------------
# the App under test = stock App + one small plugin that uses the settings API only plugins use: new settings with
# oldNames (expired / never expiring / expiring in the future, in different orders), an added Option and Default
# overrides of framework and built-in-plugin settings.  The expectations below are this module's own constants.
LONG_AGO = "2000-01-01"
FAR_FUTURE = "9999-12-31"
PLUGIN_DEFAULTS = {  # Default(value, settingName) contributed by the plugin: the default every Settings() must report
    "burnSteps": 3,               # framework setting (exists when the Default arrives)
    "outers": 50,                 # setting of the built-in neutronics plugin (Default arrives first and is cached)
    "outputFileExtension": "png",  # option list
    "buGroups": [5, 15],          # container
    "db": False,                  # falsy new default
    "targetK": 1.0,
    "vpOptSetting": "two",        # default override of the plugin's own setting
    "neutronicsKernel": "VPK-A",  # built-in setting that starts with an EMPTY enforced option list; options come from plugins
}
# enforced option lists = initial options + every contributed Option (module constants; the rule "value must be one of them"
# is the documented meaning of enforcedOptions, whatever schema object armi builds)
PLUGIN_OPTIONS = {"vpOptSetting": ["four"], "neutronicsKernel": ["VPK-A", "vpk-b", "VPK-A2"], "vpEmptyOptSetting": ["", "red", "Green", "red2"]}
ENFORCED_OPTIONS = {
    "vpOptSetting": ["one", "two", "three", "four"],
    "neutronicsKernel": ["VPK-A", "vpk-b", "VPK-A2"],
    "vpEmptyOptSetting": ["", "red", "Green", "red2"],
    "assemblyRotationAlgorithm": ["", "buReducingAssemblyRotation", "simpleAssemblyRotation"],
    "boundaries": ["Extrapolated", "Reflective", "Infinite", "ZeroSurfaceFlux", "ZeroInwardCurrent", "Generalized"],
    "latticePhysicsFrequency": ["never", "BOL", "BOC", "everyNode", "firstCoupledIteration", "all"],
}
PLUGIN_SETTINGS = {  # name -> (default as defined, oldNames)
    "vpIntSetting": (5, [("vpIntExpired", LONG_AGO), ("vpIntOld", None), ("vpIntFuture", FAR_FUTURE)]),
    "vpStrSetting": ("alpha", [("vpStrOld", None), ("vpStrExpired", LONG_AGO), ("vpStrOld2", None)]),
    "vpListSetting": (["a"], [("vpListFuture", FAR_FUTURE), ("vpListExpired", LONG_AGO)]),
    "vpFloatSetting": (0.5, [("vpFloatExpired", LONG_AGO), ("vpFloatFuture", FAR_FUTURE), ("vpFloatOld", None)]),
    "vpBoolSetting": (False, []),
    "vpDictSetting": ({}, [("vpDictExpired", LONG_AGO), ("vpDictExpired2", LONG_AGO), ("vpDictOld", None)]),
    "vpOptSetting": ("one", [("vpOptOld", None)]),
    "vpEmptyOptSetting": ("", [("vpEmptyOptOld", None)]),  # options=[] + enforcedOptions=True, completed by Options
}
_PLUGIN = []


def _ensure_plugin():
    """Register the test plugin on the App of this (C17-only) worker process, once."""
    if _PLUGIN:
        return
    import voluptuous as vol

    from armi import getApp, plugins
    from armi.settings import setting

    D = datetime.date.fromisoformat

    def olds(name):
        return [(o, None if d is None else D(d)) for o, d in PLUGIN_SETTINGS[name][1]]

    class VpC17SettingsPlugin(plugins.ArmiPlugin):
        @staticmethod
        @plugins.HOOKIMPL
        def defineSettings():
            mk = lambda name, **kw: setting.Setting(name, default=copy.deepcopy(PLUGIN_SETTINGS[name][0]),  # noqa: E731
                                                    description="C17 verification plugin setting " + name, oldNames=olds(name), **kw)
            return [
                mk("vpIntSetting", schema=vol.All(vol.Coerce(int), vol.Range(min=0))),
                mk("vpStrSetting"),
                mk("vpListSetting"),
                mk("vpFloatSetting", schema=vol.All(vol.Coerce(float), vol.Range(min=0, max=1))),
                mk("vpBoolSetting"),
                mk("vpDictSetting"),
                mk("vpOptSetting", options=["one", "two", "three"], enforcedOptions=True),
                mk("vpEmptyOptSetting", options=[], enforcedOptions=True),
            ] + [setting.Option(o, n) for n in sorted(PLUGIN_OPTIONS) for o in PLUGIN_OPTIONS[n]] + [setting.Default(copy.deepcopy(v), n) for n, v in sorted(PLUGIN_DEFAULTS.items())]

    getApp().pluginManager.register(VpC17SettingsPlugin)
    _PLUGIN.append(VpC17SettingsPlugin)


def _fresh():
    from armi.settings import caseSettings

    _ensure_plugin()
    return caseSettings.Settings()


def _quiet():
    from armi import runLog

    runLog.setVerbosity("error")


def _try_schema(setting, value):
    """(ok, normalised value or exception) using the setting's own schema on an independent copy."""
    try:
        return True, setting._load(setting.schema(copy.deepcopy(value)))
    except Exception as exc:  # noqa: BLE001  (whatever the schema raises means "invalid")
        return False, exc


# --------------------------------------------------------------------------------------------------
# schema introspection -> spec tree (worker side only)

_CAT = None


def _spec(node):
    import voluptuous as vol

    if isinstance(node, vol.Schema):
        return _spec(node.schema)
    if isinstance(node, vol.All):
        subs = [_spec(x) for x in node.validators]
        # the value type is the first validator that says one (whatever its position); ranges are merged from all of them
        first = next((i for i, x in enumerate(subs) if x["t"] not in ("range", "unknown")), 0)
        base = dict(subs[first])
        if first != 0:
            base["extra"] = True  # unusual order: only the table / the schema itself can say what is admitted
        for s in subs[:first] + subs[first + 1:]:
            if s["t"] == "range":
                for k in ("min", "max", "minInc", "maxInc"):
                    if k in s:
                        base[k] = s[k]
            elif s["t"] == "in":
                base = {"t": "in", "options": s["options"], "exactStr": base.get("t") == "str"}
            else:
                base["extra"] = True
        return base
    if isinstance(node, vol.Any):
        return {"t": "any", "alts": [_spec(x) for x in node.validators]}
    if isinstance(node, vol.Coerce):
        names = {bool: "bool", int: "int", float: "float", str: "str", list: "anylist", dict: "anydict"}
        return {"t": names.get(node.type, "unknown"), "coerce": True}
    if isinstance(node, vol.Range):
        out = {"t": "range"}
        if node.min is not None:
            out["min"], out["minInc"] = node.min, bool(node.min_included)
        if node.max is not None:
            out["max"], out["maxInc"] = node.max, bool(node.max_included)
        return out
    if isinstance(node, vol.In):
        return {"t": "in", "options": sorted(node.container, key=repr)}
    if node is None:
        return {"t": "none"}
    if isinstance(node, type):
        names = {bool: "bool", int: "int", float: "float", str: "str"}
        return {"t": names.get(node, "unknown"), "coerce": False}
    if isinstance(node, list) and len(node) == 1:
        return {"t": "list", "item": _spec(node[0])}
    return {"t": "unknown"}


def catalogue():
    """name -> {spec, default, options, enforced, oldNames, cls}; built once per worker from the configured App."""
    global _CAT
    if _CAT is not None:
        return _CAT
    cs = _fresh()
    cat = {}
    for name, s in sorted(cs.items()):
        cls = type(s).__name__
        if cls == "XSSettingDef":
            spec = {"t": "xs"}
        elif cls == "TightCouplingSettingDef":
            spec = {"t": "tight"}
        elif cls == "FlagListSetting":
            spec = {"t": "flags"}
        elif name == "cycles":
            spec = {"t": "cycles"}
        else:
            spec = _spec(s.schema)
            if spec["t"] == "unknown":
                spec = {"t": "bydefault"}
        if name in ENFORCED_OPTIONS:
            spec = {"t": "in", "options": list(ENFORCED_OPTIONS[name]), "exactStr": False}
        if name in SIDE_EFFECT_LEVEL:
            spec = {"t": "in", "options": list(LOG_LEVELS), "restricted": True}
        elif name == "moduleVerbosity":
            spec = {"t": "modverb"}
        elif name == "userPlugins":
            spec = {"t": "userplugins"}
        elif name == "versions":
            spec = {"t": "versions"}
        elif s.options and not s.enforcedOptions and spec["t"] == "str":
            spec = dict(spec, suggested=[o for o in s.options if isinstance(o, str)])
        cat[name] = {
            "spec": spec,
            "default": copy.deepcopy(PLUGIN_DEFAULTS[name]) if name in PLUGIN_DEFAULTS else copy.deepcopy(s.default),
            "oldNames": list(PLUGIN_SETTINGS[name][1]) if name in PLUGIN_SETTINGS else [(o, None if d is None else d.isoformat()) for o, d in s.oldNames],
            "container": isinstance(s.default, (list, dict)) or spec["t"] in ("xs", "tight", "cycles", "list", "anylist", "anydict"),
            "defaultOk": _try_schema(s, PLUGIN_DEFAULTS.get(name, s.default))[0],
            "pdefault": plain(PLUGIN_DEFAULTS.get(name, s.default)),
        }
    _CAT = cat
    return cat


def _kind(spec):
    t = spec["t"]
    if t == "any":
        return "any(" + "|".join(sorted({_kind(a) for a in spec["alts"]})) + ")"
    if t == "list":
        return "list<%s>" % _kind(spec["item"])
    return t


# --------------------------------------------------------------------------------------------------
# a small model of the voluptuous subset used by the settings: labels generated values valid / invalid / any


def _in_range(x, spec):
    try:
        if "min" in spec and (x < spec["min"] or (x == spec["min"] and not spec["minInc"])):
            return False
        if "max" in spec and (x > spec["max"] or (x == spec["max"] and not spec["maxInc"])):
            return False
    except TypeError:
        return False
    return True


def _model(spec, v):
    """'valid' | 'invalid' | 'any' for python value v under spec (by construction of the documented schema)."""
    t = spec["t"]
    res = "any"
    if t in ("int", "float", "str", "bool"):
        typ = {"int": int, "float": float, "str": str, "bool": bool}[t]
        if spec.get("coerce"):
            try:
                x = typ(v)
                res = "valid"
            except (ValueError, TypeError, OverflowError):
                return "invalid"
        else:
            if t == "int":
                ok = isinstance(v, int)
            elif t == "bool":
                ok = isinstance(v, bool)
            else:
                ok = isinstance(v, typ)
            if not ok:
                return "invalid"
            x, res = v, "valid"
        if t in ("int", "float") and not _in_range(x, spec):
            return "invalid"
    elif t == "in":
        try:
            res = "valid" if v in spec["options"] else "invalid"
        except TypeError:
            res = "invalid"
        if spec.get("exactStr") and not isinstance(v, str):
            res = "invalid"
        if not spec["options"]:
            res = "any"
    elif t == "none":
        res = "valid" if v is None else "invalid"
    elif t == "any":
        subs = [_model(a, v) for a in spec["alts"]]
        if "valid" in subs:
            res = "valid"
        elif all(s == "invalid" for s in subs):
            res = "invalid"
    elif t == "list":
        if isinstance(v, tuple):
            return "any"
        if not isinstance(v, list):
            return "invalid"
        subs = [_model(spec["item"], x) for x in v]
        if "invalid" in subs:
            res = "invalid"
        elif all(s == "valid" for s in subs):
            res = "valid"
    elif t == "anylist":
        res = "valid" if isinstance(v, (list, tuple, str, dict)) else "invalid"
    elif t == "anydict":
        if isinstance(v, dict):
            res = "valid"
        elif v is None or isinstance(v, (bool, int, float)):
            res = "invalid"
    if spec.get("extra") and res == "valid":
        res = "any"
    return res


# --------------------------------------------------------------------------------------------------
# numeric settings: documented coercion + range, transcribed from the setting definitions of the framework and the built-in
# plugins (NOT read from the schema objects at run time, so a changed schema cannot change the expectation).
# Semantics: the value is coerced with int()/float() FIRST, the coerced value must lie in the range, the coerced value is
# held; 'none': None is admitted and held; 'list': a list of such numbers is admitted as well.
_R0 = {"min": 0, "minInc": True}
_R0X = {"min": 0, "minInc": False}
_R01 = {"min": 0, "minInc": True, "max": 1, "maxInc": True}
NUMERIC_TABLE = {
    "Tin": {"type": "float", "min": -273.15, "minInc": True},
    "Tout": {"type": "float", "min": -273.15, "minInc": True},
    "acceptableBlockAreaError": dict(_R0X, type="float"),
    "aclpDoseLimit": {"type": "float"},
    "availabilityFactor": dict(_R0, type="float", none=True),
    "axialMeshRefinementFactor": dict(_R0X, type="int"),
    "bcCoefficient": {"type": "float"},
    "beta": dict(_R01, type="float", none=True, list=dict(_R01, type="float")),
    "burnSteps": dict(_R0, type="int", none=True),
    "burnupPeakingFactor": dict(_R0, type="float"),
    "circularRingPitch": {"type": "float"},
    "customFuelManagementIndex": {"type": "int"},
    "cycleLength": dict(_R0X, type="float", none=True),
    "dbStorageAfterCycle": dict(_R0, type="int"),
    "decayConstants": dict(_R0, type="float", none=True, list=dict(_R0, type="float")),
    "deferredInterfacesCycle": {"type": "int"},
    "dpaPerFluence": {"type": "float"},
    "epsEig": {"type": "float"},
    "epsFSAvg": {"type": "float"},
    "epsFSPoint": {"type": "float"},
    "fissionGasYieldFraction": {"type": "float"},
    "infiniteDiluteCutoff": {"type": "float"},
    "inners": {"type": "int"},
    "jumpRingNum": {"type": "int"},
    "levelsPerCascade": {"type": "int"},
    "loadPadElevation": {"type": "float"},
    "loadPadLength": {"type": "float"},
    "lowPowerRegionFraction": dict(_R01, type="float"),
    "minMeshSizeRatio": dict(_R0X, type="float"),
    "minimumFissileFraction": {"type": "float"},
    "minimumNuclideDensity": {"type": "float"},
    "nCycles": {"type": "int", "min": 1, "minInc": True},
    "nTasks": {"type": "int", "min": 1, "minInc": True},
    "numberMeshPerEdge": {"type": "int"},
    "outers": {"type": "int"},
    "power": dict(_R0, type="float"),
    "powerDensity": dict(_R0, type="float"),
    "removePerCycle": {"type": "int"},
    "skipCycles": dict(_R0, type="int"),
    "startCycle": dict(_R0, type="int"),
    "startNode": dict(_R0, type="int"),
    "targetK": dict(_R0, type="float"),
    "tightCouplingMaxNumIters": {"type": "int"},
    "timelineInclusionCutoff": {"type": "float", "min": 0, "minInc": True, "max": 100, "maxInc": True},
    "tolerateBurnupChange": {"type": "float"},
    "uniformMeshMinimumSize": dict(_R0X, type="float", none=True),
    "xsBucklingConvergence": {"type": "float"},
    "xsEigenvalueConvergence": {"type": "float"},
    "xsScatteringOrder": {"type": "int"},
    "vpIntSetting": dict(_R0, type="int"),
    "vpFloatSetting": dict(_R01, type="float"),
}


def _numeric_scalar(entry, v):
    typ = int if entry["type"] == "int" else float
    try:
        x = typ(v)
    except (ValueError, TypeError, OverflowError):
        return "invalid", None
    if isinstance(x, float) and math.isnan(x):
        return "any", None
    return ("valid", x) if _in_range(x, entry) else ("invalid", None)


def _numeric_model(entry, v):
    """('valid', held value) | ('invalid', None) | ('any', None) for python value v under the documented rule."""
    if v is None:
        return ("valid", None) if entry.get("none") else ("invalid", None)
    if isinstance(v, tuple):
        return "any", None
    if isinstance(v, list):
        if "list" not in entry:
            return "invalid", None
        items = [_numeric_scalar(entry["list"], x) if not isinstance(x, (list, tuple, dict)) and x is not None else ("invalid", None) for x in v]
        if any(i[0] == "invalid" for i in items):
            return "invalid", None
        if any(i[0] == "any" for i in items):
            return "any", None
        return "valid", [i[1] for i in items]
    if isinstance(v, dict):
        return "invalid", None
    return _numeric_scalar(entry, v)


def _table_spec(entry):
    """Spec tree (as produced by _spec) for a table entry: drives candidate generation near the documented bounds."""
    base = {"t": entry["type"], "coerce": True}
    for k in ("min", "max", "minInc", "maxInc"):
        if k in entry:
            base[k] = entry[k]
    alts = [base]
    if entry.get("none"):
        alts.append({"t": "none"})
    if "list" in entry:
        alts.append({"t": "list", "item": _table_spec(entry["list"])})
    return base if len(alts) == 1 else {"t": "any", "alts": alts}


# --------------------------------------------------------------------------------------------------
# value strategies (JSON-encoded candidates)


def _text():
    return st.one_of(
        st.sampled_from(HOSTILE),
        st.text(alphabet=st.characters(blacklist_categories=("Cs", "Cc")), max_size=12),
        st.text(alphabet=" :#-\n'\"abc1,[]{}", max_size=8),
        st.sampled_from(["fuel", "a/b/c.yaml", "C:\\x\\y.dat", "U238", "keff"]),
    )


def _key():
    return _text().map(lambda s: s.replace("$", "S"))


_FLOAT_EDGES = [0.0, -0.0, 0.5, 1.0, -1.0, 1e-300, 5e-324, 1e16, 1e22, 1.7976931348623157e308, 0.1 + 0.2, 1.0 / 3.0, 123456789.12345679,
                -273.15, 100.0, 1e-5]
_INT_EDGES = [0, 1, -1, 2, 3, 7, 100, 2**31, 10**12, 10**30, -5]


def _floats():
    return st.one_of(st.sampled_from(_FLOAT_EDGES), st.floats(allow_nan=False, allow_infinity=False),
                     st.floats(-10.0, 10.0, allow_nan=False), st.sampled_from([{"$f": "inf"}, {"$f": "-inf"}]))


def _ints():
    return st.one_of(st.sampled_from(_INT_EDGES), st.integers(-3, 40))


def _boundary(spec):
    pts = []
    for k in ("min", "max"):
        if k in spec:
            b = spec[k]
            pts += [b, b - 1, b + 1]
            try:
                fb = float(b)
                pts += [math.nextafter(fb, -math.inf), math.nextafter(fb, math.inf), fb]
            except (TypeError, OverflowError):
                pass
    return pts


def _yamlish():
    scal = st.one_of(st.none(), st.booleans(), _ints(), _floats(), _text())
    return st.recursive(
        scal,
        lambda c: st.one_of(st.lists(c, max_size=3), st.dictionaries(_key(), c, max_size=3),
                            st.lists(c, max_size=3).map(lambda l: {"$t": l})),
        max_leaves=6,
    )


_WRONG = [None, [], [1], {}, {"a": 1}, "abc", 5, 2.5, True, {"$t": [1, 2]}, [None], [[1]], ""]


def _cands(spec, default):
    """Strategy of JSON-encoded candidate values near the constraints of ``spec`` (validity decided later)."""
    t = spec["t"]
    if t == "bydefault":
        names = {bool: "bool", int: "int", float: "float", str: "str", list: "anylist", dict: "anydict"}
        return _cands({"t": names.get(type(default), "str"), "coerce": True}, default)
    if t in ("int", "float"):
        pts = _boundary(spec)
        alts = [_ints(), _floats(), st.sampled_from(["7", " 7", "7.0", "1e3", "-1", "abc", "", "0x10", "1_0", "inf", "3R"]),
                st.sampled_from(_WRONG), st.booleans()]
        if pts:
            alts += [st.sampled_from(pts)] * 2
        alts += [_ints() if t == "int" else _floats()] * 2
        return st.one_of(alts)
    if t == "str":
        alts = [_text(), _text(), st.sampled_from(_WRONG), _ints(), _floats()]
        if spec.get("suggested"):
            alts += [st.sampled_from(spec["suggested"])] * 2
        return st.one_of(alts)
    if t == "bool":
        return st.one_of(st.booleans(), st.booleans(), st.sampled_from([0, 1, 2, "False", "", "yes", None, [], 0.0, "true"]))
    if t == "in":
        opts = spec["options"]
        if spec.get("restricted"):
            return st.sampled_from(opts)
        miss = []
        for o in opts:
            if isinstance(o, str):
                miss += [o + "x", o.lower(), o.upper(), " " + o, o[:-1]]
        miss = [m for m in miss if m not in opts] + [None, 0, [], ["a"], True, {}]
        alts = [st.sampled_from(miss), _text()]
        if opts:
            alts += [st.sampled_from(opts)] * 3
        return st.one_of(alts)
    if t == "none":
        return st.just(None)
    if t == "any":
        return st.one_of([_cands(a, default) for a in spec["alts"]] + [st.sampled_from(_WRONG)])
    if t == "list":
        item = _cands(spec["item"], None)
        return st.one_of(st.lists(item, max_size=5), st.lists(item, max_size=5), st.lists(item, max_size=3).map(lambda l: {"$t": l}),
                         st.sampled_from(_WRONG))
    if t == "anylist":
        return st.one_of(st.lists(_yamlish(), max_size=4), st.lists(_text(), max_size=4), st.lists(_ints(), max_size=4),
                         st.lists(_yamlish(), max_size=3).map(lambda l: {"$t": l}), st.sampled_from(_WRONG))
    if t == "anydict":
        return st.one_of(st.dictionaries(_key(), _yamlish(), max_size=4), st.dictionaries(_key(), _text(), max_size=4),
                         st.sampled_from([None, 5, "abc", [["a", 1]], [], 2.5, True]))
    if t == "modverb":
        names = st.sampled_from(["vpc17.a", "vpc17.b.c", "vpc17 d", "vpc17:e"])
        return st.dictionaries(names, st.sampled_from(LOG_LEVELS + ["10", "40"]), max_size=3)
    if t == "userplugins":
        return st.sampled_from([None, [], [], ["armi.vpc17.mod.Plug"], ["/p/a.py:Q", "b: c"], 5, "abc", [None]])
    if t == "versions":
        return st.dictionaries(_key().filter(lambda k: k != "armi"), st.one_of(_text(), _floats(), _ints(), st.none()), max_size=3)
    if t == "flags":
        return st.lists(st.sampled_from(["FUEL", "DUCT", "CLAD", "GRID_PLATE", "fuel", "nope"]), max_size=3)
    # a schema shape the introspection does not know (e.g. a bare Range): values by the type of the default
    names = {bool: "bool", int: "int", float: "float", str: "str", list: "anylist", dict: "anydict"}
    return _cands({"t": names.get(type(default), "str"), "coerce": True}, default)


# ---- nested schemas (hand-written from the documented schemas; (value, expectation) pairs)

XS_IDS = ["AA", "AB", "BA", "ZZ", "A", "Z", "a", "no", "on", "y", "N", "1", "10", "1e", "~", ".1", "-", "é", "0x", "#a", " a", "a ",
          "a:", ": ", "{", "''", "- ", "? "]
XS_GEOMS = ["0D", "1D slab", "1D cylinder", "2D hex"]
XS_BLOCKREP = ["Median", "Average", "FluxWeightedAverage", "ComponentAverage1DSlab", "ComponentAverage1DCylinder"]


def _num_ok_float():
    return st.one_of(st.sampled_from([0, 1, 2.5, 1e-5, 1e22, "3", "1e3", 0.0]), st.floats(-1e6, 1e6, allow_nan=False), st.integers(-5, 50))


def _num_ok_int():
    return st.one_of(st.integers(-3, 30), st.sampled_from([3.7, "3", 0, True, 2.0]))


# Validity table of one crossSectionControl entry whose fields are individually well-typed, from the documented rules
# (XSModelingOptions docstring + validate()): values that are None count as not given; an entry with nothing given is
# dropped; otherwise `geometry` or `xsFileLocation` is required, and `fluxFileLocation` "must be provided with" a
# `geometry`.  `blockRepresentation` and the other options do not change the verdict at assignment/read time.
_XS_PRESENCE = ("absent", "none", "value")
XS_COMBOS = [(g, x, f) for g in _XS_PRESENCE for x in _XS_PRESENCE for f in _XS_PRESENCE]


def _xs_table(d):
    """'valid' | 'invalid' | 'dropped' for one option dict (independent of the armi validators)."""
    given = {k: v for k, v in d.items() if k != "xsID" and v is not None}
    if not given:
        return "dropped"
    if "geometry" in given:
        return "valid"
    if "xsFileLocation" in given and "fluxFileLocation" not in given:
        return "valid"
    return "invalid"


XS_COMBOS_VALID = [c for c in XS_COMBOS if c[0] == "value" or (c[1] == "value" and c[2] != "value")]
XS_COMBOS_INVALID = [c for c in XS_COMBOS if c not in XS_COMBOS_VALID]  # incl. the all-empty ones (dropped unless another option is given)


def _xs_fill(combo, geom, paths, flux):
    d = {}
    for key, state, val in (("geometry", combo[0], geom), ("xsFileLocation", combo[1], paths), ("fluxFileLocation", combo[2], flux)):
        if state == "none":
            d[key] = None
        elif state == "value":
            d[key] = val
    return d


def _xs_options():
    opt = st.fixed_dictionaries({}, optional={
        "blockRepresentation": st.sampled_from(XS_BLOCKREP), "driverID": _text(), "criticalBuckling": st.booleans(),
        "nuclideReactionDriver": _text(), "validBlockTypes": st.lists(_text(), max_size=3),
        "useHomogenizedBlockComposition": st.booleans(), "externalDriver": st.booleans(),
        "numInternalRings": _num_ok_int(), "numExternalRings": _num_ok_int(),
        "mergeIntoClad": st.lists(_text(), max_size=3), "mergeIntoFuel": st.lists(_text(), max_size=3),
        "meshSubdivisionsPerCm": _num_ok_float(), "xsExecuteExclusive": st.booleans(), "xsPriority": _num_ok_float(),
        "xsMaxAtomNumber": _num_ok_int(), "minDriverDensity": _num_ok_float(), "averageByComponent": st.booleans(),
        "ductHeterogeneous": st.booleans(), "traceIsotopeThreshold": _num_ok_float(), "xsTempIsotope": _text(),
        "xsID": _text(),
    })
    nones = st.lists(st.sampled_from(["driverID", "validBlockTypes", "xsPriority", "criticalBuckling", "blockRepresentation"]), max_size=2)
    return st.tuples(opt, nones).map(lambda t: dict(list({k: None for k in t[1]}.items()) + list(t[0].items())))


def _xs_entry(combos):
    """One option dict built on a presence combination of geometry / xsFileLocation / fluxFileLocation."""
    return st.tuples(st.sampled_from(combos), st.sampled_from(XS_GEOMS), st.lists(_text(), max_size=3), _text(),
                     st.one_of(st.just({}), _xs_options(), _xs_options())).map(lambda t: dict(t[4], **_xs_fill(t[0], t[1], t[2], t[3])))


def _xs_one_valid():
    return _xs_entry(XS_COMBOS_VALID)


def _xs_one_table_invalid():
    """Every field well-typed, the combination not admitted (an entry that would be dropped gets one harmless option)."""
    return _xs_entry(XS_COMBOS_INVALID).map(lambda d: d if _xs_table(d) == "invalid" else dict(d, driverID="AA"))


def _xs_break(d):
    """Strategy turning one well-formed option dict into a near miss of the field types / options."""
    return st.sampled_from([
        dict(d, geometry="3D"), dict(d, unknownOption=1), dict(d, criticalBuckling="yes"), dict(d, validBlockTypes="fuel"),
        dict(d, numInternalRings="abc"), dict(d, blockRepresentation="Mean"), dict(d, driverID=5), dict(d, mergeIntoClad=[1]),
        dict(d, geometry=0), dict(d, xsFileLocation="ISOAA"), dict(d, fluxFileLocation=["f"]), "0D", [d], 5,
    ])


def _xs_whole(d):
    """Expectation for a whole crossSectionControl value made of table entries."""
    verdicts = [_xs_table(o) if isinstance(o, dict) else "dropped" for o in d.values()]
    return (d, "invalid" if "invalid" in verdicts else "valid")


def _xs_values(valid_only=False):
    ids = st.sampled_from(XS_IDS)
    good = st.dictionaries(ids, st.one_of(_xs_one_valid(), _xs_one_valid(), st.just({}), st.none()), max_size=4).map(_xs_whole)
    badkey = st.tuples(st.dictionaries(ids, _xs_one_valid(), max_size=2), st.sampled_from(["AAA", "", "abc"]), _xs_one_valid()).map(
        lambda t: (dict(t[0], **{t[1]: t[2]}), "invalid"))
    badopt = st.tuples(st.dictionaries(ids, _xs_one_valid(), max_size=2), ids, _xs_one_valid().flatmap(_xs_break)).map(
        lambda t: (dict(t[0], **{t[1]: t[2]}), "invalid"))
    badcombo = st.tuples(st.dictionaries(ids, _xs_one_valid(), max_size=2), ids, _xs_one_table_invalid()).map(
        lambda t: _xs_whole(dict(t[0], **{t[1]: t[2]})))
    wrong = st.sampled_from([(None, "invalid"), (5, "invalid"), ([], "invalid"), ("AA", "invalid"), ([["AA", {"geometry": "0D"}]], "invalid")])
    if valid_only:
        return good
    return st.one_of(good, good, good, good, badkey, badopt, badcombo, badcombo, wrong)


def _cycle_valid():
    nums = st.one_of(st.integers(0, 400), st.floats(0.0, 400.0, allow_nan=False))
    cum = st.lists(st.one_of(st.integers(1, 60), st.floats(0.001, 60.0, allow_nan=False)), min_size=1, max_size=5).map(
        lambda steps: [sum(steps[: i + 1]) if any(isinstance(s, float) for s in steps[: i + 1]) else int(sum(steps[: i + 1])) for i in range(len(steps))])
    strs = st.lists(st.one_of(nums, st.sampled_from(["3R", "1.5", "10", "2R"])), max_size=5)
    base = st.one_of(
        st.fixed_dictionaries({"cumulative days": cum}),
        st.fixed_dictionaries({"step days": strs}),
        st.fixed_dictionaries({"cycle length": nums}, optional={"burn steps": st.integers(0, 20)}),
        st.fixed_dictionaries({"burn steps": st.one_of(st.integers(0, 20), st.sampled_from(["4", 2.0]))}),
    )
    opt = st.fixed_dictionaries({}, optional={
        "name": _text(), "power fractions": strs,
        "availability factor": st.one_of(st.floats(0.0, 1.0, allow_nan=False), st.sampled_from([0, 1, "0.5", 1.0, 0.0])),
    })
    return st.tuples(base, opt).map(lambda t: dict(list(t[1].items()) + list(t[0].items())))


def _cycle_break(d):
    return st.sampled_from([
        dict(d, **{"cumulative days": [1, 2], "step days": [1]}), {k: v for k, v in d.items() if k in ("name", "power fractions")},
        dict({k: v for k, v in d.items() if k in ("name",)}, **{"cumulative days": [3, 2]}),
        dict({k: v for k, v in d.items() if k in ("name",)}, **{"cumulative days": [1, 1]}),
        dict({k: v for k, v in d.items() if k in ("name",)}, **{"cumulative days": ["1", "2"]}),
        dict(d, foo=1), dict(d, name=5), dict(d, **{"availability factor": 1.5}), dict(d, **{"availability factor": "abc"}),
        dict({k: v for k, v in d.items() if k in ("name",)}, **{"burn steps": -1}),
        dict({k: v for k, v in d.items() if k in ("name",)}, **{"cycle length": -0.5}),
        dict(d, **{"power fractions": "1.0"}), [d], "cycle", None, 5,
    ])


def _cycles_values(valid_only=False):
    good = st.lists(_cycle_valid(), max_size=4).map(lambda l: (l, "valid"))
    bad = st.tuples(st.lists(_cycle_valid(), max_size=2), _cycle_valid().flatmap(_cycle_break), st.lists(_cycle_valid(), max_size=1)).map(
        lambda t: (t[0] + [t[1]] + t[2], "invalid"))
    wrong = st.sampled_from([(None, "invalid"), (5, "invalid"), ({"cumulative days": [1]}, "invalid"), ("abc", "invalid")])
    if valid_only:
        return good
    return st.one_of(good, good, good, bad, wrong)


def _tight_values(valid_only=False):
    keys = st.one_of(st.sampled_from(["globalFlux", "thermalHydraulics", "fuelPerformance", "dif3d"]), _key())
    inner = st.fixed_dictionaries({"parameter": _text(), "convergence": _num_ok_float()})
    good = st.dictionaries(keys, st.one_of(inner, inner, st.just({}), st.none()), max_size=3).map(lambda d: (d, "valid"))

    def brk(d):
        return st.sampled_from([{"parameter": d["parameter"]}, {"convergence": d["convergence"]}, dict(d, extra=1), dict(d, convergence="abc"),
                                dict(d, parameter=5), dict(d, convergence=None), [d], "keff", 5, dict(d, parameter=None)])

    bad = st.tuples(st.dictionaries(keys, inner, max_size=2), keys, inner.flatmap(brk)).map(lambda t: (dict(t[0], **{t[1]: t[2]}), "invalid"))
    wrong = st.sampled_from([(None, "invalid"), (5, "invalid"), ([], "invalid"), ("globalFlux", "invalid")])
    if valid_only:
        return good
    return st.one_of(good, good, good, bad, wrong)


_NUMERIC_PROBES = [0.5, 0.25, 0.999, 1.5, -0.5, 1e-9, "2", "0.5", " 3", "1e3", "-1", "0", 0, 1, 2, -1, True, False, None, 1.0, 2.0, 0.0,
                   [0.5], [0, 1], ["0.25"], [1.5], [-1], []]


def _falsy_for(default):
    return [False, 0, 0.0, "", [], {}, None]


def value_strategy(name, info, valid_only=False):
    """Strategy of {'name','v','e'} for one setting (``valid_only``: no deliberate near misses)."""
    spec, default = info["spec"], info["default"]
    t = spec["t"]
    if t in ("xs", "tight", "cycles"):
        pairs = {"xs": _xs_values, "tight": _tight_values, "cycles": _cycles_values}[t](valid_only)
    else:
        mspec = spec
        if t == "bydefault":
            names = {bool: "bool", int: "int", float: "float", str: "str", list: "anylist", dict: "anydict"}
            mspec = {"t": names.get(type(default), "unknown"), "coerce": True}
        elif t in ("modverb", "versions"):
            mspec = {"t": "anydict"}
        elif t == "userplugins":
            mspec = {"t": "any", "alts": [{"t": "list", "item": {"t": "str", "coerce": True}}, {"t": "none"}]}
        elif t == "flags":
            mspec = {"t": "unknown"}
        cands = _cands(spec, default)
        if name in NUMERIC_TABLE:
            entry = NUMERIC_TABLE[name]
            cands = st.one_of(_cands(_table_spec(entry), default), cands, st.sampled_from(_NUMERIC_PROBES))
        if not spec.get("restricted") and t not in ("modverb",):
            cands = st.one_of(cands, cands, cands, st.sampled_from(_falsy_for(default)))
        if name in NUMERIC_TABLE:
            pairs = cands.map(lambda v, en=NUMERIC_TABLE[name]: (v, _numeric_model(en, dec(v))[0]))
        else:
            pairs = cands.map(lambda v, m=mspec: (v, _model(m, dec(v))))
        if valid_only:
            pairs = pairs.filter(lambda p: p[1] != "invalid")
    skip = None if info["defaultOk"] or not _excluded(SIG_DEFAULT) else SIG_DEFAULT
    pairs = st.one_of(pairs, pairs, pairs, pairs, pairs, pairs, pairs, st.just(({"$d": 1}, "default")))

    def build(p, n=name):
        ch = {"name": n, "v": p[0], "e": p[1]}
        if p[1] == "default" and skip:
            ch["skip"] = skip  # known defect: this draw is not applied, only counted
        return ch

    return pairs.map(build)


_STRATS = {}


def any_change(cat, names=None, valid_only=False):
    """One change of a uniformly chosen setting (per-setting strategies are built once and cached)."""
    names = sorted(cat) if names is None else list(names)
    for n in names:
        if (n, valid_only) not in _STRATS:
            _STRATS[n, valid_only] = value_strategy(n, cat[n], valid_only)
    return st.sampled_from(names).flatmap(lambda n: _STRATS[n, valid_only])


def container_names(cat):
    return [n for n in sorted(cat) if cat[n]["container"]]


def nested_names(cat):
    return [n for n in sorted(cat) if cat[n]["spec"]["t"] in ("xs", "tight", "cycles")]


# --------------------------------------------------------------------------------------------------
# shared oracle for one assignment


def _same_number_type(a, b):
    """int settings hold ints, float settings floats (also inside lists)."""
    if isinstance(a, list) and isinstance(b, list):
        return len(a) == len(b) and all(_same_number_type(x, y) for x, y in zip(a, b))
    if a is None or b is None:
        return a is None and b is None
    return isinstance(a, float) == isinstance(b, float)


def _assign_checked(out, cs, ref, ch, part):
    """Apply one generated change to ``cs`` with the full assignment oracle.  Returns True when it was applied."""
    cat = catalogue()
    name = ch["name"]
    if ch.get("skip"):
        out.label("excluded:" + ch["skip"])
        return False
    info = cat[name]
    value = dec(ch["v"], info["default"])
    ok, exp = _try_schema(ref[name], value)
    e = ch.get("e", "any")
    out.label("%s:%s" % ("admitted" if ok else "refused", e))
    if e == "default":
        out.check(ok, SIG_DEFAULT, lambda: "setting %s: its default %r is rejected by its own schema (%s)" % (name, info["default"], exp))
    elif e == "valid":
        out.check(ok, "%s/wellformed-value-rejected-by-schema" % part,
                  lambda: "setting %s: value %r is well-formed for the documented schema but schema raised %r" % (name, value, exp))
    elif e == "invalid":
        out.check(not ok, "%s/nearmiss-admitted-by-schema" % part,
                  lambda: "setting %s: near miss %r violates the documented type/options/range but schema returned %r" % (name, value, exp))
    before = plain(_val(cs, name))
    raised = None
    try:
        cs[name] = copy.deepcopy(value)
    except Exception as exc:  # noqa: BLE001  (compared with the schema verdict below)
        raised = exc
    after = plain(_val(cs, name))
    if ok:
        if out.check(raised is None, "%s/valid-value-refused-on-assignment" % part,
                     lambda: "setting %s: schema admits %r but assignment raised %r" % (name, value, raised)):
            out.check(psame(after, plain(exp)), "%s/stored-value-differs-from-schema-result" % part,
                      lambda: "setting %s: assigned %r, stored %r, schema gives %r" % (name, value, after, plain(exp)))
            if name in NUMERIC_TABLE and e != "default":
                verdict, held = _numeric_model(NUMERIC_TABLE[name], value)
                if verdict == "valid":
                    out.check(psame(after, held) and _same_number_type(after, held), "%s/held-value-differs-from-documented-coercion" % part,
                              lambda: "setting %s: assigned %r, held %r, documented coercion gives %r" % (name, value, after, held))
            kind = info["spec"]["t"]
            if e == "valid" and kind in ("xs", "tight", "cycles"):
                want = _nested_expected(kind, _detuple(value))
                out.check(_nested_matches(kind, after, want), "%s/nested-value-not-stored-as-given" % part,
                          lambda: "setting %s: assigned %r, stored %r, documented normalisation gives %r" % (name, value, after, want))
        return raised is None
    if out.check(raised is not None, "%s/invalid-value-accepted" % part,
                 lambda: "setting %s: schema rejects %r (%r) but assignment succeeded, stored %r" % (name, value, exp, after)):
        out.check(psame(after, before), "%s/invalid-value-changed-setting" % part,
                  lambda: "setting %s: rejected value %r left %r in place of the previous %r" % (name, value, after, before))
    return False


# what a well-formed nested value must be stored as (independent of the armi validators; documented normalisations only:
# empty / None entries are dropped, numbers are coerced to the documented type)
_XS_INT = ("numInternalRings", "numExternalRings", "xsMaxAtomNumber")
_XS_FLOAT = ("meshSubdivisionsPerCm", "xsPriority", "minDriverDensity", "traceIsotopeThreshold")
_XS_ATTR_DEFAULTS = {"averageByComponent": False, "minDriverDensity": 0.0, "ductHeterogeneous": False, "traceIsotopeThreshold": 0.0,
                     "xsTempIsotope": "U238"}


def _nested_expected(kind, value):
    if kind == "tight":
        return {k: {"parameter": o["parameter"], "convergence": float(o["convergence"])} for k, o in value.items() if o}
    if kind == "cycles":
        conv = {"step days": lambda l: [str(x) for x in l], "power fractions": lambda l: [str(x) for x in l], "availability factor": float,
                "cycle length": float, "burn steps": int}
        return [{k: conv.get(k, lambda x: x)(x) for k, x in c.items()} for c in value]
    res = {}
    for xsid, opts in value.items():
        given = {k: x for k, x in (opts or {}).items() if k != "xsID" and x is not None}
        if not given:
            continue
        attrs = {"xsID": xsid}
        for k, x in given.items():
            attrs[k] = int(x) if k in _XS_INT else float(x) if k in _XS_FLOAT else x
        res[xsid] = attrs
    return res


def _nested_matches(kind, stored, want):
    """stored: plain() snapshot of the setting value."""
    if kind != "xs":
        return psame(stored, want)
    if not isinstance(stored, dict) or set(stored) != set(want):
        return False
    for xsid, attrs in want.items():
        have = _unxs(stored[xsid])
        for k, x in have.items():
            exp = attrs[k] if k in attrs else _XS_ATTR_DEFAULTS.get(k)
            if not psame(x, exp):
                return False
        if set(attrs) - set(have):
            return False
    return True


def _pdefaults():
    cat = catalogue()
    return {n: cat[n]["pdefault"] for n in cat}


# --------------------------------------------------------------------------------------------------
# part: defaults (enumeration over every setting)


def defaults_enum(tier):
    cat = catalogue()
    cases = []
    for n in sorted(cat):
        c = {"name": n}
        if not cat[n]["defaultOk"] and _excluded(SIG_DEFAULT):
            c["skip"] = SIG_DEFAULT
        cases.append(c)
    return cases


def defaults_execute(case):
    out = Out()
    cat = catalogue()
    name = case["name"]
    out.label("spec:" + _kind(cat[name]["spec"]))
    if case.get("skip"):
        out.label("excluded:" + case["skip"])
        return out
    out.nontrivial = True
    cs = _fresh()
    ref = dict(_fresh().items())
    s = ref[name]
    if name in PLUGIN_DEFAULTS or name in PLUGIN_SETTINGS:
        out.label("plugin-default" if name in PLUGIN_DEFAULTS else "plugin-setting")
        want = cat[name]["pdefault"]  # this module's own constant, not what armi reports
        live0 = dict(cs.items())[name]
        out.check(psame(plain(s.default), want) and psame(plain(live0.value), want) and live0.isDefault() and not live0.offDefault,
                  "defaults/plugin-default-not-the-default",
                  lambda: "setting %s: the plugin contributes the default %r; a new Settings() reports default %r, value %r, offDefault=%r"
                  % (name, want, s.default, live0.value, live0.offDefault))
    ok, exp = _try_schema(s, s.default)
    if out.check(ok, SIG_DEFAULT, lambda: "setting %s: its default %r is rejected by its own schema (%s)" % (name, s.default, exp)):
        out.check(same(exp, s.default), "defaults/default-not-fixed-point-of-schema",
                  lambda: "setting %s: schema(default) = %r differs from default %r" % (name, exp, s.default))
        cs[name] = copy.deepcopy(s.default)
        live = dict(cs.items())[name]
        out.check(live.isDefault() and not live.offDefault, "defaults/reassigned-default-not-default", "setting %s" % name)
    out.check(psame(plain(_val(cs, name)), cat[name]["pdefault"]), "defaults/fresh-settings-not-at-default", "setting %s" % name)
    return out


# --------------------------------------------------------------------------------------------------
# part: assign (histories of assignments on one Settings object)


def assign_strategy(tier):
    cat = catalogue()
    unknown = st.fixed_dictionaries({"unknown": st.sampled_from(["idontexist", "numProcessors", "nTasks ", "ntasks", ""]), "v": st.integers(0, 5)})
    op = st.integers(0, 19).flatmap(lambda k: unknown if k == 0 else any_change(cat, nested_names(cat)) if k <= 3
                                    else any_change(cat, container_names(cat)) if k <= 6 else any_change(cat))
    ops = st.lists(op, min_size=1, max_size=10)
    return st.fixed_dictionaries({"ops": ops})


def assign_execute(case):
    from armi.utils.customExceptions import NonexistentSetting

    out = Out()
    cat = catalogue()
    cs = _fresh()
    ref = dict(_fresh().items())
    model = snapshot(cs)
    n_valid = n_invalid = 0
    for op in case["ops"]:
        if "unknown" in op:
            out.label("op:unknown-name")
            try:
                cs[op["unknown"]] = op["v"]
                out.fail("assign/unknown-name-accepted", "assignment to undefined setting %r succeeded" % op["unknown"])
            except NonexistentSetting:
                out.rejected = True
        else:
            name = op["name"]
            out.label("spec:" + _kind(cat[name]["spec"]))
            applied = _assign_checked(out, cs, ref, op, "assign")
            if applied and not psame(plain(_val(cs, name)), cat[name]["pdefault"]):
                n_valid += 1
            elif not applied and not op.get("skip"):
                n_invalid += 1
            model[name] = plain(_val(cs, name))  # the assigned setting itself is judged by _assign_checked
        # every step: nothing but the assigned setting moved
        bad = _diff(model, snapshot(cs))
        if not out.check(not bad, "assign/other-settings-changed", lambda: "after %r these settings differ from the model: %s" % (op, bad[:5])):
            break
    out.nontrivial = n_valid >= 1 and n_invalid >= 1
    return out



# --------------------------------------------------------------------------------------------------
# YAML helpers that do not go through armi


def _yaml_parse(text):
    """Independent parse (ruamel pure-python YAML 1.2 safe loader; no armi code)."""
    from ruamel.yaml import YAML

    return YAML(typ="safe", pure=True).load(io.StringIO(text))


def _yaml_text(data, flow=False):
    """Independent production of YAML text."""
    from ruamel.yaml import YAML

    y = YAML()
    y.default_flow_style = bool(flow)
    buf = io.StringIO()
    y.dump(_detuple(data), buf)
    return buf.getvalue()


def _faithful_text(mapping, flow):
    """YAML text for {'settings': mapping} that the independent parser reads back to exactly ``mapping`` (the flow
    emitter of ruamel has gaps, e.g. a plain '? x'); returns None when neither style is faithful."""
    want = _detuple(mapping)
    for style in ([True, False] if flow else [False]):
        try:
            text = _yaml_text({"settings": mapping}, flow=style)
            back = _yaml_parse(text)
            if isinstance(back, dict) and list(back) == ["settings"] and (psame(back["settings"], want) if want else not back["settings"]) \
                    and list(back["settings"] or {}) == list(want):
                return text
        except Exception:  # noqa: BLE001  (text producer problem, not armi)
            continue
    return None


def _detuple(v):
    if isinstance(v, (list, tuple)):
        return [_detuple(x) for x in v]
    if isinstance(v, dict):
        return {k: _detuple(x) for k, x in v.items()}
    return v


def _serial(p):
    """What the writer is documented to put into the file for a plain() snapshot value."""
    if isinstance(p, dict) and any(isinstance(x, dict) and "$xs" in x for x in p.values()):
        return {k: {a: b for a, b in x["$xs"].items() if a != "xsID" and b is not None} for k, x in p.items()}
    return p


def _live_version():
    from armi.meta import __version__

    return __version__


def _scratch_file(name):
    """Absolute path in the private scratch directory of this process (never relative to the cwd: a worker process that
    runs a second shard has had its first scratch directory removed)."""
    from vp import env

    return os.path.join(env.scratch_dir(), name)


def _rm(*paths):
    for p in paths:
        try:
            os.remove(p)
        except OSError:
            pass


def _with_armi_version(p):
    return dict(p, armi=_live_version()) if isinstance(p, dict) else p


def _compare_settings(out, expected, got, sig, what, versions_written=True):
    """Compare two snapshots; ``versions`` modulo the armi entry the writer adds."""
    bad = _diff(expected, got, skip=("versions",))
    ok1 = out.check(not bad, sig, lambda: "%s: %s" % (what, "; ".join("%s expected %r got %r" % (n, expected.get(n), got.get(n)) for n in bad[:3])))
    ev = _with_armi_version(expected["versions"]) if versions_written else expected["versions"]
    ok2 = out.check(psame(ev, got["versions"]), sig + "-versions", lambda: "%s: versions expected %r got %r" % (what, ev, got["versions"]))
    return ok1 and ok2


# --------------------------------------------------------------------------------------------------
# part: documents (armi writes, armi reads, ruamel cross-checks the text)


def _fix_doc(case):
    """Generator-side avoidance of the shapes of confirmed defects (see EXCLUDE_KNOWN)."""
    cat = catalogue()
    case = dict(case)
    if _excluded(SIG_DEFAULT):
        bad = [n for n in sorted(cat) if not cat[n]["defaultOk"]]
        case["userSet"] = [n for n in case["userSet"] if n not in bad]
        if case["style"] == "full":
            forced = [{"name": n, "v": 1.5, "e": "any", "forced": SIG_DEFAULT} for n in bad]
            case["changes"] = [c for c in case["changes"] if c["name"] not in bad] + forced
    for ch in case["changes"]:
        # any userPlugins entry counts: which one ends up applied depends on the schema verdicts
        if ch["name"] == "userPlugins" and case["via"] == "file" and not ch.get("skip"):
            v = ch["v"]
            if v is None and _excluded(SIG_UPLUG):
                case["via"], case["avoided"] = "string", SIG_UPLUG
            elif not isinstance(v, dict) and v:
                case["via"] = "string"  # reading a file would import the named plugins (side effect, not a settings property)
    return case


def documents_strategy(tier):
    cat = catalogue()
    names = sorted(cat)
    changes = st.tuples(st.lists(any_change(cat), max_size=10), st.lists(any_change(cat, container_names(cat), True), max_size=3),
                        st.lists(any_change(cat, nested_names(cat), True), max_size=3),
                        st.lists(any_change(cat, nested_names(cat)), max_size=1)).map(lambda t: t[0] + t[1] + t[2] + t[3])
    return st.fixed_dictionaries({
        "changes": changes,
        "style": st.integers(0, 8).map(lambda k: STYLES[k % 3]),
        "via": st.integers(0, 7).map(lambda k: ["string", "file"][k % 2]),
        "userSet": st.lists(st.one_of(st.sampled_from(names), st.sampled_from(["notASetting", "numProcessors"])), max_size=6, unique=True),
    }).map(_fix_doc)


def _read_failure_signature(cat, written, expected, via, exc):
    """Root-cause signature for an armi-written text that armi cannot read."""
    for n in sorted(written):
        if n in cat and not cat[n]["defaultOk"] and psame(expected[n], cat[n]["pdefault"]):
            return SIG_DEFAULT
    if via == "file" and expected.get("userPlugins") is None and "NoneType" in str(exc):
        return SIG_UPLUG
    return "documents/written-text-unreadable"


def documents_execute(case):
    from armi.settings import caseSettings

    out = Out()
    cat = catalogue()
    pdef = _pdefaults()
    style, via = case["style"], case["via"]
    out.label("style:" + style, "via:" + via)
    if case.get("avoided"):
        out.label("excluded:" + case["avoided"])
    cs = _fresh()
    ref = dict(_fresh().items())
    for ch in case["changes"]:
        if ch.get("forced"):
            out.label("excluded:" + ch["forced"])
        _assign_checked(out, cs, ref, ch, "documents")
    expected = snapshot(cs)
    off = sorted(n for n in expected if not psame(expected[n], pdef[n]))
    out.nontrivial = len(off) >= 3 and any(cat[n]["container"] for n in off)
    for n in off:
        out.label("off:" + _kind(cat[n]["spec"]))
    falsy = [n for n in off if expected[n] in (False, 0, "", None) or expected[n] == [] or expected[n] == {}]
    if falsy:
        out.label("off-default-falsy")
    if any(ch.get("e") == "default" and not ch.get("skip") for ch in case["changes"]):
        out.label("reassigned-default")
    user = list(case["userSet"]) if style == "medium" else []
    path, userfile = _scratch_file("c17_doc.yaml"), _scratch_file("c17_user.yaml")
    try:
        # ---- write
        if via == "string":
            buf = io.StringIO()
            if style == "medium":
                cs.writeToYamlStream(buf, style, user)
            else:
                cs.writeToYamlStream(buf, style)
            text = buf.getvalue()
        else:
            if style == "medium":
                with open(userfile, "w") as f:
                    f.write(_yaml_text({"settings": {n: None for n in user}}))
                cs.writeToYamlFile(path, style=style, fromFile=userfile)
            else:
                cs.writeToYamlFile(path, style=style)
            with open(path) as f:
                text = f.read()
        after_write = snapshot(cs)
        out.check(not _diff(expected, after_write, skip=("versions",)), "documents/writing-changed-the-settings",
                  lambda: "writing (%s) changed %s" % (style, _diff(expected, after_write, skip=("versions",))[:4]))
        # ---- independent look at the text
        tree = _yaml_parse(text)
        if not out.check(isinstance(tree, dict) and list(tree) == ["settings"] and isinstance(tree["settings"], dict),
                         "documents/text-not-a-settings-mapping", lambda: "top level of the written text: %r" % (tree if not isinstance(tree, dict) else list(tree))):
            return out
        written = tree["settings"]
        keys = set(written)
        if style == "short":
            want = set(off) | {"versions"}
        elif style == "medium":
            want = set(off) | {n for n in user if n in cat} | {"versions"}
        else:
            want = set(cat)
        out.check(keys == want, "documents/%s-style-keys" % style,
                  lambda: "%s style wrote keys %s too many, %s missing" % (style, sorted(keys - want)[:5], sorted(want - keys)[:5]))
        for n in sorted(keys & set(cat)):
            exp_ser = _serial(expected[n])
            if n == "versions":
                exp_ser = _with_armi_version(exp_ser)
            out.check(psame(written[n], exp_ser), "documents/written-value-differs",
                      lambda: "%s: file holds %r, setting value %r" % (n, written[n], exp_ser))
        # ---- read back
        cs2 = _fresh()
        try:
            if via == "string":
                cs2.loadFromString(text)
            else:
                cs2 = caseSettings.Settings(path)
        except Exception as exc:  # noqa: BLE001  (a text written by armi itself must be readable)
            out.fail(_read_failure_signature(cat, keys, expected, via, exc), "%s-style text written by armi cannot be read (%s): %r; text:\n%s"
                     % (style, via, exc, text[:300]))
            return out
        got = snapshot(cs2)
        if not _compare_settings(out, expected, got, "documents/roundtrip-value-differs", "%s via %s" % (style, via)):
            return out
        for n in sorted(set(cat) - set(off)):
            if n != "versions":
                out.check(dict(cs2.items())[n].isDefault(), "documents/default-setting-left-default", "%s is not at default after reading" % n)
        # ---- writing what was read gives the same text
        buf = io.StringIO()
        if style == "medium":
            cs2.writeToYamlStream(buf, style, user)
        else:
            cs2.writeToYamlStream(buf, style)
        out.check(psame_tol(_yaml_parse(buf.getvalue()), tree), "documents/rewrite-differs",
                  lambda: "text written from the read-back settings holds other data:\n%s\n---\n%s" % (text[:250], buf.getvalue()[:250]))
    finally:
        _rm(path, userfile)
        _quiet()
    return out




# --------------------------------------------------------------------------------------------------
# part: handwritten (texts produced without armi: valid values, invalid values, unknown keys)

UNKNOWN_KEYS = ["notASetting", "nTasks ", "ntasks", "Power", "settings", "", "null", "1", "a: b", "power.x"]


def _fix_hand(case):
    case = dict(case)
    for ent in list(case["pre"]) + list(case["entries"]):
        if ent.get("name") == "userPlugins" and case["via"] == "file" and not ent.get("skip"):
            v = ent["v"]
            if v is None and _excluded(SIG_UPLUG):
                case["via"], case["avoided"] = "string", SIG_UPLUG
            elif not isinstance(v, dict) and v:
                case["via"] = "string"
    return case


def handwritten_strategy(tier):
    cat = catalogue()
    unknown = st.fixed_dictionaries({"unknown": st.sampled_from(UNKNOWN_KEYS), "v": st.one_of(st.integers(0, 9), _text(), st.none(), st.lists(st.integers(0, 3), max_size=2))})
    renamed = [n for n in sorted(cat) if cat[n]["oldNames"]]

    def under_old_name(ch):
        olds = [o for o, _d in cat[ch["name"]]["oldNames"]]
        if _excluded(SIG_RENAME):
            return dict(ch, skip=SIG_RENAME)
        return dict(ch, old=olds[len(repr(ch["v"])) % len(olds)])

    ent = st.integers(0, 11).flatmap(lambda k: unknown if k == 0 else any_change(cat, nested_names(cat)) if k <= 2
                                     else any_change(cat, container_names(cat)) if k <= 4
                                     else any_change(cat, renamed).map(under_old_name) if k == 5 else any_change(cat))
    return st.fixed_dictionaries({
        "pre": st.lists(any_change(cat), max_size=3),
        "entries": st.lists(ent, max_size=8),
        "flow": st.booleans(),
        "via": st.integers(0, 7).map(lambda k: ["string", "file"][k % 2]),
        "withVersions": st.booleans(),
        "answer": st.sampled_from([None, None, "YES", "NO", "N"]),  # the user's reply to the invalid-settings prompt (None: batch mode)
    }).map(_fix_hand)


def handwritten_execute(case):
    import sys

    from armi import context
    from armi.utils.customExceptions import InvalidSettingsFileError, InvalidSettingsStopProcess

    out = Out()
    cat = catalogue()
    via = case["via"]
    answer = case.get("answer")
    out.label("via:" + via, "flow" if case["flow"] else "block")
    if case.get("avoided"):
        out.label("excluded:" + case["avoided"])
    ref = dict(_fresh().items())
    cs = _fresh()
    for ch in case["pre"]:
        _assign_checked(out, cs, ref, ch, "handwritten")
    before = snapshot(cs)
    mapping = {}
    construction = {}
    for ent in case["entries"]:
        if ent.get("skip"):
            out.label("excluded:" + ent["skip"])
            continue
        key = ent["unknown"] if "unknown" in ent else ent.get("old", ent["name"])
        if key in mapping:
            continue
        mapping[key] = dec(ent["v"], cat[ent["name"]]["default"] if "name" in ent else None)
        if "name" in ent and (cat[ent["name"]]["spec"]["t"] in ("xs", "tight", "cycles") or ent["name"] in ENFORCED_OPTIONS) \
                and ent.get("e") in ("valid", "invalid"):
            construction[key] = ent["e"]  # nested values are plain JSON: YAML does not change them
        if "old" in ent:
            out.label("entry:old-name")
    if case["withVersions"] and "versions" not in mapping:
        mapping["versions"] = {"armi": _live_version()}
    text = _faithful_text(mapping, case["flow"])
    if text is None:
        out.label("text-producer-unfaithful")
        return out
    seen = _yaml_parse(text)["settings"] or {}  # what any YAML reader sees, in file order
    expect = dict(before)
    first_bad = None
    unknown = set()
    today = datetime.date.today().isoformat()
    oldmap = {o: n for n in cat for o, d in cat[n]["oldNames"] if d is None or d > today}
    for filekey, pv in seen.items():
        key = filekey
        if key not in cat and key in oldmap:
            key = oldmap[key]  # documented: accepted under the old name, lands on the new one
        if key not in cat:
            unknown.add(key)
            continue
        ok, exp = _try_schema(ref[key], pv)
        e = construction.get(filekey)
        if e == "invalid":
            out.check(not ok, "handwritten/nearmiss-admitted-by-schema",
                      lambda: "setting %s: file value %r violates the documented schema rules but schema returned %r" % (key, pv, exp))
            if ok:
                # judge the read by the documented rule, not by the (too permissive) schema
                ok, exp = False, "documented rule"
        elif e == "valid":
            out.check(ok, "handwritten/wellformed-value-rejected-by-schema",
                      lambda: "setting %s: file value %r is well-formed for the documented schema but schema raised %r" % (key, pv, exp))
        if not ok:
            first_bad = (key, pv, exp)
            break
        expect[key] = plain(exp)
    out.label("file:invalid-value" if first_bad else "file:unknown-key" if unknown else "file:all-valid")
    out.nontrivial = len([k for k in seen if k in cat]) >= 2 and (first_bad is not None or bool(unknown) or any(cat[k]["container"] for k in seen if k in cat))
    path = _scratch_file("c17_hand.yaml")
    try:
        raised = reader = None
        mode0, stdin0 = context.CURRENT_MODE, sys.stdin
        if answer is not None:
            # a user at a terminal who answers the "Invalid settings will be ignored. Continue?" prompt
            context.Mode.setMode(context.Mode.INTERACTIVE)
            sys.stdin = io.StringIO((answer + "\n") * 3)
        try:
            if via == "string":
                reader = cs.loadFromString(text)
            else:
                with open(path, "w") as f:
                    f.write(text)
                reader = cs.loadFromInputFile(path)
        except Exception as exc:  # noqa: BLE001  (compared with the schema verdicts below)
            raised = exc
        finally:
            context.Mode.setMode(mode0)
            sys.stdin = stdin0
        got = snapshot(cs)
        declined = first_bad is None and bool(unknown) and answer in ("NO", "N")
        if declined:
            out.label("file:unknown-key-declined")
            out.rejected = raised is not None
            want = InvalidSettingsStopProcess if via == "string" else InvalidSettingsFileError
            out.check(isinstance(raised, want), "handwritten/declined-unknown-keys-not-refused",
                      lambda: "unknown keys %r and the user answers %r: expected %s, got %r" % (sorted(unknown), answer, want.__name__, raised))
            return out
        if first_bad is not None:
            key, pv, why = first_bad
            out.rejected = raised is not None
            if out.check(raised is not None, "handwritten/invalid-value-read-without-error",
                         lambda: "file gives %s: %r which its schema rejects (%r) but reading succeeded; stored %r" % (key, pv, why, got[key])):
                if via == "file":
                    out.check(isinstance(raised, InvalidSettingsFileError), "handwritten/invalid-file-error-type",
                              lambda: "reading a file with an invalid value raised %r, documented: InvalidSettingsFileError" % (raised,))
            # "previous" = the value in place when the rejected entry is reached: an earlier entry of the same file may
            # already have set this setting (under its current or an old name); the reader applies entries in file order
            out.check(psame(got[key], expect[key]), "handwritten/rejected-value-replaced-previous",
                      lambda: "%s: rejected %r, value in place before that entry %r, now %r" % (key, pv, expect[key], got[key]))
        else:
            if raised is not None:
                sig = SIG_UPLUG if (via == "file" and expect.get("userPlugins") is None and "NoneType" in str(raised)) else "handwritten/valid-file-refused"
                out.fail(sig, "every value in the file is admitted by its schema but reading (%s) raised %r; text:\n%s" % (via, raised, text[:300]))
            else:
                bad = _diff(expect, got)
                out.check(not bad, "handwritten/value-read-differs",
                          lambda: "; ".join("%s expected %r got %r" % (n, expect[n], got[n]) for n in bad[:3]) + "\n" + text[:300])
                inv = set(reader.invalidSettings)
                out.check(inv == unknown, "handwritten/unknown-keys-not-reported",
                          lambda: "reader.invalidSettings = %r, unknown keys in the file: %r" % (sorted(inv), sorted(unknown)))
    finally:
        _rm(path)
        _quiet()
    return out


# --------------------------------------------------------------------------------------------------
# part: renames (every documented old name; synthetic settings for the expiry rules)

_REN_CANDIDATES = [7, 0.5, "abc d", True, False, 3, 2.5, "x", [1, 2], ["a"], {"a": "b"}, 0, 1, ""]
_REN_BAD = ["not a number", -5, None, [1], {"a": 1}]


def renames_enum(tier):
    cat = catalogue()
    ref = dict(_fresh().items())
    cases = []
    for new in sorted(cat):
        for old, expiry in cat[new]["oldNames"]:
            good = [v for v in _REN_CANDIDATES if _try_schema(ref[new], v)[0] and not psame(plain(_try_schema(ref[new], v)[1]), cat[new]["pdefault"])]
            bad = [v for v in _REN_BAD if not _try_schema(ref[new], v)[0]]
            base = {"old": old, "new": new, "expiry": expiry}
            cases.append(dict(base, mode="renamer"))
            if _excluded(SIG_RENAME):
                cases.append(dict(base, mode="skip", skip=SIG_RENAME))
                continue
            for via in ("string", "file"):
                for v in good[:2]:
                    cases.append(dict(base, mode="read", via=via, v=v, others=(via == "file")))
                for v in bad[:1]:
                    cases.append(dict(base, mode="read", via=via, v=v, others=False))
    for kind in ("active", "future", "expired", "collision", "current-wins"):
        c = {"mode": "synthetic", "kind": kind, "via": "string"}
        if kind in ("active", "future") and _excluded(SIG_RENAME):
            c = {"mode": "synthetic", "kind": kind, "via": "string", "ruleOnly": SIG_RENAME}
        cases.append(c)
    return cases


def _read(cs, text, via, path):
    if via == "string":
        return cs.loadFromString(text)
    with open(path, "w") as f:
        f.write(text)
    return cs.loadFromInputFile(path)


def renames_execute(case):
    from armi.settings import setting as settingmod
    from armi.settings import settingsIO
    from armi.utils.customExceptions import SettingException

    out = Out()
    cat = catalogue()
    mode = case["mode"]
    out.label("mode:" + mode)
    if mode == "skip":
        out.label("excluded:" + case["skip"])
        return out
    path = _scratch_file("c17_ren.yaml")
    try:
        if mode == "renamer":
            cs = _fresh()
            ren = settingsIO.SettingRenamer(dict(cs.items()))
            old, new = case["old"], case["new"]
            expired = case["expiry"] is not None and case["expiry"] <= datetime.date.today().isoformat()
            want = (old, False) if expired else (new, True)
            out.check(tuple(ren.renameSetting(old)) == want, "renames/renamer-rule", lambda: "renameSetting(%r) = %r, documented %r" % (old, ren.renameSetting(old), want))
            out.check(tuple(ren.renameSetting(new)) == (new, False), "renames/renamer-rule", "current name %r renamed" % new)
            out.check(tuple(ren.renameSetting("vpc17NoSuchName")) == ("vpc17NoSuchName", False), "renames/renamer-rule", "unknown name renamed")
            out.nontrivial = True
        elif mode == "read":
            old, new, via = case["old"], case["new"], case["via"]
            out.label("via:" + via)
            ref = dict(_fresh().items())
            mapping = {"nCycles": 3, "comment": "rename check"} if case.get("others") and new not in ("nCycles", "comment") else {}
            mapping[old] = case["v"]
            if case.get("others"):
                mapping["burnSteps" if new != "burnSteps" else "power"] = 2
            text = _yaml_text({"settings": mapping})
            pv = _yaml_parse(text)["settings"][old]
            ok, exp = _try_schema(ref[new], pv)
            cs = _fresh()
            before = snapshot(cs)
            raised = reader = None
            try:
                reader = _read(cs, text, via, path)
            except Exception as exc:  # noqa: BLE001
                raised = exc
            got = snapshot(cs)
            out.nontrivial = True
            expired = case["expiry"] is not None and case["expiry"] <= datetime.date.today().isoformat()
            if expired:
                out.label("old-name:expired")
                out.check(raised is None and psame(got[new], before[new]) and reader is not None and old in reader.invalidSettings,
                          "renames/expired-old-name-still-applied",
                          lambda: "file has %s: %r (old name of %s, expired %s): %s = %r, raised=%r, reported invalid: %r"
                          % (old, pv, new, case["expiry"], new, got[new], raised, sorted(reader.invalidSettings) if reader else None))
            elif ok:
                out.label("value:valid")
                landed = raised is None and psame(got[new], plain(exp)) and old not in reader.invalidSettings
                out.check(landed, SIG_RENAME,
                          lambda: "file has %s: %r (old name of %s); after reading %s = %r (expected %r), raised=%r, reported invalid: %r"
                          % (old, pv, new, new, got[new], plain(exp), raised, sorted(reader.invalidSettings) if reader else None))
                if raised is None:
                    other = [n for n in _diff(before, got) if n != new and n not in mapping]
                    out.check(not other, "renames/other-settings-changed", lambda: "also changed: %r" % other[:4])
            else:
                out.label("value:invalid")
                out.rejected = raised is not None
                ignored = raised is None and reader is not None and old in reader.invalidSettings
                out.check(raised is not None, SIG_RENAME if ignored else "renames/invalid-value-under-old-name-accepted",
                          lambda: "file has %s: %r (old name of %s, value rejected by its schema) but reading succeeded; %s = %r, reported invalid: %r"
                          % (old, pv, new, new, got[new], sorted(reader.invalidSettings) if reader else None))
                out.check(psame(got[new], before[new]), "renames/rejected-value-replaced-previous", "%s changed by a rejected value" % new)
        else:
            kind = case["kind"]
            out.label("synthetic:" + kind)
            out.nontrivial = True
            D = datetime.date.fromisoformat
            mk = lambda name, olds: settingmod.Setting(name, default=0, description="C17 synthetic setting", oldNames=olds)  # noqa: E731
            base = _fresh()
            if kind == "collision":
                sets = dict(base.items())
                sets["vpc17A"] = mk("vpc17A", [("vpc17Old", None)])
                sets["vpc17B"] = mk("vpc17B", [("vpc17Old", D(FAR_FUTURE))])
                try:
                    settingsIO.SettingRenamer(sets)
                    out.fail("renames/colliding-renames-accepted", "two settings claim the old name vpc17Old and no SettingException was raised")
                except SettingException:
                    out.rejected = True
                # an expired rename does not collide
                sets["vpc17B"] = mk("vpc17B", [("vpc17Old", D(LONG_AGO))])
                out.check(tuple(settingsIO.SettingRenamer(sets).renameSetting("vpc17Old")) == ("vpc17A", True), "renames/renamer-rule",
                          "active rename shadowed by an expired one")
                return out
            olds = {"active": [("vpc17Old", None)], "future": [("vpc17Old", D(FAR_FUTURE))], "expired": [("vpc17Old", D(LONG_AGO))],
                    "current-wins": [("nCycles", None)]}[kind]
            cs = base.modified(newSettings={"vpc17New": mk("vpc17New", olds)})
            key = "nCycles" if kind == "current-wins" else "vpc17Old"
            want = {"active": ("vpc17New", True), "future": ("vpc17New", True), "expired": ("vpc17Old", False), "current-wins": ("nCycles", False)}[kind]
            got_rule = tuple(settingsIO.SettingRenamer(dict(cs.items())).renameSetting(key))
            out.check(got_rule == want, "renames/renamer-rule", lambda: "%s old name: renameSetting(%r) = %r, documented %r" % (kind, key, got_rule, want))
            if case.get("ruleOnly"):
                out.label("excluded:" + case["ruleOnly"])
                return out
            text = _yaml_text({"settings": {key: 5}})
            before = snapshot(cs)
            reader = _read(cs, text, case["via"], path)
            got = snapshot(cs)
            if kind in ("active", "future"):
                out.check(psame(got["vpc17New"], 5) and "vpc17Old" not in reader.invalidSettings, SIG_RENAME,
                          lambda: "synthetic setting vpc17New with %s old name vpc17Old: file has vpc17Old: 5, vpc17New = %r, reported invalid %r"
                          % (kind, got["vpc17New"], sorted(reader.invalidSettings)))
            elif kind == "expired":
                out.check(psame(got["vpc17New"], 0) and "vpc17Old" in reader.invalidSettings, "renames/expired-old-name-still-applied",
                          lambda: "expired old name: vpc17New = %r, reported invalid %r" % (got["vpc17New"], sorted(reader.invalidSettings)))
            else:
                out.check(psame(got["nCycles"], 5) and psame(got["vpc17New"], 0) and not reader.invalidSettings, "renames/current-name-renamed",
                          lambda: "a current setting name that is also an old name: nCycles = %r vpc17New = %r" % (got["nCycles"], got["vpc17New"]))
            other = [n for n in _diff(before, got) if n not in ("vpc17New", "nCycles")]
            out.check(not other, "renames/other-settings-changed", lambda: "also changed: %r" % other[:4])
    finally:
        _rm(path)
        _quiet()
    return out




# --------------------------------------------------------------------------------------------------
# part: copies (modified / duplicate / deepcopy / pickle never touch the original)


def copies_strategy(tier):
    cat = catalogue()
    mixed = st.tuples(st.lists(any_change(cat), max_size=4), st.lists(any_change(cat, container_names(cat)), max_size=4),
                      st.lists(any_change(cat, nested_names(cat)), max_size=2)).map(lambda t: t[0] + t[1] + t[2])
    base = st.tuples(st.lists(any_change(cat, None, True), max_size=4), st.lists(any_change(cat, container_names(cat), True), max_size=4),
                     st.lists(any_change(cat, nested_names(cat), True), max_size=2)).map(lambda t: t[0] + t[1] + t[2])
    return st.fixed_dictionaries({
        "base": base,
        "mods": mixed,
        "how": st.integers(0, 9).map(lambda k: ["modified", "duplicate", "modified", "pickle", "deepcopy"][k % 5]),
        "title": st.one_of(st.none(), st.sampled_from(["caseB", "x y"])),
        "extraKey": st.booleans(),
    })


def _mutate_in_place(v, depth=0):
    """Change a mutable setting value in place; returns the number of places touched."""
    n = 0
    if isinstance(v, list):
        for x in v:
            n += _mutate_in_place(x, depth + 1)
        v.append("vpc17-mutated")
        n += 1
    elif isinstance(v, dict):
        for x in list(v.values()):
            n += _mutate_in_place(x, depth + 1)
        v["vpc17-mutated"] = 1 if depth else {"parameter": "p", "convergence": 1.0}
        n += 1
    elif hasattr(v, "xsID"):
        v.geometry = "vpc17-mutated"
        for x in vars(v).values():
            n += _mutate_in_place(x, depth + 1)
        n += 1
    return n


def copies_execute(case):
    import pickle

    out = Out()
    cat = catalogue()
    how = case["how"]
    out.label("how:" + how)
    ref = dict(_fresh().items())
    cs = _fresh()
    try:
        for ch in case["base"]:
            _assign_checked(out, cs, ref, ch, "copies")
        snap0 = snapshot(cs)
        title0 = cs.caseTitle
        new = {}
        invalid = None
        for ch in case["mods"]:
            if ch.get("skip"):
                out.label("excluded:" + ch["skip"])
                continue
            value = dec(ch["v"], cat[ch["name"]]["default"])
            ok, exp = _try_schema(ref[ch["name"]], value)
            if ch.get("e") == "invalid":
                out.check(not ok, "copies/nearmiss-admitted-by-schema",
                          lambda: "setting %s: near miss %r violates the documented type/options/range but schema returned %r" % (ch["name"], value, exp))
            elif ch.get("e") == "valid":
                out.check(ok, "copies/wellformed-value-rejected-by-schema",
                          lambda: "setting %s: value %r is well-formed for the documented schema but schema raised %r" % (ch["name"], value, exp))
            new[ch["name"]] = (value, ok, exp)  # a later entry for the same setting replaces the earlier one
        for n in new:
            if not new[n][1]:
                invalid = n
                break
        off0 = [n for n in snap0 if not psame(snap0[n], cat[n]["pdefault"])]
        out.nontrivial = any(cat[n]["container"] for n in off0) and bool(new)
        if how == "modified" and invalid is not None:
            out.label("modified:with-invalid-value")
            try:
                cs.modified(newSettings={n: copy.deepcopy(v) for n, (v, _ok, _e) in new.items()})
                out.fail("copies/modified-accepted-invalid-value", "modified() took %s = %r which the schema rejects" % (invalid, new[invalid][0]))
            except Exception:  # noqa: BLE001  (the schema's own error)
                out.rejected = True
            bad = _diff(snap0, snapshot(cs))
            out.check(not bad, "copies/original-changed-by-copy", lambda: "refused modified() changed the original: %r" % bad[:4])
            return out
        valid = {n: v for n, (v, ok, _e) in new.items() if ok}
        expect2 = dict(snap0)
        for n in valid:
            expect2[n] = plain(new[n][2])
        if how == "modified":
            newSettings = {n: copy.deepcopy(v) for n, v in valid.items()}
            if case["extraKey"]:
                newSettings["vpc17Extra"] = 5
            cs2 = cs.modified(caseTitle=case["title"], newSettings=newSettings)
            if case["extraKey"]:
                out.check("vpc17Extra" in cs2 and cs2["vpc17Extra"] == 5 and "vpc17Extra" not in cs, "copies/new-key-leaked-into-original",
                          "modified() with an undefined key must define it on the copy only")
                expect2["vpc17Extra"] = 5
            if case["title"]:
                out.check(cs2.caseTitle == case["title"] and cs.caseTitle == title0, "copies/case-title", "caseTitle of copy %r original %r" % (cs2.caseTitle, cs.caseTitle))
        else:
            if how == "duplicate":
                cs2 = cs.duplicate()
            elif how == "deepcopy":
                cs2 = copy.deepcopy(cs)
            else:
                cs2 = pickle.loads(pickle.dumps(cs))
            bad = _diff(snap0, snapshot(cs2))
            out.check(not bad, "copies/copy-has-wrong-values", lambda: "%s: fresh copy differs in %r" % (how, [(n, snap0[n], plain(_val(cs2, n))) for n in bad[:3]]))
            for n, v in valid.items():
                cs2[n] = copy.deepcopy(v)
            # the copy still validates
            if invalid is not None:
                try:
                    cs2[invalid] = copy.deepcopy(new[invalid][0])
                    out.fail("copies/copy-lost-validation", "%s copy accepted %s = %r which the schema rejects" % (how, invalid, new[invalid][0]))
                except Exception:  # noqa: BLE001
                    pass
        bad = _diff(snap0, snapshot(cs))
        out.check(not bad, "copies/original-changed-by-copy", lambda: "%s + assignments on the copy changed the original: %r" % (how, bad[:4]))
        got2 = snapshot(cs2)
        bad = _diff(expect2, got2)
        out.check(not bad, "copies/copy-has-wrong-values",
                  lambda: "%s: %s" % (how, "; ".join("%s expected %r got %r" % (n, expect2.get(n), got2.get(n)) for n in bad[:3])))
        # in-place mutation of every mutable value of the copy ...
        touched = sum(_mutate_in_place(s.value) for _n, s in sorted(cs2.items()))
        out.label("mutated-places:%s" % ("0" if not touched else "1-200" if touched <= 200 else ">200"))
        bad = _diff(snap0, snapshot(cs))
        out.check(not bad, "copies/mutable-value-shared-with-original", lambda: "mutating values of the %s copy in place changed the original: %r" % (how, bad[:4]))
        bad = _diff(_pdefaults(), snapshot(_fresh()))
        out.check(not bad, "copies/mutable-default-shared", lambda: "mutating values in place changed the defaults of new Settings objects: %r" % bad[:4])
        bad = [n for c in (_fresh(), cs, cs2) for n, s in sorted(c.items()) if n in cat and not psame(plain(s.default), cat[n]["pdefault"])]
        out.check(not bad, "copies/mutable-default-shared", lambda: "Setting.default changed: %r" % bad[:4])
        # ... and of the original: the copy made before is unaffected
        cs3 = cs.duplicate()
        snap3 = snapshot(cs3)
        for _n, s in sorted(cs.items()):
            _mutate_in_place(s.value)
        bad = _diff(snap3, snapshot(cs3))
        out.check(not bad, "copies/mutable-value-shared-with-original", lambda: "mutating the original in place changed its duplicate: %r" % bad[:4])
        bad = [n for c in (_fresh(), cs, cs3) for n, s in sorted(c.items()) if n in cat and not psame(plain(s.default), cat[n]["pdefault"])]
        out.check(not bad, "copies/mutable-default-shared", lambda: "mutating values of the original in place changed Setting.default: %r" % bad[:4])
    finally:
        _quiet()
    return out




# --------------------------------------------------------------------------------------------------
# part: each_setting (every setting of the App gets its own documents, deterministic values)

_EACH_GENERIC = [
    "", "abc d", "null", "yes", "1e3", " lead ", "a: b #c", "\u00e9\u6f22", "l1\nl2", "'q' \"r\"", "- x", "0x10",
    True, False, 0, 1, 7, -1, 40, 0.5, 2.5, 1e22, 1e-5, None,
    [], [1, 2], ["a", "1e3", "null"], [0.25], [" x", "y: z"], [["x", 1], {"y": [True, None]}], {"$t": [3, 4]},
    {}, {"k": "v"}, {"a: b": [1, {"c": None}]}, {"vpc17.log": "debug"},
]
_EACH_NESTED = {
    "xs": [
        {"AA": {"geometry": "0D"}, "BA": {"xsFileLocation": ["a b.isotxs", "1e3"], "blockRepresentation": "Median"}},
        {"Z": {"geometry": "1D cylinder", "numInternalRings": 2, "mergeIntoClad": ["gap", "null"], "meshSubdivisionsPerCm": 3, "driverID": ""}},
        {"no": {"geometry": "2D hex", "externalDriver": False, "fluxFileLocation": "f: x", "xsPriority": 1, "validBlockTypes": []}},
    ],
    "cycles": [
        [{"name": "c: 1", "cumulative days": [1, 2.5, 30]}, {"step days": [1, "2", "3R"], "power fractions": [0.5, "1.0", "3R"]}],
        [{"cycle length": 100, "burn steps": 0, "availability factor": 0}, {"burn steps": 3}],
    ],
    "tight": [
        {"globalFlux": {"parameter": "keff", "convergence": 1e-5}, "thermalHydraulics": {"parameter": "peak: T", "convergence": 1}},
        {"null": {"parameter": "", "convergence": "0.5"}},
    ],
}


def each_enum(tier):
    cat = catalogue()
    ref = dict(_fresh().items())
    cases = []
    for name in sorted(cat):
        spec = cat[name]["spec"]
        t = spec["t"]
        pool = list(_EACH_NESTED.get(t, []))
        if t == "in":
            pool += list(spec["options"])
        if spec.get("suggested"):
            pool += list(spec["suggested"])
        if t == "modverb":
            pool += [{"vpc17.a": "debug", "vpc17 b": "40"}, {}]
        elif t == "userplugins":
            pool += [None, [], ["armi.vpc17.mod.Plug", "a: b"]]
        elif not spec.get("restricted"):
            pool += _EACH_GENERIC
        values, seen = [], []
        for v in pool:
            ok, exp = _try_schema(ref[name], dec(v))
            if not ok:
                continue
            pe = plain(exp)
            if any(psame(pe, q) for q in seen):
                continue
            seen.append(pe)
            values.append(v)
            if len(values) >= (8 if tier == "quick" else 40):
                break
        cases.append({"name": name, "values": values})
    return cases


def each_execute(case):
    out = Out()
    cat = catalogue()
    name = case["name"]
    out.label("spec:" + _kind(cat[name]["spec"]), "values:%d" % len(case["values"]))
    docs = []
    for i, v in enumerate(case["values"]):
        ch = {"name": name, "v": v, "e": "valid"}
        docs.append({"changes": [ch], "style": "short", "via": "string" if i % 2 else "file", "userSet": []})
        if i == 0:
            docs.append({"changes": [ch], "style": "full", "via": "file", "userSet": []})
        if i == 1 or len(case["values"]) == 1:
            docs.append({"changes": [ch], "style": "medium", "via": "string", "userSet": [name, "nCycles"]})
    out.evals = max(1, len(docs))
    out.nontrivial_count = 0
    for d in docs:
        sub = documents_execute(_fix_doc(d))
        out.violations.extend(sub.violations)
        out.labels.extend(lab for lab in sub.labels if lab.startswith("excluded:"))
        out.nontrivial_count += 1
    return out


# --------------------------------------------------------------------------------------------------
# part: xs_table (complete presence table of geometry / xsFileLocation / fluxFileLocation, every route)


def xs_table_enum(tier):
    cases = []
    for i, combo in enumerate(XS_COMBOS):
        for blockrep in (False, True):
            for extra in (False, True):
                cases.append({"combo": list(combo), "blockRepresentation": blockrep, "extra": extra, "geometry": XS_GEOMS[i % len(XS_GEOMS)],
                              "alone": (i + blockrep + extra) % 2 == 0})
    return cases


def xs_table_execute(case):
    out = Out()
    d = _xs_fill(tuple(case["combo"]), case["geometry"], ["ISOCA", "a b.isotxs"], "rzmflxCA")
    if case["blockRepresentation"]:
        d["blockRepresentation"] = "Median"
    if case["extra"]:
        d["driverID"] = "AA"
    verdict = _xs_table(d)
    out.label("entry:" + verdict, "combo:g=%s,x=%s,f=%s" % tuple(case["combo"]))
    value = {"CA": d} if case["alone"] else {"AA": {"geometry": "0D"}, "CA": d, "XA": {"xsFileLocation": ["ISOXA"]}}
    e = "invalid" if verdict == "invalid" else "valid"
    prev = {"name": "crossSectionControl", "v": {"ZA": {"geometry": "1D slab", "meshSubdivisionsPerCm": 2}}, "e": "valid"}
    change = {"name": "crossSectionControl", "v": value, "e": e}
    out.nontrivial_count = 0
    out.evals = 0
    # assignment over a previous non-default value
    cs, ref = _fresh(), dict(_fresh().items())
    _assign_checked(out, cs, ref, prev, "xs_table")
    _assign_checked(out, cs, ref, change, "xs_table")
    out.evals += 1
    subs = []
    # read from a hand-written text/file over the previous value
    for via, flow in (("string", False), ("file", True)):
        subs.append(handwritten_execute({"pre": [prev], "entries": [{"name": "nCycles", "v": 3, "e": "valid"}, change], "flow": flow, "via": via,
                                         "withVersions": False, "answer": None}))
    # admitted values survive the armi writer
    if e == "valid":
        subs.append(documents_execute(_fix_doc({"changes": [change], "style": "short", "via": "file", "userSet": []})))
        subs.append(documents_execute(_fix_doc({"changes": [prev, change], "style": "full", "via": "string", "userSet": []})))
    for sub in subs:
        out.violations.extend(sub.violations)
        out.evals += 1
    out.nontrivial_count = out.evals if verdict != "dropped" else 0
    return out


# --------------------------------------------------------------------------------------------------
# part: numeric_table (every numeric setting x boundary values, judged by the documented coercion + range)


def _numeric_probe_values(entry):
    vals = [0.5, 0.25, 0.999, 1.5, -0.5, 2.0, 1e-9, "2", "0.5", " 3", "-1", "abc", 0, 1, 2, 7, -1, True, False, None, [0.5], ["0.25", 1], [1.5], [-1]]
    for k in ("min", "max"):
        if k in entry:
            b = entry[k]
            vals += [b, b - 1, b + 1, b - 0.5, b + 0.5, float(b), math.nextafter(float(b), -math.inf), math.nextafter(float(b), math.inf), str(b)]
    out, seen = [], set()
    for v in vals:
        key = repr(v)
        if key not in seen:
            seen.add(key)
            out.append(v)
    return out


def numeric_enum(tier):
    cat = catalogue()
    cases = []
    for name in sorted(NUMERIC_TABLE):
        cases.append({"name": name, "values": _numeric_probe_values(NUMERIC_TABLE[name]), "defined": name in cat})
    # numeric settings of the App that the table does not know are reported, not guessed
    for name in sorted(cat):
        if name not in NUMERIC_TABLE and isinstance(cat[name]["default"], (int, float)) and not isinstance(cat[name]["default"], bool):
            cases.append({"name": name, "values": [], "defined": True, "untabulated": True})
    return cases


def numeric_execute(case):
    out = Out()
    name = case["name"]
    if case.get("untabulated") or not case["defined"]:
        out.label("numeric-setting-not-in-table" if case.get("untabulated") else "table-entry-not-in-app")
        return out
    entry = NUMERIC_TABLE[name]
    cs, ref = _fresh(), dict(_fresh().items())
    held, docs = [], []
    out.evals = 0
    for v in case["values"]:
        verdict, want = _numeric_model(entry, v)
        _assign_checked(out, cs, ref, {"name": name, "v": v, "e": verdict}, "numeric_table")
        out.evals += 1
        if verdict == "valid" and not any(psame(want, h) for h in held):
            held.append(want)
            i = len(held) - 1
            if i < (6 if len(case["values"]) else 0):
                ch = {"name": name, "v": v, "e": "valid"}
                docs.append({"changes": [ch], "style": "short", "via": "string" if i % 2 else "file", "userSet": []})
                if i == 0:
                    docs.append({"changes": [ch], "style": "full", "via": "string", "userSet": []})
                if i == 1:
                    docs.append({"changes": [ch], "style": "medium", "via": "file", "userSet": [name]})
    for d in docs:
        sub = documents_execute(_fix_doc(d))
        out.violations.extend(sub.violations)
        out.evals += 1
    out.label("held-values:%d" % len(held))
    out.nontrivial_count = out.evals
    return out


# --------------------------------------------------------------------------------------------------

PARTS = [
    Part("defaults", defaults_execute, enumerate=defaults_enum, exhaustive=True, procs={"quick": 1, "thorough": 1},
         rule="one case per setting the App under test defines (framework + built-in plugins + the C17 test plugin: 7 new settings with "
              "expired / never-expiring / future old names, an added Option, Default overrides of 7 settings): the default is admitted by the "
              "setting's own schema, is a fixed point of it, re-assigning it leaves the setting at default; a plugin-contributed Default is "
              "the reported default and value of a new Settings()",
         bound=lambda t: "all settings of the configured App"),
    Part("each_setting", each_execute, enumerate=each_enum, exhaustive=True, procs={"quick": 4, "thorough": 8},
         rule="one case per setting of the configured App: up to 8 (thorough 40) distinct schema-admitted values from a fixed pool (YAML-hostile "
              "strings, falsy values, numbers, lists, dicts, every listed option, hand-written nested documents), each written alone in short "
              "style (stream or file), the first also in full and the second in medium style, with the complete `documents` oracle; "
              "non-trivial = every written document",
         bound=lambda t: "all settings x <= %d values x {short, medium, full}" % (8 if t == "quick" else 40)),
    Part("xs_table", xs_table_execute, enumerate=xs_table_enum, exhaustive=True, procs={"quick": 2, "thorough": 2},
         rule="complete table: every presence combination (absent / None / given) of geometry, xsFileLocation and fluxFileLocation in one "
              "crossSectionControl entry x blockRepresentation given or not x another option given or not, alone or among valid entries; "
              "expectation from the documented rules (nothing given: dropped; geometry or xsFileLocation required; fluxFileLocation needs "
              "geometry); each is assigned over a previous value, read from a hand-written string and file over a previous value and, if "
              "admitted, written by armi in short and full style and read back; non-trivial = entry not dropped",
         bound=lambda t: "3^3 presence combinations x 2 x 2 = 108 entries x 3-5 routes"),
    Part("numeric_table", numeric_execute, enumerate=numeric_enum, exhaustive=True, procs={"quick": 3, "thorough": 4},
         rule="every numeric setting (49, documented coercion + range transcribed into NUMERIC_TABLE, not read from the schema objects) x "
              "boundary values: fractions inside/outside the range, numeric strings, 0, negatives, bools, None, lists, every bound +-1, +-0.5 "
              "and its float neighbours; oracle: admitted <=> the table admits int()/float() of the value, the held value equals that coerced "
              "value with the documented number type, a refused value keeps the previous one; up to 6 distinct held values are written alone "
              "(short, one full, one medium) and read back with the complete `documents` oracle; non-trivial = every evaluation",
         bound=lambda t: "49 numeric settings x 24-42 probe values x <= 8 documents"),
    Part("assign", assign_execute, strategy=assign_strategy, budget={"quick": 3000, "thorough": 80000}, procs={"quick": 4, "thorough": 16},
         rule="Hypothesis: histories of 1-10 assignments on one Settings object; the setting is drawn uniformly (nested and container "
              "settings boosted), the value from the setting's introspected schema (Coerce/Range/In/Any/list; hand-written generators "
              "for crossSectionControl, cycles, tightCouplingSettings; YAML-hostile strings; falsy values; the default) incl. near misses; "
              "oracle after every step: schema(v) on an independent Setting copy raises <=> assignment raises, stored == schema(v), a refused "
              "value leaves the previous one, no other setting moves, by-construction expectation of well-formed / near-miss values agrees "
              "with the schema; non-trivial = at least one accepted off-default value and one refused value"),
    Part("documents", documents_execute, strategy=documents_strategy, budget={"quick": 1900, "thorough": 100000}, procs={"quick": 8, "thorough": 16},
         rule="Hypothesis: 0-15 settings changed at once -> written by armi in short/medium/full style to a stream or a scratch file -> read "
              "by armi into a fresh Settings; oracle: every setting equal to the value before writing (versions modulo the armi entry), "
              "default settings still at default, the text parsed with ruamel alone has exactly the expected top-level keys per style "
              "(short: off-default + versions; medium: + listed user settings; full: all) and holds the stored values, writing does not "
              "change the settings, the re-written read-back holds the same data; non-trivial = >= 3 settings off default incl. one container"),
    Part("handwritten", handwritten_execute, strategy=handwritten_strategy, budget={"quick": 2300, "thorough": 80000}, procs={"quick": 4, "thorough": 16},
         rule="Hypothesis: settings texts produced without armi (ruamel block or flow style) from 0-8 entries (valid values, near misses, "
              "unknown keys, old names) read into a Settings that already holds 0-3 changes; oracle in file order with the values as an "
              "independent YAML parse sees them: first value its schema rejects => reading raises (InvalidSettingsFileError for files) and the "
              "previous value stays; otherwise every value lands as schema(v), unknown keys are exactly reader.invalidSettings and nothing else "
              "moves; non-trivial = >= 2 known settings in the file and (invalid value or unknown key or container value)"),
    Part("renames", renames_execute, enumerate=renames_enum, exhaustive=True, procs={"quick": 1, "thorough": 1},
         rule="every (old name, setting) pair of the configured App: SettingRenamer rule; old name in a string/file with 2 valid and 1 "
              "invalid value lands on / is refused by the new setting; synthetic settings for active, not-yet-expired, expired, colliding "
              "old names and an old name equal to a current name",
         bound=lambda t: "all oldNames of the configured App x {string, file} x 3 values + 5 synthetic expiry shapes"),
    Part("copies", copies_execute, strategy=copies_strategy, budget={"quick": 1200, "thorough": 40000}, procs={"quick": 4, "thorough": 16},
         rule="Hypothesis: a Settings with 0-10 changes is copied by modified(newSettings)/duplicate()/deepcopy/pickle and the copy is "
              "changed by assignment and by in-place mutation of every list/dict/XS value (and vice versa); oracle: the original's snapshot, "
              "the defaults of new Settings objects and an earlier duplicate never change, the copy holds schema(v) for the modified settings "
              "and the original's values elsewhere, an invalid value makes modified() raise; non-trivial = container setting off default in "
              "the original and at least one modification"),
]
