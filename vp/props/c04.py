"""C04 - a reactor saved to the database loads back observationally equal."""
import os

from hypothesis import strategies as st

from vp.gen import reactor as rg
from vp.runner import Out, Part

PROPERTY = "C04"
LEVEL = "exploration"
ASSUMPTIONS = [
    "equality is observe(): type, name, serial number, child order, grid constructor arguments, locator indices and global "
    "coordinates, material class, Tinput/Thot, every dimension (value or link target), number densities, every persistent "
    "(saveToDB) parameter's effective value (unset == default, as the database documents), component area",
    "documented normalisations: sequences come back as arrays; an unset dimension (None) comes back as 0; names/strings compare "
    "by text; the loaded tree is in sort() order, so the original is sorted after writing before it is observed",
    "floats are compared exactly (HDF5 stores float64)",
    "components inside a block are matched by name rather than by position (their sort key depends on derived-shape state at "
    "sort time); assemblies in the core/pool and blocks in an assembly are compared in order",
    "scalar values assigned as NumPy float32/float64/Python float to one parameter are all float32-representable, so that the "
    "known C05 finding (a column with unset entries is cast to the type of its first entry) cannot change them; mixed-width "
    "columns are C05's subject",
    "material internals other than the theoretical-density fraction (which armi restores explicitly) are not compared: armi "
    "rebuilds a default material instance on load and restores composition through the number densities",
]

BLOCK_PARAMS = [
    ("power", "f"), ("flux", "f"), ("pdens", "f"), ("percentBu", "f"), ("buRate", "f"), ("xsType", "xs"), ("envGroup", "xs"),
    ("mgFlux", "arr"), ("pointsEdgeDpa", "arr6"), ("THcornTemp", "arr6"), ("linPowByPin", "arr"), ("pinMgFluxes", "arr2"),
    ("displacementX", "f"), ("THhotChannelCladODT", "f"), ("residence", "f"), ("axialPowerProfile", "arr"),
]
ASSEM_PARAMS = [("chargeTime", "f"), ("dischargeTime", "f"), ("notes", "s"), ("multiplicity", "i"), ("powerDecay", "arr"), ("detailedNDens", "arr"),
                ("daysSinceLastMove", "fpos"), ("numMoves", "fpos"), ("maxPercentBu", "f")]
CORE_PARAMS = [("power", "f"), ("keff", "f"), ("beta", "f"), ("betaComponents", "arr"), ("eigenvalues", "arr"), ("maxPD", "f"),
               ("axialMesh", "arrinc"), ("referenceBlockAxialMesh", "arrinc")]
COMP_PARAMS = [("percentBu", "f"), ("massHmBOL", "f"), ("molesHmBOL", "f"), ("puFrac", "f"), ("pinPercentBu", "arr"), ("buRate", "f")]
LEVELS = {"block": BLOCK_PARAMS, "assem": ASSEM_PARAMS, "core": CORE_PARAMS, "comp": COMP_PARAMS}

# parameters that armi itself re-derives while loading (caches of geometry; the core's running maximum; the block mass
# summaries that Core.processLoading -> setBlockMassParams recomputes from the current composition): compared through
# the derived quantities (getArea, number densities, dimensions) instead of the stored cache
DERIVED_ON_LOAD = {"*": ("area", "volume"), "Core": ("maxAssemNum",),
                   "HexBlock": ("kgHM", "kgFis", "puFrac"), "CartesianBlock": ("kgHM", "kgFis", "puFrac")}

# scalar parameters assigned as NumPy scalars of a narrow type (what array arithmetic hands to user code): the column takes
# that dtype and, for parameters whose default is None, the unset entries of the other objects get the dtype's own marker
TYPED_PARAMS = {"comp": [("pinNum", "ityped")], "block": [("THhotChannelFuelODT", "ftyped"), ("THhotChannel", "ityped"), ("topIndex", "ityped")],
                "assem": [("THorificeZone", "ityped"), ("multiplicity", "ityped")], "core": [("cyclics", "ityped"), ("coupledIteration", "ityped")]}
OPS = ["freecoord", "parammany", "bookkeeping", "param", "param", "param", "temp", "ndens", "swap", "rotate", "discharge", "fullcore", "time", "unset",
       "typed", "addnuc", "emptygrid"]
EXCLUDE_KNOWN = {}


def _value():
    fl = st.floats(-1e12, 1e12, allow_nan=False).map(lambda x: float(x))
    return st.fixed_dictionaries(
        {
            "f": st.one_of(fl, st.sampled_from([0.0, -0.0, 1e-300, 1.5, 3.0e15])),
            "i": st.integers(0, 10**6),
            "s": st.text(alphabet="abcXYZ 019-_/", max_size=12),
            "xs": st.sampled_from(list("ABCDEFGHZ")),
            "arr": st.lists(fl, min_size=1, max_size=6),
            "arr2": st.tuples(st.integers(1, 3), st.integers(1, 3), st.lists(fl, min_size=9, max_size=9)).map(list),
        }
    )


def _op():
    return st.fixed_dictionaries(
        {
            "op": st.sampled_from(OPS),
            "level": st.sampled_from(["block", "block", "assem", "core", "comp"]),
            "obj": st.integers(0, 10**6),
            "obj2": st.integers(0, 10**6),
            "pidx": st.integers(0, 100),
            "val": _value(),
            "T": st.floats(20.0, 700.0).map(lambda x: round(x, 2)),
            "factor": st.floats(0.1, 3.0),
            "k": st.integers(1, 5),
            "cycle": st.integers(0, 30),
            "node": st.integers(0, 30),
        }
    )


def _spec_with_variants():
    """The shared reactor spec plus input details only this property cares about: system origins with x != y != z (objects whose
    parent has no grid sit at free coordinates) and solids whose input temperature is 0.0 C."""
    fl = st.floats(-300.0, 300.0).map(lambda x: round(x, 1))
    origin = st.one_of(st.none(), st.tuples(fl, fl, fl).map(list))

    def merge(t):
        spec, co, so, tins = t
        spec = dict(spec)
        if co is not None:
            spec["coreOrigin"] = co
        if so is not None and spec.get("sfp"):
            spec["sfpOrigin"] = so
        spec["designs"] = [dict(d, tin=tins[i % len(tins)]) for i, d in enumerate(spec["designs"])]
        return spec

    return st.tuples(rg.reactor_spec(max_rings=3, max_blocks=3), origin, origin,
                     st.lists(st.sampled_from([25.0, 25.0, 0.0, 20.0]), min_size=3, max_size=3)).map(merge)


def strategy(tier):
    return st.fixed_dictionaries(
        {
            "spec": st.one_of(_spec_with_variants(), _spec_with_variants(), _spec_with_variants(), rg.rzt_spec()),
            "program": st.lists(_op(), min_size=0, max_size=8),
            "reload": st.booleans(),
            # None: one snapshot after the whole program; k: a first snapshot after k operations, the rest of the program, then a
            # second snapshot at the next time node through the SAME open database; both are loaded back afterwards
            "split": st.one_of(st.none(), st.integers(0, 8)),
            # None: default (simple) cycle settings; list: detailed cycle history with this many burn steps per cycle, so that the
            # documented negative node index of Database.load ("indexed from EOC backwards like a list") can be exercised
            "cycles": st.one_of(st.none(), st.lists(st.integers(1, 4), min_size=1, max_size=4)),
            # None, or the name of a labelled state point written beside the last node with a different state ("EOL" is the
            # one armi itself writes), loaded back through load() and loadReadOnly() with that label
            "label": st.sampled_from([None, None, "EOL", "special"]),
        }
    )


# ---------------------------------------------------------------------------------------------


def _objects(r, level):
    if level == "core":
        return [r.core]
    if level == "assem":
        return list(r.core)
    if level == "block":
        return [b for a in r.core for b in a]
    return [c for a in r.core for b in a for c in b]


def _make_value(kind, val):
    import numpy as np

    if kind == "f":
        return val["f"]
    if kind == "fpos":
        return abs(val["f"]) % 1000.0 + 1.0
    if kind == "arrinc":
        # strictly increasing mesh-like list (what these parameters hold)
        acc, outv = 0.0, []
        for x in val["arr"]:
            acc += abs(x) % 50.0 + 0.5
            outv.append(acc)
        return outv
    if kind == "i":
        return val["i"]
    if kind == "ityped":
        types = [int, np.int8, np.int16, np.int32, np.int64, np.uint8, np.uint16, np.uint32]
        return types[val["i"] % len(types)](val["i"] // 8 % 100)
    if kind == "ftyped":
        # every drawn value is float32-representable: a column mixing float32 and wider floats with unset entries is cast to the
        # type of its first entry (known finding of C05, sentinel/column-cast-to-first-entry-type); that shape is left to C05
        v32 = float(np.float32(val["f"] if abs(val["f"]) < 1e30 else 1.5))
        return [float, np.float32, np.float64, np.float32][val["i"] % 4](v32)
    if kind == "s":
        return val["s"]
    if kind == "xs":
        return val["xs"]
    if kind == "arr":
        return np.array(val["arr"])
    if kind == "arr6":
        return np.array((val["arr"] * 6)[:6])
    if kind == "arr2":
        n, m, flat = val["arr2"]
        return np.array(flat[: n * m]).reshape(n, m)
    raise KeyError(kind)


def _assigned(o, name):
    try:
        o.p[name]
        return True
    except Exception:  # noqa: BLE001  (ParameterError: no default and never assigned)
        return False


def apply_program(cs, r, program, out, counts, partial_nodefault=False, cyc_steps=None):
    """Apply the state-change program; every op is resolved modulo the valid targets."""
    import math

    import numpy as np

    from armi.reactor import parameters

    from armi.reactor import geometry, grids
    from armi.reactor.converters import geometryConverters

    for op in program:
        kind = op["op"]
        if kind in ("param", "unset", "typed"):
            objs = _objects(r, op["level"])
            if not objs:
                continue
            o = objs[op["obj"] % len(objs)]
            names = {pd.name for pd in o.p.paramDefs}
            table = [(n, k) for n, k in (TYPED_PARAMS if kind == "typed" else LEVELS)[op["level"]] if n in names]
            if not table:
                continue
            name, vk = table[op["pidx"] % len(table)]
            if kind == "unset":
                if vk in ("arr", "arr6", "arr2", "f") and o.p.paramDefs[name].default is None:
                    o.p[name] = None
                    counts["unset"] += 1
                continue
            value = _make_value(vk, op["val"])
            if o.p.paramDefs[name].default is parameters.NoDefault:
                # A persistent parameter WITHOUT a default is only stored when every object of the class holds a value
                # (known finding nodefault-partial, exercised by the part of that name); here the column is completed.
                if partial_nodefault:
                    o.p[name] = value
                    counts["nodefault-partial"] += 1
                    continue
                for other in r.iterChildren(deep=True, predicate=lambda x, t=type(o): type(x) is t):
                    if name not in other.p or not _assigned(other, name):
                        other.p[name] = value
                counts["nodefault-completed"] += 1
            o.p[name] = value
            counts[("typed:" + type(value).__name__) if kind == "typed" else ("param:" + op["level"])] += 1
        elif kind == "bookkeeping":
            # values the loader must not re-derive: move counters of an assembly, the core's stored axial meshes
            assems = list(r.core)
            a = assems[op["obj"] % len(assems)]
            a.p.daysSinceLastMove = _make_value("fpos", op["val"])
            a.p.numMoves = float(1 + op["k"])
            r.core.p.axialMesh = _make_value("arrinc", op["val"])
            r.core.p.referenceBlockAxialMesh = _make_value("arrinc", op["val"])[: 1 + op["k"] % 3]
            counts["bookkeeping"] += 1
        elif kind == "parammany":
            # the same array-valued parameter on several objects with DIFFERENT shapes (ragged / n-d ragged columns), others unset
            objs = _objects(r, "block")
            names = {pd.name for pd in objs[0].p.paramDefs}
            table = [(n, k) for n, k in BLOCK_PARAMS if n in names and k in ("arr", "arr2")]
            name, vk = table[op["pidx"] % len(table)]
            n, m, flat = op["val"]["arr2"]
            for q in range(min(len(objs), 2 + op["k"])):
                o = objs[(op["obj"] + q * (1 + op["obj2"] % 3)) % len(objs)]
                if vk == "arr2":
                    rows, cols = 1 + (n + q) % 3, 1 + (m + 2 * q) % 3
                    o.p[name] = np.array([(flat * 2)[(q + i) % 9] + i for i in range(rows * cols)]).reshape(rows, cols)
                else:
                    o.p[name] = np.array([(flat * 2)[(q + i) % 9] + i for i in range(1 + (n + q) % 4)])
            counts["parammany"] += 1
        elif kind == "temp":
            comps = _objects(r, "comp")
            c = comps[op["obj"] % len(comps)]
            c.setTemperature(op["T"])
            counts["temp"] += 1
        elif kind == "ndens":
            comps = [c for c in _objects(r, "comp") if c.getNumberDensities()]
            if not comps:
                continue
            c = comps[op["obj"] % len(comps)]
            nucs = sorted(c.getNumberDensities())
            nuc = nucs[op["obj2"] % len(nucs)]
            c.setNumberDensity(nuc, c.getNumberDensity(nuc) * op["factor"])
            counts["ndens"] += 1
        elif kind == "addnuc":
            # a composition change that introduces a nuclide the component did not hold: any nuclide of the directory, isomeric
            # states (M, M2, M3, G) over-weighted
            from armi.nucDirectory import nuclideBases

            comps = [c for c in _objects(r, "comp") if c.getNumberDensities()]
            if not comps:
                continue
            c = comps[op["obj"] % len(comps)]
            names = sorted(n for n, nb in nuclideBases.byName.items() if nb.a > 0)
            first = [n for n in names if n.endswith("M")]  # first isomeric state
            higher = [n for n in names if n[-1] == "G" or n[-2:] in ("M2", "M3", "M4")]  # ground-state marker, higher isomeric states
            pool = (names, first, higher)[op["k"] % 3] or names
            nuc = pool[op["obj2"] % len(pool)]
            counts["addnuc:" + ("any", "first-isomer", "higher-isomer")[op["k"] % 3]] += 1
            c.setNumberDensity(nuc, 1e-9 * (1 + op["pidx"]))
        elif kind == "swap":
            assems = list(r.core)
            if len(assems) < 2:
                continue
            a1 = assems[op["obj"] % len(assems)]
            a2 = assems[op["obj2"] % len(assems)]
            if a1 is a2:
                continue
            l1, l2 = a1.spatialLocator, a2.spatialLocator
            a1.moveTo(l2)
            a2.moveTo(l1)
            counts["swap"] += 1
        elif kind == "rotate":
            if r.core.geomType != geometry.GeomType.HEX:
                continue
            assems = list(r.core)
            a = assems[op["obj"] % len(assems)]
            a.rotate(math.radians(60.0 * op["k"]) if op["k"] <= 4 else math.radians(60.0))
            counts["rotate"] += 1
        elif kind == "freecoord":
            blocks = [b for a in r.core for b in a if b.spatialGrid is not None]
            if not blocks:
                continue
            b = blocks[op["obj"] % len(blocks)]
            comps = list(b)
            c = comps[op["obj2"] % len(comps)]
            c.spatialLocator = grids.CoordinateLocation(round(op["factor"], 3), round(op["T"] / 500.0, 3), 0.0, b.spatialGrid)
            counts["freecoord"] += 1
        elif kind == "emptygrid":
            # a block whose grid holds no cached index locations (built with numRings=0) and whose children all sit at free
            # coordinates in it
            blocks = [b for a in r.core for b in a if b.spatialGrid is None and r.core.geomType == geometry.GeomType.HEX]
            if not blocks:
                continue
            b = blocks[op["obj"] % len(blocks)]
            b.spatialGrid = grids.HexGrid.fromPitch(round(0.5 + op["factor"], 3), numRings=0, armiObject=b)
            for n, c in enumerate(b):
                c.spatialLocator = grids.CoordinateLocation(round(0.1 * n + op["factor"], 3), round(op["T"] / 700.0 - 0.05 * n, 3), 0.0, b.spatialGrid)
            counts["emptygrid"] += 1
        elif kind == "discharge":
            assems = list(r.core)
            sfp = r.excore.get("sfp") if hasattr(r, "excore") else None
            if len(assems) < 2 or sfp is None or sfp.spatialGrid is None:
                continue
            a = assems[op["obj"] % len(assems)]
            r.core.removeAssembly(a, discharge=True)
            counts["discharge"] += 1
        elif kind == "fullcore":
            if r.core.geomType == geometry.GeomType.HEX and r.core.symmetry.domain == geometry.DomainType.THIRD_CORE:
                geometryConverters.ThirdCoreHexToFullCoreChanger(cs).convert(r)
                counts["fullcore"] += 1
        elif kind == "time":
            r.p.cycle = op["cycle"]
            r.p.timeNode = op["node"]
            if cyc_steps:
                # inside the declared cycle history: node n of cycle c exists for n <= burn steps of c
                r.p.cycle = op["cycle"] % len(cyc_steps)
                r.p.timeNode = op["node"] % (cyc_steps[int(r.p.cycle)] + 1)
            counts["time"] += 1


def _observe(r):
    from vp.model import observe as ob

    return ob.observe(r, params=True, only_saved=True, serial=True, derived=True)


def _normalise(rec):
    """Documented normalisations applied to both sides."""
    rec = dict(rec)
    rec["name"] = str(rec["name"])
    if rec.get("locator") is not None:
        kind, idx, owner, glob, nested = rec["locator"]
        # a locator is compared by what it denotes: multi or single, its indices/coordinates, the grid owner and the
        # global coordinates it resolves to (a coordinate location at a grid's origin and the index location (0,0,0) of
        # that grid denote the same place)
        rec["locator"] = ("multi" if kind == "MultiIndexLocation" else "single", idx, None if owner is None else str(owner), glob, nested)
    if rec.get("grid") is not None:
        name, red = rec["grid"]
        red = list(red)
        if len(red) >= 5 and isinstance(red[4], str) and red[4].startswith("hex"):
            red[4] = "hex"  # geometry type label: corners-up is carried by the unit steps (documented in GeomType.fromStr)
        rec["grid"] = (name, red)
    comp = rec.get("component")
    if comp is not None:
        comp = dict(comp)
        comp["dims"] = {k: (0.0 if v is None else v) for k, v in comp["dims"].items()}
        rec["component"] = comp
        if "params" in rec:
            p = dict(rec["params"])
            for d in comp["dims"]:
                if d in p and p[d] is None:
                    p[d] = 0.0
            rec["params"] = p
    if "params" in rec:
        p = dict(rec["params"])
        key = "HexBlock" if rec["type"].endswith("Block") else rec["type"]
        for name in DERIVED_ON_LOAD.get(key, DERIVED_ON_LOAD["*"] if comp is not None else ()):
            p.pop(name, None)
        for k, v in list(p.items()):
            if isinstance(v, list) and len(v) == 0:
                p[k] = None  # documented: an empty entry comes back unset
        rec["params"] = p
    rec["children"] = [_normalise(c) for c in rec["children"]]
    if rec["type"].endswith("Block"):
        # Component order inside a block is decided by Component.__lt__, which for the derived (coolant) shape depends on
        # the block's state at the moment of sorting; armi sorts at load time, the harness later.  Components are matched
        # by name (unique within a block); assemblies in the core and blocks in an assembly are compared in order.
        rec["children"] = sorted(rec["children"], key=lambda c: c["name"])
    return rec


def _align_unlocated(a, b):
    """Locators are compared in full (kind, indices, owner, global coordinates) when the original's locator lives in the
    grid of the object's own parent.  Otherwise (a component that was never placed: gridless default locator, or one that
    sits in a grid borrowed from the core as Block.autoCreateSpatialGrids does) only multi/single and the local
    indices/coordinates are compared: the loader re-homes such locators in the parent's own grid by design."""
    la, lb = a.get("locator"), b.get("locator")
    if la is not None and lb is not None and not la[4]:
        a["locator"] = (la[0], tuple(float(x) for x in la[1]) if la[0] == "single" else la[1])
        b["locator"] = (lb[0], tuple(float(x) for x in lb[1]) if lb[0] == "single" else lb[1])
    elif la is not None and lb is not None:
        a["locator"], b["locator"] = la[:4], lb[:4]
    for ca, cb in zip(a["children"], b["children"]):
        _align_unlocated(ca, cb)


def _sig_of(difftext):
    """Root-cause bucket from the first differing path."""
    import re

    path = difftext.split(":")[0]
    path = re.sub(r"\[\d+\]", "", path)
    parts = [p for p in path.split("/") if p and p != "children"]
    return "/".join(parts[:3]) if parts else "structure"


def execute(case):
    import collections

    from armi.bookkeeping.db.database import Database

    from vp import env
    from vp.model import observe as ob

    out = Out()
    spec = case["spec"]
    text = rg.render(spec)
    cyc_steps = case.get("cycles")
    cs, bp, r = rg.build(spec, text=text, settings=None if not cyc_steps else {"cycles": [{"cycle length": 10.0, "burn steps": n} for n in cyc_steps]})
    counts = collections.Counter()
    prog, split = case["program"], case.get("split")
    phases = [prog] if split is None else [prog[: split % (len(prog) + 1)], prog[split % (len(prog) + 1):]]
    fn = "c04_%d.h5" % os.getpid()  # relative: created in the fast path, moved to the working directory on close
    fn2 = fn.replace(".h5", "_b.h5")
    for f in (fn, fn2):
        if os.path.exists(f):
            os.remove(f)
    db = Database(fn, "w")
    db.open()
    try:
        # one or two snapshots through the same open database; each is observed when it is written
        snaps = []
        for phase in phases:
            apply_program(cs, r, phase, out, counts, cyc_steps=cyc_steps)
            if snaps and (int(r.p.cycle), int(r.p.timeNode)) in [(c_, n_) for c_, n_, _ in snaps]:
                r.p.timeNode = max(n_ for _, n_, _ in snaps) + 1
            db.writeToDB(r)
            r.sort()
            snaps.append((int(r.p.cycle), int(r.p.timeNode), _normalise(_observe(r))))
        _labels(out, spec, r, counts, len(snaps))
        clean = True
        r1 = None
        for i, (cyc, node, a) in enumerate(snaps):
            r1 = db.load(cyc, node, cs=cs, bp=bp)
            b = _normalise(_observe(r1))
            _align_unlocated(a, b)
            d = ob.diff(a, b, limit=6)
            for x in d:
                out.fail(("roundtrip/" if len(snaps) == 1 or i == len(snaps) - 1 else "roundtrip-earlier-snapshot/") + _sig_of(x),
                         "loaded != original (snapshot %d of %d): %s" % (i + 1, len(snaps), x))
            clean = clean and not d
            if not d and cyc_steps and cyc < len(cyc_steps) and node <= cyc_steps[cyc]:
                # the same snapshot addressed from the end of its cycle
                neg = node - (cyc_steps[cyc] + 1)
                out.label("negative-node")
                rn = db.load(cyc, neg, cs=cs, bp=bp)
                for x in ob.diff(_normalise(_observe(r1)), _normalise(_observe(rn)), limit=3):
                    out.fail("negative-node/" + _sig_of(x), "load(%d, %d) != load(%d, %d) with %r burn steps per cycle: %s" % (cyc, neg, cyc, node, cyc_steps, x))
        label = case.get("label")
        if clean and label:
            # a second state under the same (cycle, node), told apart by its label only
            out.label("labelled-state-point")
            r.core.p.power = float(r.core.p.power or 0.0) + 12.5
            comps = _objects(r, "comp")
            if comps:
                comps[0].setTemperature(comps[0].temperatureInC + 7.0)
            db.writeInputsToDB(cs, bpString=text)  # loadReadOnly takes settings and blueprints from the file itself
            db.writeToDB(r, statePointName=label)
            r.sort()
            for how, loader in (("load", db.load), ("loadReadOnly", db.loadReadOnly)):
                rl = loader(cyc, node, statePointName=label) if how == "loadReadOnly" else loader(cyc, node, cs=cs, bp=bp, statePointName=label)
                got = _normalise(_observe(rl))
                want = _normalise(_observe(r))
                _align_unlocated(want, got)
                if how == "loadReadOnly":
                    got["name"] = want["name"]  # (the reactor is named after the case title of the settings stored in the file)
                for x in ob.diff(want, got, limit=3):
                    out.fail("labelled/%s/%s" % (how, _sig_of(x)), "%s(%d, %d, statePointName=%r) != the state written under that label: %s" % (how, cyc, node, label, x))
            plain = _normalise(_observe(db.load(cyc, node, cs=cs, bp=bp)))
            for x in ob.diff(_normalise(_observe(r1)), plain, limit=3):
                out.fail("labelled/plain-node-changed/" + _sig_of(x), "the unlabelled node changed when a labelled state was written beside it: " + x)
        if clean:
            r2 = db.load(cyc, node, cs=cs, bp=bp)
            c = _normalise(_observe(r2))
            b = _normalise(_observe(r1))
            d2 = ob.diff(b, c, limit=4)
            for x in d2:
                out.fail("load-twice/" + _sig_of(x), "two loads differ: " + x)
            if case["reload"] and not d2:
                db2 = Database(fn2, "w")
                db2.open()
                try:
                    db2.writeToDB(r2)
                    r3 = db2.load(cyc, node, cs=cs, bp=bp)
                    e = _normalise(_observe(r3))
                    for x in ob.diff(c, e, limit=4):
                        out.fail("rewrite/" + _sig_of(x), "load(write(load(x))) != load(x): " + x)
                finally:
                    db2.close(True)
    finally:
        db.close(True)
        for f in (fn, fn2):
            if os.path.exists(f):
                os.remove(f)
    return out


def _labels(out, spec, r, counts, nsnap):
    kinds = {k.split(":")[0] for k in counts}
    out.nontrivial = len(kinds) >= 2 or any(d["pinGrid"] for d in spec["designs"]) or spec["geom"] == "thetarz"
    out.label("geom:" + spec["geom"], "sym:" + spec["symmetry"].split()[0], "snapshots:%d" % nsnap, *["op:" + k for k in sorted(counts)])
    if any(d["pinGrid"] for d in spec["designs"]):
        out.label("pin-grid")
    if len(r.excore.get("sfp", [])) if hasattr(r, "excore") and isinstance(r.excore, dict) else False:
        out.label("sfp-occupied")


def nodefault_strategy(tier):
    return st.fixed_dictionaries(
        {
            "spec": rg.reactor_spec(max_rings=2, max_blocks=2, allow_pin_grid=False),
            "obj": st.integers(0, 10**6),
            "name": st.sampled_from(["buRate", "zrFrac"]),
            "value": st.floats(0.0, 10.0),
            "all": st.booleans(),
        }
    )


def nodefault_execute(case):
    """Known finding: a persistent parameter that has no default is written only if EVERY object of the class holds a value;
    a value assigned on a subset is silently not stored.  Generated separately so that it keeps being observed."""
    from armi.bookkeeping.db.database import Database

    out = Out()
    cs, bp, r = rg.build(case["spec"])
    comps = _objects(r, "comp")
    c = comps[case["obj"] % len(comps)]
    name = case["name"]
    same = [x for x in r.iterChildren(deep=True, predicate=lambda x, t=type(c): type(x) is t)]
    targets = same if case["all"] else [c]
    for x in targets:
        x.p[name] = case["value"]
    partial = len(targets) < len(same)
    out.nontrivial = partial
    out.label("partial" if partial else "complete")
    fn = "c04nd_%d.h5" % os.getpid()
    db = Database(fn, "w")
    db.open()
    try:
        db.writeToDB(r)
        r1 = db.load(0, 0, cs=cs, bp=bp)
    finally:
        db.close(True)
        if os.path.exists(fn):
            os.remove(fn)
    serial = c.p.serialNum
    c1 = [x for x in r1.iterChildren(deep=True) if x.p.serialNum == serial][0]
    if not _assigned(c1, name):
        out.fail("nodefault-partial/assigned-value-not-stored" if partial else "nodefault-complete/value-lost",
                 "%s=%r assigned on %d of %d %s objects is unassigned after load" % (name, case["value"], len(targets), len(same), type(c).__name__))
    elif c1.p[name] != case["value"]:
        out.fail("nodefault/value-changed", "%s=%r loaded as %r" % (name, case["value"], c1.p[name]))
    return out


PARTS = [
    Part("roundtrip", execute, strategy=strategy, budget={"quick": 320, "thorough": 30000}, procs={"quick": 8, "thorough": 16},
         rule="Hypothesis: blueprint-built reactor (hex third/full, flats/corners up, Cartesian full/quarter, theta-R-Z, pin lattices, SFP) + program "
              "of <= 8 state changes (typed parameter assignments at core/assembly/block/component level incl. NumPy scalars of narrow "
              "integer/float types, un-setting, temperature, composition scaling and new nuclides incl. isomeric states, swaps, rotations, discharge to SFP, third->full conversion, "
              "time) then writeToDB -> load; in half of the cases the program is split and two snapshots are written through the same "
              "open database and both loaded back; oracle observe() equality original (as observed when written) vs loaded, load "
              "twice, load(write(load)), a labelled state point beside the last node loaded through load() and loadReadOnly(), and (with a detailed cycle history) the same snapshot addressed by its negative node index; non-trivial = >= 2 kinds of state change or a pin lattice"),
    Part("nodefault_partial", nodefault_execute, strategy=nodefault_strategy, budget={"quick": 24, "thorough": 400}, procs={"quick": 1, "thorough": 4},
         rule="a persistent component parameter without default (buRate, zrFrac) assigned on one or on all components of a class, "
              "then write -> load; the value must come back; non-trivial = assigned on a strict subset (the known-finding shape)"),
]
