"""C10 - XS libraries merge losslessly; macroscopic data are density-weighted sums."""
import itertools
import os

from hypothesis import strategies as st

from vp.gen import c10_libs as L
from vp.runner import Out, Part

PROPERTY = "C10"
LEVEL = "exploration"
ASSUMPTIONS = [
    "libraries are derived from the shipped fixtures (ISOAA/ISOAB, AA/AB.gamiso, AA/AB.pmatrx, armi/tests/ISOAA): leading "
    "groups kept, nuclide subset, new xs-ID suffix, float32-exact value scale, dropped optional reactions / scatter "
    "blocks, narrowed scatter bands, optional file-wide chi and dose factors; every object under test and every "
    "reference array comes from armi's own readers applied to files written by armi's own writers (C09 covers those)",
    "snapshot = label set, library properties (unset and None are the same content), file metadata (None-valued keys "
    "ignored, file names as a multiset), per-nuclide metadata and arrays (sparse matrices as dense copies); compared exactly",
    "documented exceptions to 'identical to its source' accepted by the model: neutronVelocity is the first merged "
    "ISOTXS's ('just use the first one'); when a file-wide chi library meets another ISOTXS library the file-wide chi "
    "is dropped and fissile nuclides get chiFlag 1 (warning text of NuclideXSMetadata._getSkippedKeys)",
    "a refusal is AttributeError, OSError or ImmutablePropertyError (the types the armi tests expect); anything else propagates",
    "sums re-associated by the numpy reference are compared with 1e-10 * sum(|N_n sigma_n|)",
    "total/transport keep the fixture's uniform number of moments (ltot 4, ltrn 3); mixed moment counts are not generated",
]

# Shapes that trigger candidate genuine defects of the unchanged tree (AUTHORING rule 3).  While an entry is True the
# named comparison is skipped for exactly that shape (counted with the label excluded:<signature>); a case carrying
# "noexclude": [signatures] (only the defect replays do; the generators never emit it) is judged in full for those.
EXCLUDE_KNOWN = {
    "macro/empty-composition-not-zero": False,  # repaired in /repo (fix: commit); shape searched again
    "merge/refused-target-changed/nuclides-added": True,
    "merge/refused-target-changed/library-properties": True,
    "merge/refused-target-changed/chiFlag": True,
    "merge/neutron-velocity-lost": False,  # repaired in /repo (fix: commit); shape searched again
    "merge/filewide-chi-crash-on-nuclide-without-isotxs": False,  # repaired in /repo (fix: commit); shape searched again
    "collection/total-scatter-missing-n2n": False,  # repaired in /repo (fix: commit); shape searched again
}

REFUSALS = None  # filled lazily (armi import)


def _excluded(case, sig):
    ne = case.get("noexclude")
    if ne is True or (isinstance(ne, list) and sig in ne):
        return False
    return EXCLUDE_KNOWN.get(sig, False)


def _refusals():
    global REFUSALS
    if REFUSALS is None:
        from armi.utils import properties

        REFUSALS = (AttributeError, OSError, properties.ImmutablePropertyError)
    return REFUSALS


# ------------------------------------------------------------------------------------------------
# process-global state guards


def _global_guard():
    """Record the process-global state the code under test may touch."""
    from armi.nucDirectory import nuclideBases
    from armi.nuclearDataIO import xsCollections

    labels = {nb.name: nb.label for nb in nuclideBases.instances}
    return labels, len(nuclideBases.byLabel), {k: v.copy() for k, v in xsCollections.XSCollection._zeroes.items()}


def _global_check(out, guard):
    import numpy as np

    from armi.nucDirectory import nuclideBases
    from armi.nuclearDataIO import xsCollections

    labels, nlab, zeroes = guard
    changed = [nb.name for nb in nuclideBases.instances if labels.get(nb.name) != nb.label]
    if changed or len(nuclideBases.byLabel) != nlab:
        out.label("global:nuclide-label-changed")
        for nb in nuclideBases.instances:
            if nb.name in labels and labels[nb.name] != nb.label:
                nuclideBases.changeLabel(nb, labels[nb.name])
    bad = [k for k, v in xsCollections.XSCollection._zeroes.items() if np.any(v != 0.0) or v.shape != (k,)]
    out.check(not bad, "global/shared-zero-xs-mutated", lambda: "XSCollection._zeroes%s is no longer all zero" % bad)
    for k in bad:
        xsCollections.XSCollection._zeroes[k] = np.zeros(k)


def _once(out):
    """Keep the first report of each signature (one defect -> one line per case)."""
    seen = set()
    kept = []
    for sig, msg in out.violations:
        if sig not in seen:
            seen.add(sig)
            kept.append((sig, msg))
    out.violations = kept
    return out


def _resolve(case):
    """Library specs with the case-level group counts applied."""
    specs = []
    for s in case["libs"]:
        s = dict(s)
        if case.get("allFW") and s["kind"] == "iso":
            s["base"] = "FW"  # armi/tests/ISOAA: file-wide chi, five scatter blocks, its own group bounds
        if case.get("allFwChi") and s["kind"] == "iso":
            s["fwChi"] = True  # every ISOTXS of the set relies on a file-wide chi
        if s["kind"] == "pmx" and case.get("prodOrder"):
            s["prodOrder"] = case["prodOrder"]  # gamma production matrices up to this Legendre order
        s["ng"] = max(1, case["ng"] + s.pop("ngDelta", 0))
        s["gg"] = max(1, case["gg"] + s.pop("ggDelta", 0))
        specs.append(s)
    return specs


def _files(specs, tag):
    from vp import env

    d = env.scratch_dir()
    paths = []
    for i, s in enumerate(specs):
        p = os.path.join(d, "%s%d.%s" % (tag, i, s["kind"]))
        L.materialise(s, p)
        paths.append(p)
    return paths


def _cleanup(paths):
    for p in paths:
        try:
            os.remove(p)
        except OSError:
            pass


# ------------------------------------------------------------------------------------------------
# reference model of a merged library


class MergeModel:
    """What a library holding the union of some source libraries must contain.

    ``src[i]`` is the snapshot of source library i as armi read it from its file.
    """

    SKIP_META = ("chi", "libraryLabel", "<fileNames>")

    def __init__(self, src, kinds, empty_kind):
        self.src = src
        self.kinds = kinds
        self.empty_kind = empty_kind
        self.members = []
        self.owner = {}  # label -> {kind: source index}
        self.chi_fired = set()  # labels whose isotxs chiFlag was rewritten to 1 (documented)
        self.presented_without_velocity = False
        self.first_velocity = None

    # -- helpers
    def _props(self, i):
        return {k: v for k, v in self.src[i]["props"].items() if v is not None}

    def props(self):
        res = {}
        for i in self.members:
            for k, v in self._props(i).items():
                res.setdefault(k, v)
        return res

    def file_meta(self, kind):
        libs = [i for i in self.members if self.src[i]["meta"][kind].keys() - {"<fileNames>"}]
        if not libs:
            return {"<fileNames>": ()}
        metas = [self.src[i]["meta"][kind] for i in libs]
        merged = dict(metas[0])
        merged["<fileNames>"] = tuple(sorted(f for m in metas for f in m["<fileNames>"]))
        if len(libs) > 1:
            if any("chi" in m for m in metas):
                merged.pop("chi", None)
                merged["fileWideChiFlag"] = 0
            lab = [m.get("libraryLabel") for m in metas if m.get("libraryLabel")]
            if lab:
                merged["libraryLabel"] = lab[0]
        return merged

    def conflicts(self, j):
        """Reasons why source j cannot be added: (stage, detail) tuples."""
        res = []
        mine = self._props(j)
        have = self.props()
        for k, v in mine.items():
            if k != "neutronVelocity" and k in have and have[k] != v:
                res.append(("props", k))
        for kind in L.KINDS:
            mj = self.src[j]["meta"][kind]
            if not (mj.keys() - {"<fileNames>"}):
                continue
            cur = self.file_meta(kind)
            if not (cur.keys() - {"<fileNames>"}):
                continue
            skip = set(self.SKIP_META)
            if "chi" in cur or "chi" in mj:
                skip.add("fileWideChiFlag")
            for k in sorted((set(cur) | set(mj)) - skip):
                if cur.get(k) != mj.get(k):
                    res.append(("meta", "%s:%s" % (kind, k)))
        for lab in self.src[j]["labels"]:
            for kind in L.KINDS:
                if L.has_kind(self.src[j]["nucs"][lab], kind) and kind in self.owner.get(lab, {}):
                    res.append(("nuclide", "%s:%s" % (lab, kind)))
        return res

    def chi_rule_applies(self, j):
        """Both sides hold ISOTXS file metadata and one has a file-wide chi."""
        mj = self.src[j]["meta"]["iso"]
        cur = self.file_meta("iso")
        return bool(mj.keys() - {"<fileNames>"}) and bool(cur.keys() - {"<fileNames>"}) and ("chi" in mj or "chi" in cur)

    def labels_without_iso(self, j):
        mine = [lab for lab, kinds in self.owner.items() if "iso" not in kinds]
        theirs = [lab for lab in self.src[j]["labels"] if not L.has_kind(self.src[j]["nucs"][lab], "iso")]
        return mine + theirs

    def present(self, j):
        """Bookkeeping for anything handed to target.merge(), merged or refused."""
        if "neutronVelocity" not in self._props(j) and self.first_velocity is None:
            self.presented_without_velocity = True

    def add(self, j):
        if self.chi_rule_applies(j):
            for lab, kinds in self.owner.items():
                if "iso" in kinds and self.src[kinds["iso"]]["nucs"][lab]["iso"]["meta"].get("fisFlag", 0) > 0:
                    self.chi_fired.add(lab)
            for lab in self.src[j]["labels"]:
                if self.src[j]["nucs"][lab]["iso"]["meta"].get("fisFlag", 0) > 0:
                    self.chi_fired.add(lab)
        if self.first_velocity is None and "neutronVelocity" in self._props(j):
            self.first_velocity = self._props(j)["neutronVelocity"]
        self.members.append(j)
        for lab in self.src[j]["labels"]:
            for kind in L.KINDS:
                if L.has_kind(self.src[j]["nucs"][lab], kind):
                    self.owner.setdefault(lab, {})[kind] = j

    def expected(self):
        props = {p: None for p in L.PROPS}
        props.update(self.props())
        props["neutronVelocity"] = self.first_velocity
        nucs = {}
        ident = {}
        for lab, kinds in self.owner.items():
            entry = {}
            for kind in L.KINDS:
                if kind in kinds:
                    part = self.src[kinds[kind]]["nucs"][lab][kind]
                    if kind == "iso" and lab in self.chi_fired:
                        part = {"meta": dict(part["meta"], chiFlag=1), "xs": part["xs"]}
                    entry[kind] = part
                else:
                    entry[kind] = self.empty_kind[kind]
            nucs[lab] = entry
            first = self.src[sorted(kinds.values())[0]]["ident"][lab]
            ident[lab] = dict(first, containerIsLib=True)
        labels = sorted(self.owner)
        return {
            "labels": labels,
            "labelCount": len(labels),
            "dictKeys": labels,
            "props": props,
            "meta": {k: self.file_meta(k) for k in L.KINDS},
            "ident": ident,
            "nucs": nucs,
        }


_AREAS = (
    ("labels", "labels"),
    ("labelCount", "labels"),
    ("dictKeys", "labels"),
    ("props", "library-properties"),
    ("meta", "file-metadata"),
    ("ident", "nuclide-identity"),
    ("nucs", "nuclide-data"),
)


def _compare(out, got, want, prefix, what, skip_props=(), only_props=None, skip_areas=()):
    """Compare two snapshots area by area; one signature per area."""
    ok = True
    for key, area in _AREAS:
        if area in skip_areas:
            continue
        a, b = got[key], want[key]
        if key == "props":
            names = [p for p in L.PROPS if p not in skip_props and (only_props is None or p in only_props)]
            a = {p: a[p] for p in names}
            b = {p: b[p] for p in names}
        if a != b:
            ok = False
            out.fail("%s/%s" % (prefix, area), "%s: %s" % (what, L.diff_paths(a, b, key)))
    return ok


def _classify_nuclide_change(before, after, empty_kind):
    """What happened to the per-nuclide data of a target whose merge was refused."""

    def strip(nucs):
        res = {}
        for lab, kinds in nucs.items():
            res[lab] = dict(kinds)
            meta = dict(kinds["iso"]["meta"])
            meta.pop("chiFlag", None)
            res[lab]["iso"] = {"meta": meta, "xs": kinds["iso"]["xs"]}
        return res

    if strip(before) == strip(after):
        return "chiFlag"
    for lab in before:
        if lab in after:
            for kind in L.KINDS:
                if before[lab][kind] != after[lab][kind] and before[lab][kind] != empty_kind[kind]:
                    return "nuclide-data"
    return "nuclides-added"


_KIND_PROPS = {
    "iso": ("neutronEnergyUpperBounds", "neutronVelocity"),
    "gam": ("gammaEnergyUpperBounds",),
    "pmx": ("neutronEnergyUpperBounds", "gammaEnergyUpperBounds", "neutronDoseConversionFactors", "gammaDoseConversionFactors"),
}


def _reread_check(out, lib, snap, prefix, what, tag):
    """Consequence of a lossless merge: each kind of data that every nuclide holds can be written with armi's writer
    and comes back equal from armi's reader.  (Appends to the library's file names: call it last.)"""
    from vp import env

    done = []
    for kind in L.KINDS:
        if not snap["labels"] or not all(L.has_kind(snap["nucs"][lab], kind) for lab in snap["labels"]):
            continue
        path = os.path.join(env.scratch_dir(), "%s_back.%s" % (tag, kind))
        try:
            try:
                L.writer(kind)(lib, path)
            except OSError as exc:
                out.fail(prefix + "/merged-library-not-writable", "%s: %s writer fails: %s" % (what, kind, str(exc)[-300:]))
                continue
            try:
                back = L.library_snapshot(L.reader(kind)(path))
            except OSError as exc:
                out.fail(prefix + "/merged-file-not-readable", "%s: the %s file written from the merged library cannot be read: %s"
                         % (what, kind, str(exc)[-300:]))
                continue
        finally:
            _cleanup([path])
        done.append(kind)
        got = {
            "labels": back["labels"],
            "props": {p: back["props"][p] for p in _KIND_PROPS[kind]},
            "meta": {k: v for k, v in back["meta"][kind].items() if k != "<fileNames>"},
            "nucs": {lab: back["nucs"][lab][kind] for lab in back["labels"]},
        }
        want = {
            "labels": snap["labels"],
            "props": {p: snap["props"][p] for p in _KIND_PROPS[kind]},
            "meta": {k: v for k, v in snap["meta"][kind].items() if k != "<fileNames>"},
            "nucs": {lab: snap["nucs"][lab][kind] for lab in snap["labels"]},
        }
        if got != want:
            out.fail(prefix + "/merged-file-differs", "%s: %s file written from the merged library reads back different: %s"
                     % (what, kind, L.diff_paths(got, want, kind)))
    return done


def _empty_kinds():
    from armi.nuclearDataIO import xsLibraries, xsNuclides

    lib = xsLibraries.IsotxsLibrary()
    _ident, snap = L.nuclide_snapshot(xsNuclides.XSNuclide(lib, "U235AA"))
    return snap


# ------------------------------------------------------------------------------------------------
# part 1: merging 1..4 generated libraries in all orders


def _groups(small, full):
    """Mostly 1..small leading groups of the fixture, now and then its full group structure."""
    return st.tuples(st.integers(1, small), st.sampled_from([0] * 11 + [1])).map(lambda t: full if t[1] else t[0])


def _shift(none_weight):
    """False (mostly), a list of bound indices to move (k of n boundaries), or True (all boundaries)."""
    return st.tuples(st.sampled_from([0] * none_weight + [1, 1, 1, 2]), st.lists(st.integers(0, 6), min_size=1, max_size=3)).map(
        lambda t: False if t[0] == 0 else (t[1] if t[0] == 1 else True))


def _lib_spec(kinds=("iso", "iso", "gam", "pmx"), pool=(0, 1, 2, 3, 4, 7, 24)):
    return st.fixed_dictionaries(
        {
            "kind": st.sampled_from(kinds),
            "base": st.sampled_from(["AA", "AA", "AB"]),
            "suffix": st.sampled_from([0, 0, 0, 1, 1, 2, 3]),
            "nucs": st.tuples(st.sampled_from([2, 3, 4, 2, 3, 1]), st.lists(st.sampled_from(pool), min_size=4, max_size=4)).map(
                lambda t: t[1][: t[0]]),
            "scale": st.integers(0, 3),
            "ngDelta": st.sampled_from([0] * 19 + [1]),
            "ggDelta": st.sampled_from([0] * 19 + [1]),
            "shiftE": _shift(14),
            "shiftG": _shift(24),
            "band": st.sampled_from([0, 0, 1, 2]),
            "dropRx": st.lists(st.integers(0, 4), max_size=2),
            "dropBlocks": st.lists(st.integers(0, 5), max_size=2),
            "dropFission": st.sampled_from([False, False, False, True]),
            "fwChi": st.sampled_from([False, False, True]),
            "dose": st.sampled_from([0, 0, 0, 1, 2]),
            "dropHeating": st.sampled_from([False, False, False, True]),
        }
    )


def _family():
    """ISOTXS/GAMISO/PMATRX files of one xs ID holding the same nuclides (what a lattice run produces)."""

    def build(t):
        proto, kinds, scales = t
        res = []
        for k, sc in zip(kinds, scales):
            s = dict(proto, kind=k, scale=sc)
            res.append(s)
        return res

    return st.tuples(
        _lib_spec(),
        st.lists(st.sampled_from(L.KINDS), min_size=1, max_size=3, unique=True),
        st.lists(st.integers(0, 3), min_size=3, max_size=3),
    ).map(build)


def merge_strategy(tier):
    free = st.lists(_lib_spec(), min_size=2, max_size=4)
    single = st.lists(_lib_spec(), min_size=1, max_size=1)
    fams = st.lists(_family(), min_size=2, max_size=3).map(lambda ls: [s for fam in ls for s in fam][:4])

    def chi_set(t):
        """2-3 ISOTXS of different xs IDs that all rely on a file-wide chi and hold a fissile nuclide (+ maybe a GAMISO)."""
        isos, extra = t
        res = [dict(s, kind="iso", suffix=i, fwChi=True, dropFission=False, nucs=[s["scale"] % 3] + s["nucs"], ngDelta=0, shiftE=False)
               for i, s in enumerate(isos)]
        if extra["kind"] == "gam":
            res.append(dict(extra, suffix=0, ggDelta=0, shiftE=False))
        return res

    chis = st.tuples(st.lists(_lib_spec(), min_size=2, max_size=3), _lib_spec()).map(chi_set)
    return st.fixed_dictionaries(
        {
            "ng": _groups(6, 33),
            "gg": _groups(4, 21),
            "startEmpty": st.booleans(),
            "allFW": st.sampled_from([False] * 7 + [True]),
            "allFwChi": st.sampled_from([False, False, False, True]),
            "prodOrder": st.sampled_from([1, 3, 2, 4, 3]),
            # (one_of would merge repeated alternatives, so the weights are drawn explicitly)
            "libs": st.tuples(st.integers(0, 13), free, fams, single, chis).map(
                lambda t: t[3] if t[0] == 0 else t[1] if t[0] <= 4 else t[2] if t[0] <= 9 else t[4]),
        }
    )


def merge_execute(case):
    from armi.nuclearDataIO import xsLibraries

    out = Out()
    guard = _global_guard()
    specs = _resolve(case)
    n = len(specs)
    paths = _files(specs, "m")
    try:
        kinds = [s["kind"] for s in specs]
        src = [L.library_snapshot(L.reader(k)(p)) for k, p in zip(kinds, paths)]
        # the generator's promise: each file holds the requested labels
        for s, sn in zip(specs, src):
            want = sorted(L.spec_labels(s)[1])
            if sn["labels"] != want:
                raise RuntimeError("generator: file holds %s, wanted %s" % (sn["labels"], want))
        empty_kind = _empty_kinds()
        probe = MergeModel(src, kinds, empty_kind)
        set_conflicts = []
        for j in range(n):
            set_conflicts.extend(probe.conflicts(j))
            probe.add(j)
        compatible = not set_conflicts
        sizes = [len(sn["labels"]) for sn in src]
        out.nontrivial = n >= 2 and sum(1 for x in sizes if x >= 2) >= 2
        out.label("libs:%d" % n, "set:compatible" if compatible else "set:conflicting",
                  "kinds:" + "+".join(sorted(set(kinds))))
        for st_ in sorted({c[0] for c in set_conflicts}):
            out.label("conflict:" + st_)
        if any("chi" in sn["meta"]["iso"] for sn in src):
            out.label("filewide-chi")
        if any(sn["props"]["neutronDoseConversionFactors"] is not None for sn in src):
            out.label("dose-factors")
        if len({tuple(sn["labels"]) for sn in src}) < n:
            out.label("labels:identical-sets")
        allsets = [set(sn["labels"]) for sn in src]
        if any(a & b and a != b for a, b in itertools.combinations(allsets, 2)):
            out.label("labels:partial-overlap")
        velocities = {sn["props"]["neutronVelocity"] for sn in src if sn["props"]["neutronVelocity"] is not None}

        finals = []
        labs = set()
        for perm in itertools.permutations(range(n)):
            order = list(perm)
            model = MergeModel(src, kinds, empty_kind)
            if case["startEmpty"]:
                target = xsLibraries.IsotxsLibrary()
            else:
                first = order.pop(0)
                target = L.reader(kinds[first])(paths[first])
                model.add(first)
            what0 = "order %s%s" % (list(perm), "" if case["startEmpty"] else " (first is the target)")
            aborted = False
            clean = True
            last = None
            for j in order:
                what = "%s, merging #%d (%s)" % (what0, j, kinds[j])
                reasons = model.conflicts(j)
                before = last if last is not None else L.library_snapshot(target)
                other = L.reader(kinds[j])(paths[j])
                chi_rule = model.chi_rule_applies(j)
                crash_shape = chi_rule and bool(model.labels_without_iso(j)) and not any(r[0] == "props" for r in reasons)
                if crash_shape and _excluded(case, "merge/filewide-chi-crash-on-nuclide-without-isotxs"):
                    labs.add("excluded:merge/filewide-chi-crash-on-nuclide-without-isotxs")
                    aborted = True
                    break
                model.present(j)
                try:
                    target.merge(other)
                    refused = None
                except _refusals() as exc:
                    refused = exc
                except TypeError:
                    if crash_shape:
                        out.fail("merge/filewide-chi-crash-on-nuclide-without-isotxs",
                                 "%s: TypeError while dropping the file-wide chi; the target holds nuclides without ISOTXS data %s"
                                 % (what, sorted(model.labels_without_iso(j))[:4]))
                        aborted = True
                        break
                    raise
                after = last = L.library_snapshot(target)
                vel_masked = model.presented_without_velocity and _excluded(case, "merge/neutron-velocity-lost")
                if not reasons:
                    if not out.check(refused is None, "merge/compatible-refused",
                                     lambda: "%s: refused with %s: %s" % (what, type(refused).__name__, str(refused)[:200])):
                        aborted = True
                        break
                    model.add(j)
                    want = model.expected()
                    skip = ()
                    if model.presented_without_velocity and want["props"]["neutronVelocity"] is not None:
                        if vel_masked:
                            labs.add("excluded:merge/neutron-velocity-lost")
                            skip = ("neutronVelocity",)
                        elif after["props"]["neutronVelocity"] is None:
                            out.fail("merge/neutron-velocity-lost",
                                     "%s: neutronVelocity is None although an ISOTXS library with velocities was merged "
                                     "(a library without velocities was merged first)" % what)
                            skip = ("neutronVelocity",)
                    if not _compare(out, after, want, "merge", what, skip_props=skip):
                        if clean:  # the consequence, judged without the model: can the merged library still be written/read?
                            _reread_check(out, target, after, "merge", what, "m")
                        aborted = True
                        break
                else:
                    clean = False
                    stages = {r[0] for r in reasons}
                    if not out.check(refused is not None, "merge/conflict-accepted",
                                     lambda: "%s: accepted although %s" % (what, reasons[:3])):
                        aborted = True
                        break
                    labs.add("refused:" + type(refused).__name__)
                    # target must be unchanged
                    skip_areas = []
                    only_props = None
                    stop = False
                    new_props = [p for p, v in src[j]["props"].items() if v is not None and before["props"][p] is None]
                    if new_props:
                        sig = "merge/refused-target-changed/library-properties"
                        if _excluded(case, sig):
                            labs.add("excluded:" + sig)
                            only_props = [p for p in L.PROPS if before["props"][p] is not None]
                            stop = True
                    nuclide_stage_only = stages == {"nuclide"}
                    if nuclide_stage_only:
                        conflicting = {r[1] for r in reasons}
                        brings = {"%s:%s" % (lab, k) for lab in src[j]["labels"] for k in L.KINDS
                                  if L.has_kind(src[j]["nucs"][lab], k)}
                        if brings - conflicting:
                            sig = "merge/refused-target-changed/nuclides-added"
                            if _excluded(case, sig):
                                labs.add("excluded:" + sig)
                                skip_areas += ["labels", "nuclide-identity", "nuclide-data"]
                                stop = True
                    if chi_rule and "props" not in stages:
                        sig = "merge/refused-target-changed/chiFlag"
                        if _excluded(case, sig):
                            labs.add("excluded:" + sig)
                            skip_areas += ["nuclide-data"]
                            stop = True
                    same = True
                    for key, area in _AREAS:
                        if area in skip_areas:
                            continue
                        a, b = after[key], before[key]
                        if key == "props" and only_props is not None:
                            a = {p: a[p] for p in only_props}
                            b = {p: b[p] for p in only_props}
                        if a != b:
                            same = False
                            sig = "merge/refused-target-changed/" + area
                            if area == "library-properties":
                                pass
                            elif area in ("labels", "nuclide-identity"):
                                sig = "merge/refused-target-changed/nuclides-added"
                            elif area == "nuclide-data":
                                sig = "merge/refused-target-changed/" + _classify_nuclide_change(b, a, empty_kind)
                            out.fail(sig, "%s: refused (%s) but the target changed: %s"
                                     % (what, type(refused).__name__, L.diff_paths(a, b, key)))
                    if not same or stop:
                        aborted = True
                        break
            if not aborted and clean and model.members:
                final = last if last is not None else L.library_snapshot(target)
                finals.append((list(perm), final, model.presented_without_velocity))
                if compatible and (n <= 3 or len(finals) % 5 == 1):
                    if _reread_check(out, target, final, "merge", what0, "m"):
                        labs.add("written-back")
        # order independence, judged without the model: every complete order of a compatible set gives one snapshot
        if compatible and len(finals) > 1:
            ref_perm, ref, _ = finals[0]
            for perm, snap, pwv in finals[1:]:
                # (a velocity lost after a velocity-less library is reported under its own signature)
                skip = ("neutronVelocity",) if (len(velocities) > 1 or pwv or finals[0][2]) else ()
                _compare(out, snap, ref, "merge/order-dependent", "orders %s and %s" % (perm, ref_perm), skip_props=skip)
            out.label("orders:%d" % len(finals))
        out.label(*sorted(labs))
    finally:
        _cleanup(paths)
        _global_check(out, guard)
    return _once(out)


# ------------------------------------------------------------------------------------------------
# part 2: macroscopic constants on a merged library


def _dens():
    f = st.floats(1e-6, 0.1, allow_nan=False, allow_infinity=False)
    return st.tuples(st.sampled_from([1, 1, 1, 1, 1, 1, 0]), f).map(lambda t: 0.0 if t[0] == 0 else t[1])


def macro_strategy(tier):
    return st.fixed_dictionaries(
        {
            "ng": _groups(6, 33),
            "gg": _groups(4, 21),
            "base": st.sampled_from(["AA", "AB"]),
            "suffix": st.integers(0, 3),
            "nucs": st.one_of(
                st.lists(st.integers(0, 24), min_size=3, max_size=6, unique=True),
                st.lists(st.integers(0, 24), min_size=2, max_size=5, unique=True).flatmap(
                    lambda l: st.sampled_from([0, 1, 2]).map(lambda f: [f] + [x for x in l if x != f])),
                st.lists(st.integers(0, 24), min_size=2, max_size=5, unique=True).flatmap(
                    lambda l: st.sampled_from([0, 1, 2]).map(lambda f: [x for x in l if x != f] + [f])),
                st.lists(st.integers(0, 24), min_size=1, max_size=2, unique=True),
            ),
            "scales": st.lists(st.integers(0, 3), min_size=3, max_size=3),
            "band": st.sampled_from([0, 0, 1, 2]),
            "dropRx": st.lists(st.integers(0, 4), max_size=2),
            "dropBlocks": st.lists(st.sampled_from([1, 2, 3, 4, 5]), max_size=2),
            "dropFission": st.sampled_from([False, False, False, True]),
            "fwChi": st.sampled_from([False, False, True]),
            "order": st.integers(0, 5),
            "dens": st.lists(_dens(), min_size=6, max_size=6),
            "dens2": st.lists(_dens(), min_size=6, max_size=6),
            "a": st.floats(0.0, 8.0, allow_nan=False),
            "b": st.floats(0.0, 8.0, allow_nan=False),
            "split": st.lists(st.booleans(), min_size=6, max_size=6),
            "empty": st.sampled_from([False] * 14 + [True]),
            "missing": st.sampled_from(["none", "none", "absent", "otherSuffix", "unknownName"]),
            "multLib": st.sampled_from(["none", "variant", "variant", "variant", "lacking"]),
            "multVariant": st.integers(1, 3),
            "minDens": st.sampled_from([0.0, 1e-13, 1e-3, 1e-3]),
            "trace": st.integers(0, 5),  # with minDens 1e-3 this nuclide is present at 2.5e-4
            "realBlock": st.booleans(),
            "prodOrder": st.sampled_from([1, 3, 2, 4]),
            "upscatter": st.sampled_from([0, 1, 2, 0, 3]),
            "zeroEcapt": st.lists(st.integers(0, 5), max_size=2),
            "zeroEfiss": st.lists(st.integers(0, 5), max_size=2),
            "deleteMode": st.sampled_from(["del", "del", "purge", "none"]),
            "delete": st.integers(0, 5),
        }
    )


class _DuckBlock:
    """The four methods MacroscopicCrossSectionCreator asks of a block."""

    def __init__(self, dens, suffix):
        self._d = dict(dens)
        self._s = suffix

    def __repr__(self):
        return "<duck block>"

    def getNuclides(self):
        return list(self._d)

    def getMicroSuffix(self):
        return self._s

    def getNuclideNumberDensities(self, names):
        return [self._d.get(n, 0.0) for n in names]

    def getNumberDensities(self):
        return dict(self._d)

    def getNumberDensity(self, name):
        return self._d.get(name, 0.0)


def _real_block(dens, suffix):
    from armi.reactor import blocks, components

    b = blocks.HexBlock("fuel", height=10.0)
    c = components.Circle("c", "Void", Tinput=25.0, Thot=25.0, id=0.0, od=1.0, mult=1)
    b.add(c)
    c.setNumberDensities(dict(dens))
    b.p.xsType = suffix[0]
    b.p.envGroup = suffix[1]
    return b


def _close(out, got, want, scale, sig, msg):
    """|got - want| <= 1e-10 * scale elementwise (scale = sum of |terms|)."""
    import numpy as np

    if got is None:
        out.fail(sig, "%s: result is None" % msg)
        return False
    g = np.asarray(got, dtype=float)
    w = np.asarray(want, dtype=float)
    if g.shape != w.shape:
        out.fail(sig, "%s: shape %s, expected %s" % (msg, g.shape, w.shape))
        return False
    tol = 1e-10 * np.asarray(scale, dtype=float) + 1e-300
    bad = np.abs(g - w) > tol
    if bad.any():
        k = tuple(int(x) for x in np.argwhere(bad)[0])
        out.fail(sig, "%s: element %s is %r, expected %r" % (msg, k, float(g[k]), float(w[k])))
        return False
    return True


def macro_execute(case):
    import numpy as np

    from armi.nuclearDataIO import xsCollections as xc
    from armi.nuclearDataIO import xsLibraries
    from armi.utils import units

    out = Out()
    guard = _global_guard()
    common = {k: case[k] for k in ("base", "suffix", "nucs", "band", "dropRx", "dropBlocks", "dropFission", "fwChi")}
    specs = [dict(common, kind=k, scale=sc, ng=case["ng"], gg=case["gg"], prodOrder=case.get("prodOrder", 1),
                  zeroEcapt=case.get("zeroEcapt", []), zeroEfiss=case.get("zeroEfiss", []), upscatter=case.get("upscatter", 0))
             for k, sc in zip(L.KINDS, case["scales"])]
    paths = _files(specs, "x")
    try:
        ref = [L.reader(k)(p) for k, p in zip(L.KINDS, paths)]  # reference copies, never merged
        order = list(itertools.permutations(range(3)))[case["order"] % 6]
        lib = xsLibraries.IsotxsLibrary()
        for j in order:
            lib.merge(L.reader(L.KINDS[j])(paths[j]))
        suffix = L.SUFFIXES[case["suffix"] % 4]
        labels = [str(x) for x in ref[0].nuclideLabels]
        names = [ref[0][lab].name for lab in labels]
        nn = len(names)
        ng = ref[0].numGroups
        gg = ref[1].numGroupsGamma
        lib_before = L.library_snapshot(lib)

        def comp(dens):
            return {names[i]: float(dens[i]) for i in range(nn)}

        d1 = [0.0] * 6 if case.get("empty") else list(case["dens"])
        trace = case["minDens"] >= 1e-6 and not case.get("empty")
        if trace:
            d1[case.get("trace", 0) % nn] = 2.5e-4
            out.label("trace-nuclide-below-minimum")
        N1 = comp(d1)
        N2 = comp(case["dens2"])
        a, b = case["a"], case["b"]
        N3 = {k: a * N1[k] + b * N2[k] for k in N1}
        P = {k: v for i, (k, v) in enumerate(N1.items()) if case["split"][i]}
        Q = {k: v for i, (k, v) in enumerate(N1.items()) if not case["split"][i]}
        nz = lambda d: {k: v for k, v in d.items() if v}  # noqa: E731
        has_fis = any(ref[0][lab].isotxsMetadata["fisFlag"] > 0 and N1[nm] for lab, nm in zip(labels, names))
        out.nontrivial = len(nz(N1)) >= 3 and has_fis
        out.label("nuclides:%d" % nn, "nonzero:%d" % len(nz(N1)), "fissile" if has_fis else "no-fissile",
                  "missing:" + case["missing"])

        # ---- micro data of the sources, indexed like ``names``
        def src_arr(getter):
            return [np.asarray(getter(i), dtype=float) for i in range(nn)]

        iso = [ref[0][lab] for lab in labels]
        if any(m_ is not None and np.triu(m_.toarray(), 1).any() for x_ in iso
               for m_ in (x_.micros.elasticScatter, x_.micros.inelasticScatter, x_.micros.n2nScatter)):
            out.label("up-scatter")  # entries above the diagonal survived the write/read
        gam = [ref[1][lab] for lab in labels]
        pmx = [ref[2][lab] for lab in labels]

        def refsum(dens, arrs, mult=None):
            """sum_n N_n sigma_n (mult_n) and the sum of magnitudes, accumulated in reverse order."""
            tot = np.zeros(arrs[0].shape)
            mag = np.zeros(arrs[0].shape)
            for i in reversed(range(nn)):
                term = dens[names[i]] * arrs[i] * (1.0 if mult is None else mult[i])
                tot = tot + term
                mag = mag + np.abs(term)
            return tot, mag

        constants = []  # (tag, callable(dens) -> armi result, arrays, mult)
        for rx in ("nGamma", "fission", "n2n", "nalph", "np", "nd", "nt", "total", "transport"):
            constants.append(("micros." + rx,
                              lambda d, rx=rx: xc.computeMacroscopicGroupConstants(rx, d, lib, suffix, libType="micros"),
                              src_arr(lambda i, rx=rx: getattr(iso[i].micros, rx)), None))
        for rx in ("nGamma", "total"):
            constants.append(("gammaXS." + rx,
                              lambda d, rx=rx: xc.computeMacroscopicGroupConstants(rx, d, lib, suffix, libType="gammaXS"),
                              src_arr(lambda i, rx=rx: getattr(gam[i].gammaXS, rx)), None))
        for attr in ("neutronHeating", "neutronDamage", "gammaHeating"):
            constants.append(("nuclide." + attr,
                              lambda d, attr=attr: xc.computeMacroscopicGroupConstants(attr, d, lib, suffix),
                              src_arr(lambda i, attr=attr: getattr(pmx[i], attr)), None))
        constants.append(("nuSigF",
                          lambda d: xc.computeMacroscopicGroupConstants("fission", d, lib, suffix, libType="micros",
                                                                        multConstant="neutronsPerFission"),
                          src_arr(lambda i: iso[i].micros.fission), src_arr(lambda i: iso[i].micros.neutronsPerFission)))
        # ---- multipliers taken from a second library (multLib): same nuclides and groups, other nu / efiss / ecapt
        mode = case.get("multLib", "none")
        if mode != "none":
            mnucs = L.spec_labels(specs[0])[0]
            if mode == "lacking" and len(mnucs) >= 2:
                mnucs = mnucs[:-1]
            mspec = dict(specs[0], nucs=mnucs, multVariant=case.get("multVariant", 1), scale=(case["scales"][0] + 1) % 4,
                         zeroEcapt=[z + 1 for z in case.get("zeroEcapt", [])], zeroEfiss=[z + 1 for z in case.get("zeroEfiss", [])])
            mpath = _files([mspec], "xm")[0]
            paths.append(mpath)
            mlib = L.reader("iso")(mpath)
            mref = L.reader("iso")(mpath)
            have = [lab in mref for lab in labels]
            out.label("multLib:" + ("lacking-nuclide" if not all(have) else "all-nuclides"))
            # (a nuclide that multLib lacks is skipped without an error: "not in multiplier library" debug message)

            def mult_of(getter):
                return [np.asarray(getter(mref[lab]), dtype=float) * 1.0 if h else np.asarray(0.0) for lab, h in zip(labels, have)]

            for tag, rx, mc_, getter in (
                ("nuSigF", "fission", "neutronsPerFission", lambda x: x.micros.neutronsPerFission),
                ("fissionEnergy", "fission", "efiss", lambda x: x.isotxsMetadata["efiss"]),
                ("captureEnergy", "nGamma", "ecapt", lambda x: x.isotxsMetadata["ecapt"]),
            ):
                constants.append((tag + ".multLib",
                                  lambda d, rx=rx, mc_=mc_: xc.computeMacroscopicGroupConstants(
                                      rx, d, lib, suffix, libType="micros", multConstant=mc_, multLib=mlib),
                                  src_arr(lambda i, rx=rx: getattr(iso[i].micros, rx)), mult_of(getter)))
        efiss = [float(x.isotxsMetadata["efiss"]) for x in iso]
        ecapt = [float(x.isotxsMetadata["ecapt"]) for x in iso]
        constants.append(("fissionEnergy", lambda d: xc.computeFissionEnergyGenerationConstants(d, lib, suffix),
                          src_arr(lambda i: iso[i].micros.fission), efiss))
        capt = [sum(np.asarray(getattr(x.micros, rx), dtype=float) for rx in xc.CAPTURE_XS) for x in iso]
        constants.append(("captureEnergy", lambda d: xc.computeCaptureEnergyGenerationConstants(d, lib, suffix),
                          capt, ecapt))
        jev = units.JOULES_PER_eV
        constants.append(("neutronDeposition", lambda d: xc.computeNeutronEnergyDepositionConstants(d, lib, suffix),
                          src_arr(lambda i: pmx[i].neutronHeating), [jev] * nn))
        constants.append(("gammaDeposition", lambda d: xc.computeGammaEnergyDepositionConstants(d, lib, suffix),
                          src_arr(lambda i: pmx[i].gammaHeating), [jev] * nn))

        sig_empty = "macro/empty-composition-not-zero"
        labs = set()

        def evaluate(tag, fn, dens, shape):
            """armi's value for a composition; the empty composition is the known-defect shape."""
            if not nz(dens):
                if _excluded(case, sig_empty):
                    labs.add("excluded:" + sig_empty)
                    return np.zeros(shape)
                try:
                    val = fn(dens)
                except TypeError as exc:
                    out.fail(sig_empty, "%s for the empty composition raises TypeError: %s" % (tag, str(exc)[:120]))
                    return np.zeros(shape)
                if val is None or not isinstance(val, np.ndarray) or np.any(val != 0.0):
                    out.fail(sig_empty, "%s for the empty composition is %r, expected zeros" % (tag, val))
                    return np.zeros(shape)
                # any all-zero array is "zero" (without a contributing nuclide armi cannot know that e.g. `total` is
                # groups x Legendre orders); normalise to the reference shape for the relational checks below
                return np.zeros(shape)
            return fn(dens)

        for tag, fn, arrs, mult in constants:
            shape = arrs[0].shape
            e1, m1 = refsum(N1, arrs, mult)
            g1 = evaluate(tag, fn, N1, shape)
            if not _close(out, g1, e1, m1, "macro/weighted-sum", "%s of %s" % (tag, nz(N1))):
                continue
            out.check(isinstance(g1, np.ndarray), "macro/result-type", lambda: "%s returns %s" % (tag, type(g1).__name__))
            # zero densities and explicit zeros are the same composition
            if nz(N1) and len(nz(N1)) < len(N1):
                _close(out, fn(nz(N1)), g1, m1 * 0.0, "macro/zero-density-entries", tag)
            # linearity
            g2 = evaluate(tag, fn, N2, shape)
            g3 = evaluate(tag, fn, N3, shape)
            _e2, m2 = refsum(N2, arrs, mult)
            _close(out, g3, a * np.asarray(g1) + b * np.asarray(g2), a * m1 + b * m2, "macro/linearity",
                   "%s: f(a N1 + b N2) vs a f(N1) + b f(N2), a=%r b=%r" % (tag, a, b))
            # additivity over a partition of the nuclides
            gp = evaluate(tag, fn, P, shape)
            gq = evaluate(tag, fn, Q, shape)
            _close(out, np.asarray(gp) + np.asarray(gq), g1, m1, "macro/additivity",
                   "%s: f(P) + f(Q) vs f(P u Q), P=%s" % (tag, sorted(P)))

        # ---- a nuclide that is not in the library
        if case["missing"] != "none":
            if case["missing"] == "absent":
                allnames = [x.name for x in L._base("iso", case["base"]).nuclides]
                cand = [x for x in allnames if x not in names]
                miss, sfx = (cand[0] if cand else "H1"), suffix
            elif case["missing"] == "otherSuffix":
                miss, sfx = names[0], L.SUFFIXES[(case["suffix"] + 1) % 4]
            else:
                miss, sfx = "XX999", suffix
            bad = dict(nz(N1))
            bad[miss] = 0.01
            for tag, call in (
                ("computeMacroscopicGroupConstants", lambda: xc.computeMacroscopicGroupConstants("nGamma", bad, lib, sfx, libType="micros")),
                ("computeFissionEnergyGenerationConstants", lambda: xc.computeFissionEnergyGenerationConstants(bad, lib, sfx)),
                ("createMacrosFromMicros", lambda: xc.MacroscopicCrossSectionCreator().createMacrosFromMicros(lib, _DuckBlock(bad, sfx))),
            ):
                try:
                    res = call()
                    out.fail("macro/missing-nuclide-accepted", "%s with %s%s not in the library returns %s" % (tag, miss, sfx, type(res).__name__))
                except ValueError:
                    pass

        # ---- MacroscopicCrossSectionCreator on a duck-typed and on a real block
        blocks_ = [("duck", _DuckBlock(N1, suffix))]
        if case["realBlock"]:
            blocks_.append(("real", _real_block(N1, suffix)))
            out.label("real-block")
        for bname, blk in blocks_:
            if not nz(N1):
                if _excluded(case, sig_empty):
                    labs.add("excluded:" + sig_empty)
                    continue
                try:
                    m = xc.MacroscopicCrossSectionCreator(minimumNuclideDensity=case["minDens"]).createMacrosFromMicros(lib, blk)
                    out.check(m.absorption is not None and not np.any(m.absorption) and not np.any(m.nuSigF if m.nuSigF is not None else 1),
                              sig_empty, "creator on the empty %s block does not give zero macros" % bname)
                except TypeError as exc:
                    out.fail(sig_empty, "creator on the empty %s block raises TypeError: %s" % (bname, str(exc)[:120]))
                continue
            dens = {k: float(v) for k, v in zip(names, blk.getNuclideNumberDensities(names))}
            minD = case["minDens"]
            # the composition the creator selects: nuclides above minimumNuclideDensity (vectors AND scatter matrices)
            sel = {k: (v if v > minD else 0.0) for k, v in dens.items()}
            keys = sorted(k for k, v in sel.items() if v)
            if not keys:
                labs.add("all-below-minimum")
                continue
            chi_coll = [x.micros for x in iso]
            for libType, nucs, G in (("micros", iso, ng), ("gammaXS", gam, gg)):
                coll = [getattr(x, libType) for x in nucs]
                what = "%s block, %s, minimumNuclideDensity=%g" % (bname, libType, minD)
                mc = xc.MacroscopicCrossSectionCreator(minimumNuclideDensity=minD)
                m = mc.createMacrosFromMicros(lib, blk, libType=libType)
                _creator_compare(out, np, xc, m, coll, chi_coll, names, sel, G, ng, what, chi_dens=dens)
                # the mode without scatter matrices: vectors as before, removal = absorption - n2n, no matrix entries
                m0 = xc.MacroscopicCrossSectionCreator(buildScatterMatrix=False, minimumNuclideDensity=minD).createMacrosFromMicros(
                    lib, blk, libType=libType)
                _creator_compare(out, np, xc, m0, coll, chi_coll, names, sel, G, ng, what + ", buildScatterMatrix=False",
                                 chi_dens=dens, prefix="creator-nomatrix", matrices=False)
                # the block-list entry point must give each block the macros of the requested libType
                blk.macros = None
                ret = mc.createMacrosOnBlocklist(lib, [blk], libType=libType)
                out.check(isinstance(ret, list) and len(ret) == 1 and ret[0] is blk and blk.macros is not None,
                          "creator-blocklist/result", lambda: "%s: createMacrosOnBlocklist returns %r, macros %r" % (what, ret, blk.macros))
                if blk.macros is not None:
                    _creator_compare(out, np, xc, blk.macros, coll, chi_coll, names, sel, G, ng, what + ", createMacrosOnBlocklist",
                                     chi_dens=dens, prefix="creator-blocklist")
                _close(out, m.absorption, sum(np.asarray(m[rx]) for rx in reversed(xc.ABSORPTION_XS)),
                       sum(np.abs(np.asarray(m[rx])) for rx in xc.ABSORPTION_XS), "creator/absorption",
                       what + " (sum of the macros' own parts)")
                # a subset of the block's nuclides through nucNames: vectors, scatter matrices and removal all follow it
                if len(keys) >= 2:
                    sub = keys[(case["order"] % 2) :: 2]
                    ms = mc.createMacrosFromMicros(lib, blk, nucNames=list(sub), libType=libType)
                    subd = {k: (v if k in sub else 0.0) for k, v in sel.items()}
                    _creator_compare(out, np, xc, ms, coll, chi_coll, names, subd, G, ng, "%s, nucNames=%s" % (what, sub),
                                     chi_dens=dens)
                    labs.add("nucNames-subset")
            # additivity through the nucNames argument
            if len(nz(N1)) >= 2:
                mc = xc.MacroscopicCrossSectionCreator()
                full = mc.createMacrosFromMicros(lib, blk)
                fullv = {rx: np.array(full[rx]) for rx in ("nGamma", "fission", "absorption", "nuSigF")}
                fulls = full.totalScatter.toarray()
                keys = sorted(nz(N1))
                h = len(keys) // 2
                pa = mc.createMacrosFromMicros(lib, blk, nucNames=keys[:h])
                pav = {rx: np.array(pa[rx]) for rx in fullv}
                pas = pa.totalScatter.toarray()
                pb = mc.createMacrosFromMicros(lib, blk, nucNames=keys[h:])
                for rx in fullv:
                    _close(out, pav[rx] + np.array(pb[rx]), fullv[rx], (np.abs(pav[rx]) + np.abs(pb[rx])) * 4, "creator/additivity",
                           "%s block %s" % (bname, rx))
                pbs = pb.totalScatter.toarray()
                _close(out, pas + pbs, fulls, (np.abs(pas) + np.abs(pbs)) * 4, "creator/additivity", "%s block totalScatter" % bname)

        # ---- XSCollection.getTotalScatterMatrix on the microscopic collections
        for x in iso + gam:
            for c in (x.micros, x.gammaXS):
                present = [k for k in xc.BASIC_SCAT_MATRIX if c[k] is not None]
                if not present:
                    continue
                G = c[present[0]].shape[0]
                want = np.zeros((G, G))
                mag = np.zeros((G, G))
                for k in present:
                    f = 2.0 if k == "n2nScatter" else 1.0
                    want = want + f * c[k].toarray()
                    mag = mag + f * np.abs(c[k].toarray())
                sig = "collection/total-scatter-missing-n2n"
                if c.n2nScatter is None:
                    if _excluded(case, sig):
                        labs.add("excluded:" + sig)
                        continue
                    try:
                        got = c.getTotalScatterMatrix()
                    except TypeError as exc:
                        out.fail(sig, "getTotalScatterMatrix raises TypeError (%s) when n2nScatter is absent; the docstring says "
                                      "an absent matrix is skipped" % str(exc)[:80])
                        continue
                else:
                    got = c.getTotalScatterMatrix()
                _close(out, got.toarray() if hasattr(got, "toarray") else got, want, mag, "collection/total-scatter",
                       "%s present=%s" % (x.containerKey, present))

        out.label(*sorted(labs))
        # nothing above may change the library
        after = L.library_snapshot(lib)
        _compare(out, after, lib_before, "macro/library-mutated", "after computing macroscopic constants")

        # ---- history: nuclides removed after the merge (del / purgeFissionProducts); the library must then hold exactly
        # the remaining nuclides and the removed ones count as missing
        dmode = case.get("deleteMode", "none")
        if dmode != "none" and nn >= 1:
            k = case.get("delete", 0) % nn
            gone = [k] if dmode == "del" else sorted({k, (k + 2) % nn})
            if dmode == "del":
                del lib[labels[k]]
            else:
                class _R:  # what purgeFissionProducts asks of a reactor
                    class blueprints:
                        allNuclidesInProblem = [names[i] for i in range(nn) if i not in gone]

                lib.purgeFissionProducts(_R)
            out.label("removed:%s" % dmode)
            want = dict(after)
            keep = [lab for i, lab in enumerate(labels) if i not in gone]
            want["labels"] = want["dictKeys"] = sorted(keep)
            want["labelCount"] = len(keep)
            want["ident"] = {lab: after["ident"][lab] for lab in keep}
            want["nucs"] = {lab: after["nucs"][lab] for lab in keep}
            _compare(out, L.library_snapshot(lib), want, "removal", "after removing %s" % [labels[i] for i in gone])
            for i in gone:
                lab, nm = labels[i], names[i]
                out.check(lab not in lib and lib.get(lab, None) is None, "removal/still-found",
                          lambda: "%s removed but `in`/get() still find it: %r" % (lab, lib.get(lab, None)))
                try:
                    found = lib.getNuclide(nm, suffix)
                except KeyError:
                    found = None
                out.check(found is None, "removal/still-found", lambda: "getNuclide(%r, %r) returns %r after its removal" % (nm, suffix, found))
                comp_gone = dict(nz(N1))
                comp_gone[nm] = 0.01
                for tag, call in (
                    ("computeMacroscopicGroupConstants", lambda: xc.computeMacroscopicGroupConstants("nGamma", comp_gone, lib, suffix, libType="micros")),
                    ("createMacrosFromMicros", lambda: xc.MacroscopicCrossSectionCreator().createMacrosFromMicros(lib, _DuckBlock(comp_gone, suffix))),
                ):
                    try:
                        res = call()
                        out.fail("removal/removed-nuclide-still-counted", "%s for a composition naming the removed %s returns %s instead "
                                 "of raising ValueError" % (tag, nm, type(res).__name__))
                    except ValueError:
                        pass
            rest = {names[i]: N1[names[i]] for i in range(nn) if i not in gone}
            if nz(rest):
                for rx in ("nGamma", "fission"):
                    arrs = [np.asarray(getattr(iso[i].micros, rx), dtype=float) for i in range(nn)]
                    e, mg = refsum(dict(rest, **{names[i]: 0.0 for i in gone}), arrs)
                    _close(out, xc.computeMacroscopicGroupConstants(rx, rest, lib, suffix, libType="micros"), e, mg,
                           "removal/weighted-sum", "%s over the remaining nuclides" % rx)
    finally:
        _cleanup(paths)
        _global_check(out, guard)
    return _once(out)


# ------------------------------------------------------------------------------------------------
# part 3: mergeXSLibrariesInWorkingDirectory on generated ISOxx / xx.gamiso / xx.pmatrx files


def workdir_strategy(tier):
    fam = st.fixed_dictionaries(
        {
            "base": st.sampled_from(["AA", "AB"]),
            "nucs": st.lists(st.sampled_from([0, 1, 2, 3, 4, 7, 24]), min_size=1, max_size=4),
            "scales": st.lists(st.integers(0, 3), min_size=3, max_size=3),
            "band": st.sampled_from([0, 0, 1, 2]),
            "dropRx": st.lists(st.integers(0, 4), max_size=2),
            "dropBlocks": st.lists(st.integers(0, 5), max_size=2),
            "fwChi": st.sampled_from([False, False, False, True]),
            "ngDelta": st.sampled_from([0] * 9 + [1]),
            "shift": _shift(12),
        }
    )
    return st.fixed_dictionaries(
        {
            "ng": st.integers(1, 6),
            "gg": st.integers(1, 4),
            "gamma": st.booleans(),
            "allFwChi": st.sampled_from([False, False, True]),
            "prodOrder": st.sampled_from([1, 3, 2, 4, 3]),
            "suffixes": st.permutations([0, 1, 2, 3]),
            "families": st.lists(fam, min_size=1, max_size=3),
            "preloaded": st.booleans(),
        }
    )


def workdir_execute(case):
    import shutil

    from armi.nuclearDataIO import xsLibraries
    from vp import env

    out = Out()
    guard = _global_guard()
    d = os.path.join(env.scratch_dir(), "c10wd")
    shutil.rmtree(d, ignore_errors=True)
    os.makedirs(d)
    try:
        fams = []
        for f, sfx in zip(case["families"], case["suffixes"]):
            xsid = L.SUFFIXES[sfx]
            common = dict(base=f["base"], suffix=sfx, nucs=f["nucs"], band=f["band"], dropRx=f["dropRx"],
                          dropBlocks=f["dropBlocks"], fwChi=f["fwChi"] or case.get("allFwChi", False),
                          ng=max(1, case["ng"] + f["ngDelta"]), gg=case["gg"],
                          shiftE=f.get("shift", False), shiftG=f.get("shift", False), prodOrder=case.get("prodOrder", 1))
            files = [("iso", os.path.join(d, "ISO" + xsid))]
            if case["gamma"]:
                files += [("gam", os.path.join(d, xsid + ".gamiso")), ("pmx", os.path.join(d, xsid + ".pmatrx"))]
            for (kind, path), sc in zip(files, f["scales"]):
                L.materialise(dict(common, kind=kind, scale=sc), path)
            fams.append((xsid, files))
        fams.sort()  # the function takes the ISOxx files in sorted order, each followed by its gamma files
        flat = [kp for _x, files in fams for kp in files]
        kinds = [k for k, _p in flat]
        src = [L.library_snapshot(L.reader(k)(p)) for k, p in flat]
        model = MergeModel(src, kinds, _empty_kinds())
        conflicts = []
        for j in range(len(flat)):
            conflicts.extend(model.conflicts(j))
            if not conflicts:
                model.add(j)
        out.nontrivial = len(fams) >= 2 and sum(1 for sn in src if len(sn["labels"]) >= 2) >= 2
        out.label("families:%d" % len(fams), "gamma" if case["gamma"] else "neutron-only",
                  "set:conflicting" if conflicts else "set:compatible")
        lib = xsLibraries.IsotxsLibrary()
        try:
            vel = xsLibraries.mergeXSLibrariesInWorkingDirectory(lib, mergeGammaLibs=case["gamma"], alternateDirectory=d)
            refused = None
        except _refusals() as exc:
            refused = exc
        if conflicts:
            out.check(refused is not None, "workdir/conflict-accepted", lambda: "merged although %s" % conflicts[:3])
            out.rejected = refused is not None
            return out
        if not out.check(refused is None, "workdir/compatible-refused",
                         lambda: "refused with %s: %s" % (type(refused).__name__, str(refused)[:200])):
            return out
        merged = L.library_snapshot(lib)
        _compare(out, merged, model.expected(), "workdir", "merged working directory")
        want_vel = {x: src[[p for _k, p in flat].index(files[0][1])]["props"]["neutronVelocity"] for x, files in fams}
        got_vel = {str(k): L.norm(v) for k, v in vel.items()}
        out.check(got_vel == want_vel, "workdir/velocities", lambda: "returned velocities %s, files hold %s" % (got_vel, want_vel))
        if case["preloaded"]:
            # files whose data are already in the library are skipped: a second call changes nothing
            before = L.library_snapshot(lib)
            xsLibraries.mergeXSLibrariesInWorkingDirectory(lib, mergeGammaLibs=case["gamma"], alternateDirectory=d)
            _compare(out, L.library_snapshot(lib), before, "workdir/second-call", "second call on the same directory")
        if _reread_check(out, lib, merged, "workdir", "merged working directory", "w"):
            out.label("written-back")
    finally:
        shutil.rmtree(d, ignore_errors=True)
        _global_check(out, guard)
    return _once(out)


# ------------------------------------------------------------------------------------------------
# part 4: macroscopic data on a library merged from 2-3 xs IDs; the IDs are drawn adversarially (substrings of the
# other families' labels) so that a suffix filter that is not anchored at the end of the label shows


_PLAIN_IDS = ("AA", "AB", "BA", "ZZ", "EA", "CA", "A2", "3A")
_ELEMENT_IDS = ("FE", "NA", "ZR", "XE", "PU", "FP", "CR", "MO", "NI", "SI", "MN", "U2", "C1")


def multi_id_strategy(tier):
    return st.fixed_dictionaries(
        {
            "ng": st.integers(1, 5),
            "gg": st.integers(1, 3),
            "base": st.sampled_from(["AA", "AB", "FW", "FW"]),
            "nucs": st.lists(st.integers(0, 49), min_size=2, max_size=5, unique=True),
            "families": st.sampled_from([2, 2, 3]),
            "firstId": st.sampled_from(_PLAIN_IDS),
            "idMode": st.lists(st.sampled_from(["window", "window", "element", "plain"]), min_size=2, max_size=2),
            "idPick": st.lists(st.integers(0, 40), min_size=2, max_size=2),
            "scales": st.lists(st.integers(0, 3), min_size=3, max_size=3),
            "band": st.sampled_from([0, 0, 1, 2]),
            "gamma": st.booleans(),
            "order": st.integers(0, 719),
            "dens": st.lists(st.lists(_dens(), min_size=5, max_size=5), min_size=3, max_size=3),
        }
    )


def _windows(labels, xsid):
    """Two-character windows of the full labels, other than the trailing xs ID itself."""
    res = set()
    for lab in labels:
        full = lab + xsid
        for k in range(len(full) - 2):
            res.add(full[k : k + 2])
    return res


def _creator_compare(out, np, xc, m, coll, chi_coll, names, dens, G, ng, what, chi_dens=None, prefix="creator", matrices=True):
    """createMacrosFromMicros output against sums over exactly the collections ``coll`` (one per name).

    ``dens`` is the selected composition (nucNames, minimumNuclideDensity applied); ``chi_dens`` the whole block's
    (computeBlockAverageChi is documented to use the block)."""
    nn = len(names)
    chi_dens = dens if chi_dens is None else chi_dens

    def dense(x):
        if x is None and not matrices:
            return np.zeros((G, G))
        return x.toarray() if hasattr(x, "toarray") else np.asarray(x)

    def refsum(arrs):
        tot = np.zeros(arrs[0].shape)
        mag = np.zeros(arrs[0].shape)
        for i in reversed(range(nn)):
            term = dens[names[i]] * arrs[i]
            tot = tot + term
            mag = mag + np.abs(term)
        return tot, mag

    vec, mags = {}, {}
    for rx in xc.BASIC_XS + xc.TOTAL_XS:
        if rx == xc.NUSIGF:
            arrs = [np.asarray(c.fission, dtype=float) * np.asarray(c.neutronsPerFission, dtype=float) for c in coll]
        else:
            arrs = [np.asarray(getattr(c, rx), dtype=float) for c in coll]
        vec[rx], mags[rx] = refsum(arrs)
        _close(out, m[rx], vec[rx], mags[rx], prefix + "/weighted-sum", "%s %s" % (what, rx))
    absw = sum(vec[rx] for rx in xc.ABSORPTION_XS)
    absm = sum(mags[rx] for rx in xc.ABSORPTION_XS)
    _close(out, m.absorption, absw, absm, prefix + "/absorption", what)
    mats = {}
    for rx in xc.BASIC_SCAT_MATRIX:
        if matrices:
            arrs = [np.zeros((G, G)) if getattr(c, rx) is None else getattr(c, rx).toarray() for c in coll]
        else:  # buildScatterMatrix=False: "no ng x ng matrices will be built" (absent or without entries)
            arrs = [np.zeros((G, G)) for _c in coll]
        mats[rx], mags[rx] = refsum(arrs)
        _close(out, dense(m[rx]), mats[rx], mags[rx], prefix + "/scatter-matrix", "%s %s" % (what, rx))
    tot = mats["elasticScatter"] + mats["inelasticScatter"] + 2.0 * mats["n2nScatter"]
    totm = mags["elasticScatter"] + mags["inelasticScatter"] + 2.0 * mags["n2nScatter"]
    _close(out, dense(m.totalScatter), tot, totm, prefix + "/total-scatter", what)
    rem = absw - vec["n2n"] + tot.sum(axis=0) - np.diag(tot)
    remm = absm + mags["n2n"] + totm.sum(axis=0) + np.diag(totm)
    _close(out, m.removal, rem, remm, prefix + "/removal", what)
    num = np.zeros(ng)
    den = 0.0
    for i in reversed(range(nn)):
        c = chi_coll[i]
        f = float(np.sum(np.asarray(c.neutronsPerFission) * np.asarray(c.fission)))
        num = num + np.asarray(c.chi, dtype=float) * chi_dens[names[i]] * f
        den += chi_dens[names[i]] * f
    chi = num / den if den != 0.0 else np.zeros(ng)
    _close(out, m.chi, chi, np.abs(chi) * 10 + 1e-12, prefix + "/block-chi", what)


def multi_id_execute(case):
    import numpy as np

    from armi.nuclearDataIO import xsCollections as xc
    from armi.nuclearDataIO import xsLibraries

    out = Out()
    guard = _global_guard()
    base = case["base"]
    gamma = case["gamma"] and base != "FW"  # GAMISO fixtures exist for AA/AB only
    proto = dict(base=base, suffix=0, nucs=case["nucs"], band=case["band"], ng=case["ng"], gg=case["gg"])
    _idx, plain = L.spec_labels(dict(proto, kind="iso", xsid="  "))
    nuc_labels = [lab[:-2] for lab in plain]
    # ---- xs IDs: the first is plain, the others are windows of the earlier families' labels / element symbols
    ids = [case["firstId"]]
    adversarial = 0
    for k in range(case["families"] - 1):
        mode = case["idMode"][k]
        cands = []
        if mode == "window":
            cands = sorted(set().union(*[_windows(nuc_labels, x) for x in ids]) - set(ids))
        elif mode == "element":
            # leading characters of the drawn labels (FE of FE54.., U2 of U235.., CA of C + AA), then a fixed list
            own = sorted({(lab + ids[0])[:2] for lab in nuc_labels} - set(ids))
            cands = own or [x for x in _ELEMENT_IDS if x not in ids]
        if not cands:
            cands = [x for x in _PLAIN_IDS if x not in ids]
        ids.append(cands[case["idPick"][k] % len(cands)])
    for a in ids:
        for b in ids:
            if a != b and a in _windows(nuc_labels, b):
                adversarial += 1
    specs = []
    for f, xsid in enumerate(ids):
        specs.append(dict(proto, kind="iso", xsid=xsid, scale=case["scales"][f]))
        if gamma:
            specs.append(dict(proto, kind="gam", xsid=xsid, scale=case["scales"][(f + 1) % 3]))
    paths = _files(specs, "q")
    try:
        ref = [L.reader(s["kind"])(p) for s, p in zip(specs, paths)]
        order = list(range(len(specs)))
        r = case["order"]
        perm = []
        while order:  # the r-th permutation (factorial number system)
            perm.append(order.pop(r % len(order)))
            r //= max(1, len(order) + 1)
        lib = xsLibraries.IsotxsLibrary()
        for j in perm:
            lib.merge(L.reader(specs[j]["kind"])(paths[j]))
        before = L.library_snapshot(lib)
        all_labels = [str(x) for x in lib.nuclideLabels]
        out.nontrivial = adversarial > 0 and len(nuc_labels) >= 2
        out.label("families:%d" % len(ids), "adversarial-pairs:%d" % min(adversarial, 3), "base:" + base,
                  "gamma" if gamma else "neutron-only")
        ng = lib.numGroups
        for f, xsid in enumerate(ids):
            what0 = "ids %s, block suffix %r" % (ids, xsid)
            # -- the suffix filter itself
            want = [lab for lab in all_labels if lab[-2:] == xsid]
            got = [str(n.containerKey) for n in lib.getNuclides(xsid)]
            out.check(got == want, "library/getNuclides-suffix",
                      lambda: "%s: getNuclides returns %s, labels ending in the suffix are %s" % (what0, got, want))
            isoref = ref[[i for i, s in enumerate(specs) if s["kind"] == "iso" and s["xsid"] == xsid][0]]
            labels = [lab + xsid for lab in nuc_labels]
            names = [isoref[lab].name for lab in labels]
            for lab, nm in zip(labels, names):
                n = lib.getNuclide(nm, xsid)
                out.check(str(n.containerKey) == lab, "library/getNuclide", lambda: "%s: getNuclide(%r) is %s" % (what0, nm, n))
            dens = {nm: float(case["dens"][f][i % 5]) for i, nm in enumerate(names)}
            if not any(dens.values()):
                dens[names[0]] = 0.01
            blk = _DuckBlock(dens, xsid)
            iso = [isoref[lab].micros for lab in labels]
            m = xc.MacroscopicCrossSectionCreator().createMacrosFromMicros(lib, blk)
            _creator_compare(out, np, xc, m, iso, iso, names, dens, ng, ng, what0 + ", micros")
            if gamma:
                gamref = ref[[i for i, s in enumerate(specs) if s["kind"] == "gam" and s["xsid"] == xsid][0]]
                gam = [gamref[lab].gammaXS for lab in labels]
                mg = xc.MacroscopicCrossSectionCreator().createMacrosFromMicros(lib, blk, libType="gammaXS")
                _creator_compare(out, np, xc, mg, gam, iso, names, dens, lib.numGroupsGamma, ng, what0 + ", gammaXS")
            for rx, mult in (("nGamma", None), ("fission", "neutronsPerFission")):
                got_v = xc.computeMacroscopicGroupConstants(rx, dens, lib, xsid, libType="micros", multConstant=mult)
                tot = np.zeros(ng)
                mag = np.zeros(ng)
                for i in reversed(range(len(names))):
                    t = dens[names[i]] * np.asarray(iso[i][rx], dtype=float) * (1.0 if mult is None else np.asarray(iso[i][mult], dtype=float))
                    tot, mag = tot + t, mag + np.abs(t)
                if any(dens.values()):
                    _close(out, got_v, tot, mag, "macro/weighted-sum", "%s %s" % (what0, rx))
        _compare(out, L.library_snapshot(lib), before, "macro/library-mutated", "after computing macroscopic constants")
    finally:
        _cleanup(paths)
        _global_check(out, guard)
    return _once(out)


PARTS = [
    Part("merge_orders", merge_execute, strategy=merge_strategy, budget={"quick": 300, "thorough": 8000},
         procs={"quick": 8, "thorough": 16},
         rule="Hypothesis: 1-4 library specs (ISOTXS/GAMISO/PMATRX derived from the fixtures: group counts, nuclide subsets, xs-ID "
              "suffixes, scales, dropped reactions/blocks, bands, file-wide chi, dose factors; free or grouped in same-label "
              "families) written with armi's writers, merged from fresh reads in ALL orders into an empty or the first library; "
              "after every step the target is compared with a union model (compatible step) or with its own previous snapshot "
              "(conflicting step must raise); final snapshots of all orders compared pairwise; non-trivial = >= 2 libraries "
              "with >= 2 nuclides"),
    Part("macro_sums", macro_execute, strategy=macro_strategy, budget={"quick": 320, "thorough": 12000},
         procs={"quick": 8, "thorough": 16},
         rule="Hypothesis: an ISOTXS+GAMISO+PMATRX family merged in a drawn order; compositions with zero densities, the empty "
              "composition, missing nuclides; computeMacroscopicGroupConstants (16 constants), the four energy-constant "
              "functions and MacroscopicCrossSectionCreator (duck-typed and real block, neutron and gamma) against numpy sums "
              "over the separately read sources; linearity, additivity over a partition, derived sums; non-trivial = >= 3 "
              "nuclides with non-zero density including one with fission data"),
    Part("working_dir", workdir_execute, strategy=workdir_strategy, budget={"quick": 150, "thorough": 3000},
         procs={"quick": 4, "thorough": 16},
         rule="Hypothesis: 1-3 xs-ID families written as ISOxx (+ xx.gamiso, xx.pmatrx) into a scratch directory; "
              "mergeXSLibrariesInWorkingDirectory must give the union model (or refuse a group-structure conflict), return "
              "each file's velocities, and skip already merged files on a second call; non-trivial = >= 2 families, "
              ">= 2 files with >= 2 nuclides"),
    Part("multi_id_macros", multi_id_execute, strategy=multi_id_strategy, budget={"quick": 240, "thorough": 8000},
         procs={"quick": 6, "thorough": 16},
         rule="Hypothesis: one nuclide set written under 2-3 xs IDs with different data (ISOTXS, optionally GAMISO; fixtures incl. "
              "the element-labelled armi/tests/ISOAA) and merged in a drawn order; the later IDs are two-character windows of the "
              "other families' full labels (EA in FEAA, 5A in U235AA ...), element symbols or plain IDs; for every ID: "
              "getNuclides(suffix) is exactly the labels ending in it, getNuclide resolves to the own set, "
              "MacroscopicCrossSectionCreator (neutron, gamma) and computeMacroscopicGroupConstants equal numpy sums over the "
              "block's own set only; non-trivial = some ID occurs inside another family's label"),
]
