"""C18 - the reactor built from blueprints is the reactor the blueprints describe."""
import io

from hypothesis import strategies as st

from vp.gen.c18_bp import grid_text
from vp.model import c18_maps as mm
from vp.runner import Out, Part

PROPERTY = "C18"
LEVEL = "exploration"
ASSUMPTIONS = []  # filled in at the bottom of the module

# Candidate genuine defects found by this check on the unchanged tree: the generators avoid the triggering shape by
# construction (and count the avoided draws with a label ``excluded:<signature>``) while the entry is True.
EXCLUDE_KNOWN = {
    "save/cartesian-full-not-recentred": False,  # repaired in /repo (fix: commit f77869d): searched again
    "maps/outline-from-data/ijmax": True,
    "maps/outline-from-data/corner-symmetry": True,
    "maps/outline-from-text/right-edge-empty": True,
    "maps/outline-from-text/bottom-row-short": True,
    # pin `grid contents` written with bare integers are never matched by latticeIDs (GridBlueprint.getLocators compares the
    # str() of the latticeIDs with the raw specifier): the component is silently left off the lattice
    "component/int-grid-specifier-unmatched": False,  # repaired in /repo (fix: commit cbbfa0a): searched again
}


def _avoid_field():
    """The known-defect shapes the generator avoids travel with the case (a replay with "avoid": [] reproduces them)."""
    return st.just(sorted(k for k, v in EXCLUDE_KNOWN.items() if v))


_FRAME_SIG = {"ijmax": "maps/outline-from-data/ijmax", "corner": "maps/outline-from-data/corner-symmetry",
              "right-edge": "maps/outline-from-text/right-edge-empty", "bottom-row": "maps/outline-from-text/bottom-row-short"}

LABELSETS = [
    ["A", "B", "C", "D", "E", "F"],
    ["IC", "OC", "RR", "SH", "PC", "LA"],
    ["1", "2", "3", "10", "x", "Y7"],
    ["IC", "RR7", "VOTA", "1", "q", "RR89"],
]
MAP_CLASSES = {
    "cart": "AsciiMapCartesian",
    "hexThird": "AsciiMapHexThirdFlatsUp",
    "hexFullFlat": "AsciiMapHexFullFlatsUp",
    "hexFullTips": "AsciiMapHexFullTipsUp",
}


def _map_class(kind):
    from armi.utils import asciimaps

    return getattr(asciimaps, MAP_CLASSES[kind])


# ---------------------------------------------------------------------------------------------------------------
# part 1: lattice-map texts generated from known contents


def maptext_strategy(tier):
    big = 7 if tier == "thorough" else 5
    return st.fixed_dictionaries(
        {
            "kind": st.sampled_from(mm.KINDS),
            "R": st.integers(1, big),
            "nx": st.integers(1, 7),
            "ny": st.integers(1, 7),
            "cut": st.integers(0, 3),
            "fill": st.lists(st.integers(0, 6), min_size=1, max_size=40),
            "labels": st.integers(0, len(LABELSETS) - 1),
            "strip": st.booleans(),
            "sep": st.sampled_from([" ", "  ", "\t"]),
            "pad": st.booleans(),
            "anchor": st.integers(0, 50),
            "trim": st.booleans(),
            "avoid": _avoid_field(),
        }
    )


def _truth(case):
    """Known contents {(i,j): label} and the map size parameters from a case."""
    kind = case["kind"]
    labels = LABELSETS[case["labels"]]
    if kind == "cart":
        size, cut = (case["nx"], case["ny"]), 0
    else:
        size = case["R"]
        cut = min(case["cut"], max(0, size - 1)) if kind == "hexFullFlat" else 0
    cells = mm.domain_cells(kind, size, cut)
    fill = case["fill"]
    contents = {}
    for n, cell in enumerate(cells):
        f = fill[n % len(fill)]
        if f:
            contents[cell] = labels[(f - 1) % len(labels)]
    if case.get("trim"):
        # leave whole rows empty at the end a user may leave out (see c18_maps.render_rows): 1..R bottom rows of a corners-up
        # map, the top row(s) of a Cartesian map
        if kind == "hexFullTips" and size >= 1:
            nrows = 1 + case["cut"] % size
            contents = {(i, j): v for (i, j), v in contents.items() if i + j >= -size + nrows}
        elif kind == "cart" and size[1] >= 2:
            nrows = 1 + case["cut"] % (size[1] - 1)
            contents = {(i, j): v for (i, j), v in contents.items() if j < size[1] - nrows}
    # anchors: the conventions infer the map size from the longest row, so one longest row must end in a real label
    R = size if kind != "cart" else None
    a = case["anchor"]
    if kind == "hexFullFlat":
        # rows whose right end lies on the outline at picture x = R: yt in [-R, R] with the parity of R
        yts = [yt for yt in range(-R, R + 1) if (yt - R) % 2 == 0 and cut <= yt + 2 * R <= 4 * R - cut]
        yt = yts[a % len(yts)]
        contents.setdefault(mm.cell_from_picture(kind, R, yt), labels[0])
    elif kind == "hexFullTips":
        j = -(a % (R + 1))
        contents.setdefault((R, j), labels[0])
    elif not contents:
        contents[cells[a % len(cells)]] = labels[0]
    return kind, size, cut, contents


def _nonblank(d):
    return {k: v for k, v in d.items() if v != mm.PLACEHOLDER}


def maptext_execute(case):
    out = Out()
    kind, size, cut, contents = _truth(case)
    rows, offs = mm.render_rows(kind, size, contents, cut=cut, strip_trailing=case["strip"], trim_rows=bool(case.get("trim")))
    text = mm.rows_to_text(rows, offs, sep=case["sep"], pad=case["pad"])
    expected = mm.read_rows(kind, mm.tokenize(text))
    if _nonblank(expected) != contents:  # the model's reader and renderer must agree with each other
        raise AssertionError("c18_maps model inconsistent for %r: %r != %r" % (case, _nonblank(expected), contents))
    holes = sum(1 for v in expected.values() if v == mm.PLACEHOLDER)
    out.nontrivial = len(contents) >= 3 and holes >= 1
    full_rows = 2 * size + 1 if kind == "hexFullTips" else (size[1] if kind == "cart" else 0)
    if len(rows) < full_rows:
        out.label("rows-left-out:" + kind)
    out.label("kind:" + kind, "holes" if holes else "full", "cut%d" % cut if kind == "hexFullFlat" else "nocut",
              "width%d" % max(len(v) for v in contents.values()))
    cls = _map_class(kind)
    m = cls()
    m.readAscii(text)
    got = dict(m.items())
    if not out.check(got == expected, "maps/read/" + kind,
                     lambda: "text %r read as %r, geometric reader gives %r" % (text, _short_diff(got, expected), len(expected))):
        return out
    # read(write(read(text))) == read(text)
    s = io.StringIO()
    m.writeAscii(s)
    m2 = cls()
    m2.readAscii(s.getvalue())
    out.check(dict(m2.items()) == got, "maps/rewrite/" + kind,
              lambda: "text %r written as %r reads back differently: %s" % (text, s.getvalue(), _short_diff(dict(m2.items()), got)))
    # the same contents as pure index data: drawn so that they read back, or refused
    _draw_and_read(out, kind, _avoid_known_frame_shapes(out, kind, contents, LABELSETS[case["labels"]][0], case.get("avoid", ())), "maps/text-contents")
    return out


def _short_diff(got, want):
    miss = sorted(set(want) - set(got))[:4]
    extra = sorted(set(got) - set(want))[:4]
    diff = sorted(k for k in set(got) & set(want) if got[k] != want[k])[:4]
    return "missing %s extra %s different %s" % (miss, extra, [(k, got[k], want[k]) for k in diff])


def _avoid_known_frame_shapes(out, kind, contents, label, avoid):
    """Known-defect shapes (see EXCLUDE_KNOWN): repaired by adding the 30-degree corner cells, and counted."""
    problem = mm.data_frame_problem(kind, contents)
    if problem and _FRAME_SIG[problem] in avoid:
        out.label("excluded:" + _FRAME_SIG[problem])
        contents = mm.repair_data_frame(kind, contents, label)
        problem2 = mm.data_frame_problem(kind, contents)
        if problem2 and _FRAME_SIG[problem2] in avoid:
            raise AssertionError("repair did not remove the known-defect shape: %r" % (sorted(contents),))
    return contents


def _draw_and_read(out, kind, contents, prefix):
    cls = _map_class(kind)
    m = cls()
    m.asciiLabelByIndices = dict(contents)
    try:
        m.gridContentsToAscii()
        s = io.StringIO()
        m.writeAscii(s)
        text = s.getvalue()
    except Exception as e:  # noqa: BLE001  (any refusal is acceptable: saveToStream falls back to `grid contents`)
        out.label("refused:%s:%s" % (kind, type(e).__name__))
        return None
    out.label("drawn:" + kind)
    m2 = cls()
    try:
        m2.readAscii(text)
    except Exception as e:  # noqa: BLE001
        out.fail("%s/drawn-text-unreadable/%s" % (prefix, kind), "contents %r drawn as %r which cannot be read: %r" % (sorted(contents.items()), text, e))
        return text
    back = _nonblank(dict(m2.items()))
    problem = mm.data_frame_problem(kind, contents)
    sig = _FRAME_SIG[problem] if problem else "%s/drawn-incompletely/%s" % (prefix, kind)
    out.check(back == contents, sig,
              lambda: "contents %r drawn as %r which reads back with %s" % (sorted(contents.items()), text, _short_diff(back, contents)))
    return text


# ---------------------------------------------------------------------------------------------------------------
# part 2: arbitrary index dicts -> text (must read back to the same dict, or be refused)


def mapdict_strategy(tier):
    cell = st.tuples(st.integers(-6, 6), st.integers(-6, 6), st.integers(0, 5)).map(list)
    return st.fixed_dictionaries(
        {
            "kind": st.sampled_from(mm.KINDS),
            "D": st.integers(0, 5),  # > 0: start from the filled outline of that ring / a (D+1) x (D+2) rectangle
            "holes": st.lists(st.integers(0, 200), max_size=10),
            "cells": st.lists(cell, min_size=0, max_size=5),
            "labels": st.integers(0, len(LABELSETS) - 1),
            "avoid": _avoid_field(),
        }
    )


def _dict_contents(case, allow_negative_cart=True):
    kind = case["kind"]
    labels = LABELSETS[case["labels"]]
    contents = {}
    if case["D"]:
        size = (case["D"] + 1, case["D"] + 2) if kind == "cart" else case["D"]
        dom = mm.domain_cells(kind, size)
        holes = {h % len(dom) for h in case["holes"]}
        for n, c in enumerate(dom):
            if n not in holes:
                contents[c] = labels[(n * 7 + n // 3) % len(labels)]
    for i, j, lab in case["cells"]:
        if kind == "cart":
            if not allow_negative_cart:
                i, j = abs(i), abs(j)
        elif kind == "hexThird":
            # fold into the sector [0, 120) by rotating in steps of 120 degrees
            for _ in range(3):
                if mm.in_third_sector(i, j):
                    break
                i, j = -(i + j), i  # rotate by 120 degrees: (q, r, s) -> (s, q, r)
            if not mm.in_third_sector(i, j):
                continue
        if kind != "cart" and mm.hexdist(i, j) > 6:
            continue
        contents[(i, j)] = labels[lab % len(labels)]
    if not contents:
        contents[(0, 0)] = labels[0]
    return kind, contents


def mapdict_execute(case):
    out = Out()
    kind, contents = _dict_contents(case, allow_negative_cart=False)
    out.nontrivial = len(contents) >= 3
    out.label("kind:" + kind, "outline" if case["D"] else "sparse", "extra-cells" if case["cells"] else "no-extra")
    contents = _avoid_known_frame_shapes(out, kind, contents, LABELSETS[case["labels"]][0], case.get("avoid", ()))
    _draw_and_read(out, kind, contents, "maps/dict")
    return out


# ---------------------------------------------------------------------------------------------------------------
# part 2b: regular outlines must actually be drawn (not refused): complete enumeration


def regular_contents(kind, R, trunc, labels):
    """Complete outline of ring R; flats-up hex maps with the six corners cut back ``trunc`` cells (0, 1 or 2: the corner
    cell, then also its two neighbours on the outline), as in ARMI's own example maps."""
    if kind == "cart":
        cells = mm.domain_cells(kind, (R + 1, R + 2))
    else:
        cells = mm.domain_cells(kind, R)
    cut = set()
    if trunc and kind in ("hexThird", "hexFullFlat"):
        from vp.model import hexmodel as hm

        for k in range(6):
            cut.add(hm.rotate60(R, 0, k))
            if trunc == 2:
                cut.add(hm.rotate60(R - 1, 1, k))
                cut.add(hm.rotate60(R, -1, k))
    return {c: labels[(n * 5 + n // 4) % len(labels)] for n, c in enumerate(cells) if c not in cut}


def regular_enum(tier):
    rmax = 7 if tier == "quick" else 14
    cases = []
    for kind in mm.KINDS:
        for R in range(1, rmax + 1):
            for trunc in (0, 1, 2):
                if trunc and (kind not in ("hexThird", "hexFullFlat") or R < trunc + 1):
                    continue
                cases.append({"kind": kind, "R": R, "trunc": trunc, "labels": (R + trunc) % len(LABELSETS)})
    return cases


def regular_execute(case):
    out = Out()
    kind = case["kind"]
    contents = regular_contents(kind, case["R"], case["trunc"], LABELSETS[case["labels"]])
    out.nontrivial = len(contents) >= 3
    out.label("kind:" + kind, "trunc%d" % case["trunc"])
    text = _draw_and_read(out, kind, contents, "maps/regular")
    out.check(text is not None, "maps/regular-outline-refused/" + kind,
              lambda: "the complete outline of ring %d (corners cut back %d) is refused as index data" % (case["R"], case["trunc"]))
    return out


# ---------------------------------------------------------------------------------------------------------------
# part 3: grid blueprints: lattice map -> grid contents, and saveToStream -> load round trip

GRID_GEOMS = [
    ("hex", "third periodic", "hexThird"),
    ("hex", "full", "hexFullFlat"),
    ("hex_corners_up", "full", "hexFullTips"),
    ("hex_corners_up", "third periodic", "hexThird"),
    ("cartesian", "full", "cart"),
    ("cartesian", "quarter reflective", "cart"),
    ("cartesian", "quarter reflective through center assembly", "cart"),
]


def gridsave_strategy(tier):
    base = mapdict_strategy(tier)
    return st.fixed_dictionaries(
        {
            "geom": st.integers(0, len(GRID_GEOMS) - 1),
            "route": st.sampled_from(["contents-trymap", "contents-trymap", "map", "map", "contents"]),
            "dict": base,
            "text": maptext_strategy(tier),
            "pitch": st.booleans(),
            "avoid": _avoid_field(),
        }
    )


def centre_cartesian(full):
    """Lattice-map indices of a full-core Cartesian map are shifted so that (0, 0) is in the middle (documented in
    GridBlueprint._readGridContentsLattice): by -(n // 2) per direction, n = extent of the drawn map incl. placeholders."""
    xs = [i for (i, _j) in full]
    ys = [j for (_i, j) in full]
    nx, ny = max(xs) - min(xs) + 1, max(ys) - min(ys) + 1
    return -(nx // 2), -(ny // 2)


def gridsave_execute(case):
    from armi.reactor import blueprints
    from armi.reactor.blueprints import gridBlueprint

    out = Out()
    geom, symmetry, kind = GRID_GEOMS[case["geom"]]
    route = case["route"]
    avoid = case.get("avoid", ())
    out.label("geom:%s/%s" % (geom, symmetry.split()[0]), "route:" + route)
    cart_full = geom == "cartesian" and symmetry == "full"
    pitch = (12.5, 12.5) if case["pitch"] and geom == "cartesian" else None
    if route == "map":
        tcase = dict(case["text"], kind=kind)
        _k, size, cut, contents = _truth(tcase)
        contents = _avoid_known_frame_shapes(out, kind, contents, LABELSETS[tcase["labels"]][0], avoid)
        rows, offs = mm.render_rows(kind, size, contents, cut=cut, strip_trailing=tcase["strip"], trim_rows=bool(tcase.get("trim")))
        text = mm.rows_to_text(rows, offs, sep=" " if tcase["sep"] == "\t" else tcase["sep"], pad=tcase["pad"])
        full = mm.read_rows(kind, mm.tokenize(text))
        if cart_full:
            di, dj = centre_cartesian(full)
            contents = {(i + di, j + dj): v for (i, j), v in contents.items()}
        doc = "\n".join(["grids:"] + grid_text("g", geom, symmetry, lattice=text, pitch=pitch)) + "\n"
    else:
        dcase = dict(case["dict"], kind=kind)
        _k, contents = _dict_contents(dcase, allow_negative_cart=cart_full)
        # (since fix f77869d saveToStream reads its own map back and falls back to grid contents, so the frame shapes that
        #  asciimaps draws incompletely are no longer avoided on this route)
        doc = "\n".join(["grids:"] + grid_text("g", geom, symmetry, contents=contents, pitch=pitch)) + "\n"
    out.nontrivial = len(contents) >= 3
    bp = blueprints.Blueprints.load(doc)
    g = bp.gridDesigns["g"]
    grid = g.construct()
    got = dict(g.gridContents)
    if not out.check(got == contents, "grid/contents-from-%s/%s" % ("lattice-map" if route == "map" else "yaml", kind),
                     lambda: "document %r gives contents with %s" % (doc, _short_diff(got, contents))):
        return out
    out.check(all(grid[i, j, 0].getCompleteIndices() == (i, j, 0) for (i, j) in contents), "grid/locations-exist", "grid cannot address a listed location")
    # --- save and load again
    if cart_full and "save/cartesian-full-not-recentred" in avoid and route != "contents" and set(contents) != {(0, 0)}:
        out.label("excluded:save/cartesian-full-not-recentred")
        return out
    stream = io.StringIO()
    try:
        gridBlueprint.saveToStream(stream, bp, full=True, tryMap=(route == "contents-trymap"))
    except ValueError as e:
        if "nconsistent lines" not in str(e):
            raise
        out.label("save-refused:ValueError")  # refused (asciimaps.__str__: inconsistent lines and offsets)
        return out
    written = stream.getvalue()
    as_map = "lattice map: |" in written
    out.label("written-as-map" if as_map else "written-as-contents")
    if route == "contents":
        out.check(not as_map, "save/contents-input-written-as-map-without-tryMap", lambda: "written %r" % written)
    out.check(dict(g.gridContents) == contents and (route != "map" or g.latticeMap is not None), "save/modifies-original", "saveToStream changed the blueprint it was given")
    try:
        bp2 = blueprints.Blueprints.load(written)
        g2 = bp2.gridDesigns["g"]
        g2.construct()
    except Exception as e:  # noqa: BLE001
        out.fail("save/written-text-unreadable/" + kind, "document %r saved as %r which fails to load: %r" % (doc, written, e))
        return out
    back = dict(g2.gridContents)
    problem = mm.data_frame_problem(kind, contents)
    sig = "save/roundtrip/" + kind
    if cart_full and back != contents:
        sig = "save/cartesian-full-not-recentred"
    elif problem and as_map:
        sig = _FRAME_SIG[problem]
    out.check(back == contents, sig, lambda: "document %r saved as %r loads with %s" % (doc, written, _short_diff(back, contents)))
    out.check(g2.geom == geom and g2.symmetry.split()[0] == symmetry.split()[0], "save/geometry-changed", lambda: "geom %r symmetry %r" % (g2.geom, g2.symmetry))
    return out


# ---------------------------------------------------------------------------------------------------------------
# part 4: whole blueprint documents against the independent evaluator


def bp_strategy(tier):
    from vp.gen import c18_bp

    return st.fixed_dictionaries({"spec": c18_bp.bp_spec(max_rings=3 if tier == "quick" else 4,
                                                         allow_int_ids=not EXCLUDE_KNOWN["component/int-grid-specifier-unmatched"])})


def _flag_names(flags):
    from armi.reactor.flags import Flags

    if not flags:
        return []
    return sorted(Flags.toString(flags).split())


def _build(spec, text):
    from armi.reactor import blueprints, reactors

    from vp import env

    cs = env.quiet_settings({"inputHeightsConsideredHot": True, "detailedAxialExpansion": bool(spec["detailed"])})
    bp = blueprints.Blueprints.load(text)
    return cs, bp, reactors.factory(cs, bp)


def _expected_xy(grid, i, j, pitch, through_centre):
    from vp.model import hexmodel as hm

    geom = grid["geom"]
    if geom == "hex":
        return hm.centre(i, j, pitch[0], False)
    if geom == "hex_corners_up":
        return hm.centre(i, j, pitch[0], True)
    off = (0.0, 0.0) if through_centre else (pitch[0] / 2.0, pitch[1] / 2.0)
    return (i * pitch[0] + off[0], j * pitch[1] + off[1])


def _val(x):
    return x["cold"] if isinstance(x, dict) else x


def _element_masses(nd):
    """{element symbol: sum N_i * A_i} and {element: {nuclide: N}} from number densities (zero entries dropped)."""
    from armi.nucDirectory import nuclideBases

    masses, split = {}, {}
    for name, n in nd.items():
        if n == 0.0:
            continue
        nb = nuclideBases.byName[name]
        sym = nb.element.symbol if hasattr(nb, "element") and nb.element is not None else name
        masses[sym] = masses.get(sym, 0.0) + n * nb.weight
        split.setdefault(sym, {})[name] = n
    return masses, split


def _rel(a, b, tol):
    return abs(a - b) <= tol * max(abs(a), abs(b), 1e-300)


def _check_composition(out, exp, cexp, c, where):
    """Composition of one constructed component against the document (see module ASSUMPTIONS)."""
    from armi import materials
    from armi.nucDirectory import nuclideBases
    from armi.reactor import components
    from armi.utils import units

    # (depletable components also carry zero-density entries for everything reachable through the burn chain)
    nd = {k: float(v) for k, v in c.getNumberDensities().items() if v != 0.0}
    masses, split = _element_masses(nd)
    total = sum(masses.values())
    matname = cexp["material"]
    NA = units.MOLES_PER_CC_TO_ATOMS_PER_BARN_CM
    # every nuclide is one the document's nuclide flags allow (an element or an isotope of a flagged element)
    flagged = set(exp["allFlagged"])
    for name in nd:
        nb = nuclideBases.byName[name]
        ok = name in flagged or nb.element.symbol in flagged
        out.check(ok, "composition/nuclide-not-flagged", lambda: "%s: %s not covered by the nuclide flags" % (where, name))
    # natural expansion of elements: isotopic shares are the natural abundances, renormalised over the isotopes kept
    for sym, parts in split.items():
        if len(parts) < 2 or sym in ("U", "PU", "B"):
            continue
        tot_n = sum(parts.values())
        ab = {n: nuclideBases.byName[n].abundance for n in parts}
        s_ab = sum(ab.values())
        if s_ab <= 0:
            continue
        bad = [n for n in parts if not _rel(parts[n] / tot_n, ab[n] / s_ab, 1e-9)]
        out.check(not bad, "composition/natural-isotopic-split", lambda: "%s: element %s split %r, natural %r" % (where, sym, parts, ab))
    mat = materials.resolveMaterialClassByName(matname)()
    iso = exp["isotopics"].get(cexp["isotopics"]) if cexp["isotopics"] else None
    tin, thot = cexp["Tinput"], cexp["Thot"]
    mods = cexp["mods"]
    cold_density = None
    if iso is not None and mods:
        # custom isotopics first, modifications have the final word: on a pure U-Zr vector the UZr fractions replace the
        # whole vector, so the composition is that of the modified library material; a density fixed by the entry stays
        out.label("comp:isotopics+mods:" + "+".join(sorted(mods)))
        if iso["format"] == "number densities":
            cold_density = sum(n * nuclideBases.byName[nuc].weight for nuc, n in iso["items"].items()) / NA
        else:
            cold_density = iso["density"]
    elif iso is not None:
        out.label("comp:isotopics:%s:%s" % (iso["format"].split()[0], "Custom" if matname == "Custom" else "library"))
        items = iso["items"]
        # expected mass share per element, and the absolute density when the document fixes it
        if iso["format"] == "number densities":
            emass = {}
            for nuc, n in items.items():
                nb = nuclideBases.byName[nuc]
                emass[nb.element.symbol] = emass.get(nb.element.symbol, 0.0) + n * nb.weight
            cold_density = sum(emass.values()) / NA
        else:
            emass = {}
            for nuc, f in items.items():
                nb = nuclideBases.byName[nuc]
                # mass fractions as given; number fractions weighted with the atomic weight
                emass[nb.element.symbol] = emass.get(nb.element.symbol, 0.0) + (f if iso["format"] == "mass fractions" else f * nb.weight)
            cold_density = iso["density"]
        se = sum(emass.values())
        for sym in sorted(set(emass) | set(masses)):
            got = masses.get(sym, 0.0) / total if total else 0.0
            out.check(_rel(got, emass.get(sym, 0.0) / se, 1e-9), "composition/custom-isotopics-mass-share",
                      lambda: "%s: element %s mass share %r, document %r" % (where, sym, got, emass.get(sym, 0.0) / se))
        # isotopes named in the entry keep their own share (not only their element's)
        for nuc, v in items.items():
            nb = nuclideBases.byName[nuc]
            if isinstance(nb, nuclideBases.NaturalNuclideBase):
                continue
            want_share = (v if iso["format"] == "mass fractions" else v * nb.weight) / se
            got_share = nd.get(nuc, 0.0) * nb.weight / total if total else 0.0
            out.check(_rel(got_share, want_share, 1e-9), "composition/custom-isotopics-isotope-share",
                      lambda: "%s: %s mass share %r, document %r" % (where, nuc, got_share, want_share))
        if iso["format"] == "number densities" and matname == "Custom":
            for nuc, n in items.items():
                if nuc in nd:  # isotope given directly
                    out.check(_rel(nd[nuc], n, 1e-9), "composition/custom-number-density", lambda: "%s: %s %r, document %r" % (where, nuc, nd[nuc], n))
        if cold_density is not None:
            if matname == "Custom":
                want = cold_density
            else:
                dLL = mat.linearExpansionFactor(Tc=thot, T0=tin)
                want = cold_density / (1.0 + dLL) ** 2  # heights are hot: the density given at Tinput thins radially only
            out.check(_rel(total / NA, want, 1e-9), "composition/custom-density", lambda: "%s: density %r, document %r at Tinput -> %r hot" % (where, total / NA, cold_density, want))
        elif matname != "Custom":
            ref = components.Circle("ref", materials.resolveMaterialClassByName(matname)(), tin, thot, od=1.0, id=0.0, mult=1)
            rm, _s = _element_masses({k: float(v) for k, v in ref.getNumberDensities().items()})
            out.check(_rel(total, sum(rm.values()), 1e-9), "composition/custom-isotopics-keep-library-density",
                      lambda: "%s: density %r, library material %r" % (where, total / NA, sum(rm.values()) / NA))
        return
    # reference: the same material class at the same temperatures, built directly; modifications handed to the material
    refmat = materials.resolveMaterialClassByName(matname)()
    if mods:
        if iso is None:
            out.label("comp:mods:" + "+".join(sorted(mods)))
        refmat.applyInputParams(**mods)
    else:
        out.label("comp:plain:" + matname)
    ref = components.Circle("ref", refmat, tin, thot, od=1.0, id=0.0, mult=1)
    rnd = {k: float(v) for k, v in ref.getNumberDensities().items()}
    rm, _rs = _element_masses(rnd)
    if cold_density is not None:
        # the entry fixes the density at Tinput: the reference is rescaled to it (radial thinning only, heights are hot)
        dLL = mat.linearExpansionFactor(Tc=thot, T0=tin)
        scale = cold_density / (1.0 + dLL) ** 2 * NA / sum(rm.values())
        rm = {k: v * scale for k, v in rm.items()}
        rnd = {k: v * scale for k, v in rnd.items()}
    tol_ref = 1e-10 if cold_density is None else 1e-9
    for sym in sorted(set(rm) | set(masses)):
        out.check(_rel(masses.get(sym, 0.0), rm.get(sym, 0.0), tol_ref), "composition/differs-from-directly-built-component",
                  lambda: "%s (%s, mods %r): element %s mass density %r, directly built %r" % (where, matname, mods, sym, masses.get(sym, 0.0), rm.get(sym, 0.0)))
    for nuc in ("U235", "U238", "B10", "B11"):
        if nuc in rnd or nuc in nd:
            out.check(_rel(nd.get(nuc, 0.0), rnd.get(nuc, 0.0), tol_ref), "composition/isotope-differs-from-directly-built-component",
                      lambda: "%s (%s, mods %r): %s %r, directly built %r" % (where, matname, mods, nuc, nd.get(nuc, 0.0), rnd.get(nuc, 0.0)))
    # defining relations of the modifications
    def mass(n):
        return nd.get(n, 0.0) * nuclideBases.byName[n].weight

    if "U235_wt_frac" in mods:
        e = mass("U235") / masses.get("U", float("inf"))
        out.check(_rel(e, mods["U235_wt_frac"], 1e-9), "mods/U235_wt_frac", lambda: "%s: U235/U mass %r, requested %r" % (where, e, mods["U235_wt_frac"]))
    if "ZR_wt_frac" in mods:
        z = masses.get("ZR", 0.0) / (total or float("inf"))
        out.check(_rel(z, mods["ZR_wt_frac"], 1e-9), "mods/ZR_wt_frac", lambda: "%s: Zr mass share %r, requested %r" % (where, z, mods["ZR_wt_frac"]))
    if "B10_wt_frac" in mods:
        b = mass("B10") / masses.get("B", float("inf"))
        out.check(_rel(b, mods["B10_wt_frac"], 1e-9), "mods/B10_wt_frac", lambda: "%s: B10/B mass %r, requested %r" % (where, b, mods["B10_wt_frac"]))
    if "TD_frac" in mods and iso is None:
        f = mods["TD_frac"]
        out.check(c.p.theoreticalDensityFrac == f, "mods/TD_frac-parameter", lambda: "%s: theoreticalDensityFrac %r requested %r" % (where, c.p.theoreticalDensityFrac, f))
        base = materials.resolveMaterialClassByName(matname)()
        rest = {k: v for k, v in mods.items() if k != "TD_frac"}
        if rest:
            base.applyInputParams(**rest)
        td0 = base.getTD()
        bref = components.Circle("ref", base, tin, thot, od=1.0, id=0.0, mult=1)
        bm, _b = _element_masses({k: float(v) for k, v in bref.getNumberDensities().items()})
        out.check(_rel(total, sum(bm.values()) * f / td0, 1e-9), "mods/TD_frac-scales-density",
                  lambda: "%s: density %r, without TD_frac %r (TD %r), requested TD_frac %r" % (where, total / NA, sum(bm.values()) / NA, td0, f))


def _check_component(out, exp, bexp, cexp, b, c, where, burn, deep):
    from armi.reactor.components import component as compmod

    ok = out.check(type(c).__name__ == cexp["shape"], "component/shape", lambda: "%s: %s, document says %s" % (where, type(c).__name__, cexp["shape"]))
    out.check(type(c.material).__name__ == cexp["material"], "component/material", lambda: "%s: %s, document says %s" % (where, type(c.material).__name__, cexp["material"]))
    out.check(c.inputTemperatureInC == cexp["Tinput"] and c.temperatureInC == cexp["Thot"], "component/temperatures",
              lambda: "%s: Tinput %r Thot %r, document %r %r" % (where, c.inputTemperatureInC, c.temperatureInC, cexp["Tinput"], cexp["Thot"]))
    if not ok:
        return
    # multiplicity
    if "mult" in c.DIMENSION_NAMES:
        m = c.getDimension("mult")
        out.check(m is not None and cexp["mult"] is not None and float(m) == float(cexp["mult"]),
                  "component/int-grid-specifier-unmatched" if (bexp.get("gridIntSpecs") and cexp["cells"] is not None) else "component/mult",
                  lambda: "%s: mult %r, document gives %r" % (where, m, cexp["mult"]))
        if cexp["multLink"] and cexp["cells"] is None:
            raw = c.p.mult
            out.check(isinstance(raw, compmod._DimensionLink) and raw[0].name == cexp["multLink"] and raw[0].parent is b, "component/mult-link",
                      lambda: "%s: mult %r is not a link to sibling %r" % (where, raw, cexp["multLink"]))
    for d, v in cexp["dims"].items():
        raw = c.p[d]
        if v is None:
            out.check(raw is None, "component/unset-dimension", lambda: "%s: %s = %r, not in the document" % (where, d, raw))
        elif isinstance(v, dict):
            good = isinstance(raw, compmod._DimensionLink) and raw[0].name == v["link"][0] and raw[1] == v["link"][1] and raw[0].parent is b
            if out.check(good, "component/dimension-link", lambda: "%s: %s = %r, document links it to sibling %s.%s" % (where, d, raw, v["link"][0], v["link"][1])):
                got = c.getDimension(d, cold=True)
                out.check(got == v["cold"], "component/linked-cold-dimension", lambda: "%s: cold %s %r, document resolves to %r" % (where, d, got, v["cold"]))
        else:
            got = c.getDimension(d, cold=True)
            out.check(raw == v and got == v, "component/cold-dimension", lambda: "%s: cold %s %r (stored %r), document %r" % (where, d, got, raw, v))
    # lattice positions
    if cexp["cells"] is not None:
        from armi.reactor import grids

        loc = c.spatialLocator
        got = sorted((int(x.i), int(x.j)) for x in loc) if isinstance(loc, grids.MultiIndexLocation) else None
        out.check(got == [tuple(x) for x in cexp["cells"]], "component/int-grid-specifier-unmatched" if (got is None and bexp.get("gridIntSpecs")) else "component/lattice-positions", lambda: "%s: at %r, lattice gives %r" % (where, got, cexp["cells"]))
    # flags
    if cexp["explicitFlags"] is not None:
        want = cexp["explicitFlags"]
    else:
        if cexp["isotopics"]:
            nucs = set(exp["isotopics"][cexp["isotopics"]]["items"])
        else:
            from armi import materials

            nucs = set(materials.resolveMaterialClassByName(cexp["material"])().massFrac)
        want = sorted(set(cexp["nameFlags"]) | ({"DEPLETABLE"} if nucs & burn else set()))
    got = _flag_names(c.p.flags)
    out.check(got == want, "component/flags", lambda: "%s: flags %r, document gives %r" % (where, got, want))
    if deep:
        _check_composition(out, exp, cexp, c, where)


def _check_blocks(out, exp, dexp, blocks, where_a, dname, burn, deep_here):
    z = 0.0
    for k, (b, bexp) in enumerate(zip(blocks, dexp["blocks"])):
        where_b = "%s %r block %d" % (where_a, dname, k)
        out.check(b.getType() == bexp["name"], "block/order", lambda: "%s is %r, document says %r" % (where_b, b.getType(), bexp["name"]))
        out.check(b.p.height == bexp["height"] and b.getHeight() == bexp["height"], "block/height", lambda: "%s height %r, document %r" % (where_b, b.p.height, bexp["height"]))
        out.check(_rel(b.p.zbottom, z, 1e-12) if z else b.p.zbottom == 0.0, "block/elevation", lambda: "%s bottom at %r, heights below sum to %r" % (where_b, b.p.zbottom, z))
        z += bexp["height"]
        out.check(_rel(b.p.ztop, z, 1e-12), "block/elevation", lambda: "%s top at %r, heights sum to %r" % (where_b, b.p.ztop, z))
        out.check(b.p.xsType == bexp["xsType"], "block/xsType", lambda: "%s xs type %r, document %r" % (where_b, b.p.xsType, bexp["xsType"]))
        out.check(b.p.axMesh == bexp["axMesh"], "block/axMesh", lambda: "%s mesh points %r, document %r" % (where_b, b.p.axMesh, bexp["axMesh"]))
        out.check(_flag_names(b.p.flags) == bexp["flags"], "block/flags", lambda: "%s flags %r, document %r" % (where_b, _flag_names(b.p.flags), bexp["flags"]))
        if bexp["gridName"] is not None:  # (blocks without a grid name may get an automatic grid later: Block.autoCreateSpatialGrids)
            out.check(b.spatialGrid is not None, "block/grid", lambda: "%s has no grid, document names %r" % (where_b, bexp["gridName"]))
        if bexp["axialTarget"]:
            out.check(b.p.axialExpTargetComponent == bexp["axialTarget"], "block/axial-expansion-target", lambda: "%s target %r document %r" % (where_b, b.p.axialExpTargetComponent, bexp["axialTarget"]))
        # (children are in sort() order after reactors.factory, not in document order: matched by their unique names)
        comps = {c.name: c for c in b}
        names = sorted(c.name for c in b)
        if not out.check(names == sorted(c["name"] for c in bexp["components"]), "block/components", lambda: "%s components %r, document %r" % (where_b, names, [c["name"] for c in bexp["components"]])):
            continue
        for cexp in bexp["components"]:
            c = comps[cexp["name"]]
            _check_component(out, exp, bexp, cexp, b, c, "%s component %r" % (where_b, c.name), burn, deep_here)


def bp_check(out, spec, text, exp, r, deep=True, bp=None):
    """Compare the constructed reactor with the expectation record."""
    core = r.core
    sysx = exp["systems"]["core"]
    grid = sysx["grid"]
    want_locs = sysx["locations"]
    got_locs = {}
    for a in core:
        loc = a.spatialLocator
        got_locs[(int(loc.i), int(loc.j))] = a
    out.check(set(got_locs) == set(want_locs) and len(core) == len(want_locs), "core/locations",
              lambda: "occupied %s, document names %s" % (sorted(got_locs), sorted(want_locs)))
    out.check(str(core.geomType) in (grid["geom"].split("_")[0],) and str(core.symmetry.domain).startswith(grid["symmetry"].split()[0]),
              "core/geometry", lambda: "geometry %s %s, document %s %s" % (core.geomType, core.symmetry, grid["geom"], grid["symmetry"]))
    if grid["geom"] == "hex_corners_up" or grid["geom"] == "hex":
        out.check(bool(core.spatialGrid.cornersUp) == (grid["geom"] == "hex_corners_up"), "core/orientation", "corners-up flag differs from the document")
    burn = set(exp["burn"])
    first_design = exp["designs"][want_locs[sorted(want_locs)[0]]] if want_locs else None
    pitch = grid["pitch"]
    if pitch is None and first_design is not None:
        from vp.model import c18_bp_eval as ev

        pitch = list(ev.block_pitch(first_design["blocks"][0]))
    # Cartesian centre style (GridBlueprint._constructSpatialGrid, read from the code): cells are centred on the origin
    # if the symmetry says "through center assembly" or a full core has an odd, square extent; otherwise offset by half
    through = "through center" in grid["symmetry"]
    if grid["geom"] == "cartesian" and grid["symmetry"].split()[0] == "full" and want_locs:
        xs = [i for i, _ in want_locs]
        ys = [j for _, j in want_locs]
        nx, ny = max(xs) - min(xs) + 1, max(ys) - min(ys) + 1
        through = through or (nx == ny and nx % 2 == 1)
    seen_designs = set()
    for ij in sorted(want_locs):
        a = got_locs.get(ij)
        if a is None:
            continue
        dname = want_locs[ij]
        dexp = exp["designs"][dname]
        where_a = "assembly at %s" % (ij,)
        if not out.check(a.getType() == dname, "core/design-at-location", lambda: "%s is %r, document says %r" % (where_a, a.getType(), dname)):
            continue
        ex = _expected_xy(grid, ij[0], ij[1], pitch, through)
        g = a.spatialLocator.getGlobalCoordinates()
        tol = 1e-9 * max(pitch)
        o = sysx["origin"]
        out.check(abs(g[0] - (ex[0] + o[0])) <= tol * (1 + abs(ij[0]) + abs(ij[1])) and abs(g[1] - (ex[1] + o[1])) <= tol * (1 + abs(ij[0]) + abs(ij[1])) and abs(g[2] - o[2]) <= tol,
                  "core/coordinates", lambda: "%s at %r, document gives %r (pitch %r origin %r)" % (where_a, list(g), ex, pitch, o))
        out.check(_flag_names(a.p.flags) == dexp["flags"], "assembly/flags", lambda: "%s %r: flags %r, document %r" % (where_a, dname, _flag_names(a.p.flags), dexp["flags"]))
        if dexp["nozzleType"]:
            out.check(a.p.nozzleType == dexp["nozzleType"], "assembly/nozzleType", lambda: "%s: %r" % (where_a, a.p.nozzleType))
        blocks = list(a)
        if not out.check(len(blocks) == len(dexp["blocks"]), "assembly/block-count", lambda: "%s %r: %d blocks, document %d" % (where_a, dname, len(blocks), len(dexp["blocks"]))):
            continue
        deep_here = deep and dname not in seen_designs
        seen_designs.add(dname)
        _check_blocks(out, exp, dexp, blocks, where_a, dname, burn, deep_here)
    # designs the core map does not use are constructed as well (Blueprints.assemblies): every user of a shared entry counts
    if bp is not None and deep:
        for dname, dexp in exp["designs"].items():
            a = bp.assemblies.get(dname)
            if dname in seen_designs or a is None:
                continue
            if out.check(len(a) == len(dexp["blocks"]), "assembly/block-count", lambda: "design %r: %d blocks, document %d" % (dname, len(a), len(dexp["blocks"]))):
                _check_blocks(out, exp, dexp, list(a), "unplaced design", dname, burn, True)
    # the spent fuel pool, if the document has one, is there and empty
    for sname, sx in exp["systems"].items():
        if sx["type"] == "sfp":
            sfp = r.excore.get(sname.replace(" ", "").lower().replace("spentfuelpool", "sfp"))
            out.check(sfp is not None and len(sfp) == 0, "systems/sfp", lambda: "spent fuel pool %r: %r" % (sname, sfp))


def bp_labels(out, spec, exp):
    core = exp["systems"]["core"]
    out.label("geom:%s/%s" % (spec["geom"], spec["symmetry"].split()[0]), "core-route:" + spec["core"]["route"], "designs:%d" % len(set(core["locations"].values())),
              "nucflags:" + spec["nucflags"], "detailed" if spec["detailed"] else "uniform-mesh")
    linked = holes = grid = False
    for d in exp["designs"].values():
        for b in d["blocks"]:
            grid = grid or b["gridName"] is not None
            for c in b["components"]:
                if any(isinstance(v, dict) for v in c["dims"].values()) or c["multLink"]:
                    linked = True
    kind, size = spec["core"]["kind"], spec["core"]["size"]
    full = len(mm.domain_cells(kind, tuple(size) if kind == "cart" else size)) if (kind == "cart" or size > 0) else 1
    holes = len(core["locations"]) < full
    users = {}
    for d in exp["designs"].values():
        for b in d["blocks"]:
            for c in b["components"]:
                if c["isotopics"]:
                    users.setdefault(c["isotopics"], []).append(bool(c["mods"]))
    if any(len(u) >= 2 for u in users.values()):
        out.label("shared-isotopics")
    if any(len(u) >= 2 and any(u) and not all(u) for u in users.values()):
        out.label("shared-isotopics-partly-modified")
    if any(c["name"] == "inner duct" for d in exp["designs"].values() for b in d["blocks"] for c in b["components"]):
        out.label("two-ducts")
    if grid:
        out.label("pin-lattice")
    if holes:
        out.label("core-holes")
    return len(set(core["locations"].values())) >= 2 and linked and holes


def bp_execute(case):
    from vp.gen import c18_bp
    from vp.model import c18_bp_eval as ev

    out = Out()
    spec = case["spec"]
    text = c18_bp.render(spec)
    exp = ev.evaluate(text)
    out.nontrivial = bp_labels(out, spec, exp)
    _cs, bp, r = _build(spec, text)
    bp_check(out, spec, text, exp, r, bp=bp)
    return out


# ---------------------------------------------------------------------------------------------------------------
# part 5: determinism - the same text constructed twice gives observationally equal reactors


def _strip_numbering(rec, names):
    """Serial numbers are not observed (serial=False); assembly/block names carry the assembly number (A0007, B0007-002),
    which keeps counting across constructions: names are compared by their order of first appearance."""
    rec = dict(rec)
    n = rec["name"]
    if n not in names:
        names[n] = "#%d" % len(names)
    if rec["type"].endswith("Assembly") or rec["type"].endswith("Block"):
        rec["name"] = names[n]
    if rec.get("locator") is not None:
        loc = list(rec["locator"])
        if loc[2] is not None:
            loc[2] = names.get(loc[2], loc[2])
        rec["locator"] = tuple(loc)
    if "params" in rec:
        p = dict(rec["params"])
        for k in ("serialNum", "assemNum", "maxAssemNum"):
            p.pop(k, None)
        rec["params"] = p
    rec["children"] = [_strip_numbering(c, names) for c in rec["children"]]
    return rec


def det_execute(case):
    from vp.gen import c18_bp
    from vp.model import c18_bp_eval as ev
    from vp.model import observe as ob

    out = Out()
    spec = case["spec"]
    text = c18_bp.render(spec)
    exp = ev.evaluate(text)
    out.nontrivial = bp_labels(out, spec, exp)
    _cs, _bp, r1 = _build(spec, text)
    _cs, _bp, r2 = _build(spec, text)
    o1 = _strip_numbering(ob.observe(r1, params=True, serial=False), {})
    o2 = _strip_numbering(ob.observe(r2, params=True, serial=False), {})
    for d in ob.diff(o1, o2, limit=4):
        out.fail("determinism/" + _sig_of(d), "two constructions from the same text differ: " + d)
    # the same document with the assembly designs listed in reverse order and every stack upside down: each component keeps
    # its composition (a component is described by its own block, modifications and isotopics entry, not by its neighbours)
    pspec = c18_bp.permuted(spec)
    _cs, bp3, _r3 = _build(pspec, c18_bp.render(pspec))
    for dname, a in _bp.assemblies.items():
        a3 = bp3.assemblies.get(dname)
        if not out.check(a3 is not None and len(a3) == len(a), "determinism/permuted-structure", lambda: "design %r missing or of other length in the permuted document" % dname):
            continue
        n = len(a)
        for k in range(n):
            c1 = {c.name: c for c in a[k]}
            c3 = {c.name: c for c in a3[n - 1 - k]}
            if not out.check(sorted(c1) == sorted(c3), "determinism/permuted-structure", lambda: "design %r block %d: components %r vs %r" % (dname, k, sorted(c1), sorted(c3))):
                continue
            for name in sorted(c1):
                n1 = {x: float(v) for x, v in c1[name].getNumberDensities().items() if v != 0.0}
                n3 = {x: float(v) for x, v in c3[name].getNumberDensities().items() if v != 0.0}
                same = set(n1) == set(n3) and all(_rel(n1[x], n3[x], 1e-12) for x in n1)
                out.check(same, "determinism/composition-depends-on-construction-order",
                          lambda: "design %r block %d component %r: %r in document order, %r with designs and stacks reversed" % (dname, k, name, n1, n3))
    return out


def _sig_of(difftext):
    import re

    path = re.sub(r"\[\d+\]", "", difftext.split(":")[0])
    parts = [p for p in path.split("/") if p and p != "children"]
    return "/".join(parts[:3]) if parts else "structure"


# ---------------------------------------------------------------------------------------------------------------
# part 6: inconsistent documents must be refused

# kinds that armi accepts silently on the unchanged tree (the later duplicate wins); candidate findings, see the report
_DUP_SIGS = {
    "dup-specifier": "inconsistent/duplicate-specifier-accepted",
    "dup-block-name": "inconsistent/duplicate-block-name-accepted",
    "dup-component-name": "inconsistent/duplicate-component-name-accepted",
    "dup-assembly-name": "inconsistent/duplicate-assembly-name-accepted",
    "dup-grid-name": "inconsistent/duplicate-grid-name-accepted",
    # AssemblyBlueprint._checkParamConsistency files the by-component lists under the modification name only: a too long list
    # of one component is not seen when a later component has a (correct) list of the same name; the surplus entry is dropped
    "bycomp-length-same-name": "inconsistent/by-component-length-same-name-accepted",
}
EXCLUDE_KNOWN.update({sig: True for sig in _DUP_SIGS.values()})
EXCLUDE_KNOWN["inconsistent/by-component-length-same-name-accepted"] = False  # repaired in /repo (fix: commit ced2179): searched again


_KIND_WEIGHT = {"bundle-exceeds-inner-duct": 3, "mult-conflict": 2, "bycomp-length": 3, "assembly-area": 2}


def bad_strategy(tier):
    from vp.gen import c18_bp

    return st.fixed_dictionaries(
        {
            "spec": c18_bp.bp_spec(max_rings=3),
            "kind": st.integers(0, 10**6),
            "a": st.integers(0, 40),
            "avoid": _avoid_field(),
        }
    )


def bad_execute(case):
    from vp.gen import c18_bp
    from vp.model import c18_bp_eval as ev

    out = Out()
    spec = case["spec"]
    kinds = c18_bp.FAULT_KINDS
    avoid = case.get("avoid", ())
    text = None
    # the drawn kind, or the next one that applies to this document
    applicable = []
    for kind in kinds:
        if _DUP_SIGS.get(kind) in avoid:
            continue
        t = c18_bp.faulty(spec, kind, case["a"])
        if t is not None:
            # (kinds that need a particular block layout apply to fewer documents: drawn with a larger weight)
            applicable.extend([(kind, t)] * _KIND_WEIGHT.get(kind, 1))
    # (Hypothesis draws 0 very often: the index is mixed with other case data to spread the kinds evenly)
    kind, text = applicable[(case["kind"] + case["a"] + int(spec["pitch"] * 1000)) % len(applicable)]
    if case.get("kindName"):  # (pinned replays name the kind, so that they survive changes of the kind list)
        kind, text = case["kindName"], c18_bp.faulty(spec, case["kindName"], case["a"])
    if _DUP_SIGS.get(kinds[case["kind"] % len(kinds)]) in avoid:
        out.label("excluded:" + _DUP_SIGS[kinds[case["kind"] % len(kinds)]])
    out.label("fault:" + kind)
    out.nontrivial = True
    try:
        ev.evaluate(text)
        out.label("evaluator-accepts:" + kind)
    except ev.Inconsistent:
        out.label("evaluator-refuses")
    except Exception:  # noqa: BLE001  (plain YAML errors: duplicate keys)
        out.label("yaml-refuses")
    try:
        _cs, _bp, r = _build(spec, text)
    except Exception as e:  # noqa: BLE001  (any error is a refusal; the type is recorded)
        out.rejected = True
        out.label("refused:%s:%s" % (kind, type(e).__name__))
        return out
    out.fail(_DUP_SIGS.get(kind, "inconsistent/%s-accepted" % kind),
             "a document with the inconsistency %r was built into a reactor with %d assemblies:\n%s" % (kind, len(r.core), text[-1500:]))
    return out


PARTS = [
    Part("maps_text", maptext_execute, strategy=maptext_strategy, budget={"quick": 2400, "thorough": 150000}, procs={"quick": 4, "thorough": 16},
         rule="Hypothesis: known contents (hexagon/sector/rectangle outlines of 1..5 rings, holes, cut corners, label widths 1-4) drawn as "
              "text by an independent to-scale renderer; armi reads the text: must equal the independent geometric reader; "
              "read(write(read)) == read; the contents as index data are drawn to text that reads back or refused; non-trivial = "
              ">= 3 labels and a hole"),
    Part("maps_dict", mapdict_execute, strategy=mapdict_strategy, budget={"quick": 1600, "thorough": 100000}, procs={"quick": 4, "thorough": 16},
         rule="Hypothesis: arbitrary index dicts (filled outline of 1..5 rings with up to 10 holes plus up to 5 free cells, or free cells only) for every asciimap class: gridContentsToAscii + "
              "writeAscii either raises or gives text that reads back to exactly the dict; non-trivial = >= 3 cells"),
    Part("maps_regular", regular_execute, enumerate=regular_enum, exhaustive=True, procs={"quick": 2, "thorough": 4},
         rule="every asciimap class x complete outlines of 1..N rings (flats-up hex maps also with the six corners cut back 1 or 2 "
              "cells, the shape of ARMI's example maps): as index data they must be drawn (not refused) and read back; non-trivial = >= 3 cells",
         bound=lambda t: "rings <= %d" % (7 if t == "quick" else 14)),
    Part("grid_save", gridsave_execute, strategy=gridsave_strategy, budget={"quick": 1200, "thorough": 60000}, procs={"quick": 4, "thorough": 16},
         rule="Hypothesis: one grid blueprint (hex third/full flats up, corners up, Cartesian full/quarter) given as lattice-map text or as "
              "`grid contents`; contents after construct() equal the independent reading (full Cartesian maps centred); "
              "gridBlueprint.saveToStream (tryMap for contents input) -> Blueprints.load -> same contents, original untouched; "
              "non-trivial = >= 3 cells"),
    Part("blueprints", bp_execute, strategy=bp_strategy, budget={"quick": 400, "thorough": 40000}, procs={"quick": 6, "thorough": 16},
         rule="Hypothesis: whole blueprint documents (see vp/gen/c18_bp.py) built with Blueprints.load + reactors.factory and compared "
              "with the expectation record of the independent evaluator (vp/model/c18_bp_eval.py, ruamel only): locations, design, "
              "coordinates, block order/heights/elevations/xs/mesh/flags, component order/shape/material/temperatures/mult/cold "
              "dimensions/links/lattice positions/flags, compositions of every user of shared isotopics entries; non-trivial = >= 2 designs in the core, a link and a hole"),
    Part("determinism", det_execute, strategy=bp_strategy, budget={"quick": 60, "thorough": 4000}, procs={"quick": 3, "thorough": 16},
         rule="the same generated document constructed twice in one process: observe() records (all parameters, grids, locators, "
              "dimensions, number densities) equal apart from serial numbers and assembly numbering; the document with designs and "
              "stacks in reverse order gives every component the same composition; non-trivial as for blueprints"),
    Part("inconsistent", bad_execute, strategy=bad_strategy, budget={"quick": 360, "thorough": 20000}, procs={"quick": 4, "thorough": 16},
         rule="a well-formed generated document with exactly one inconsistency injected (unknown specifier, list of wrong length for "
              "heights/xs types/mesh points/by-block and by-component modifications (any list of a component with several "
              "modification names), an assembly design of another cross-sectional area (any position, larger or smaller), pins larger than the duct, wire-wrapped pin bundle wider than the inner "
              "duct of a two-duct hex block but narrower than the outer duct, clad with id > od, duplicate grid location or "
              "attribute, mult conflicting with the lattice, modification for an unknown component / unknown key, dangling link, "
              "unknown shape/flag/isotopics label/grid, isotopic fractions not summing to 1, density given with number densities): "
              "Blueprints.load + reactors.factory must raise; every case is non-trivial"),
]

ASSUMPTIONS[:] = [
    "the expectation record comes from vp/model/c18_bp_eval.py, which reads the YAML text with plain ruamel.yaml and never imports "
    "armi; documented semantics used: component fields and links <component>.<dimension>, latticeIDs/multiplicity from the pin "
    "lattice, flags from `flags:` else from the name (Flags.fromString docstring: special phrases, words, digits stripped), "
    "DEPLETABLE added to name-derived flags iff the composition holds a burn:true nuclide, assemblies as bottom-to-top stacks with "
    "per-block lists, material modifications ('' = not given; by-component overrides by-block; applied to the components whose "
    "material accepts the name), lattice map / grid contents, custom isotopics formats",
    "taken from reading the code rather than the documentation: block children are compared by name because reactors.factory sorts "
    "the reactor; a full Cartesian lattice map is centred by -(n // 2) per direction; Cartesian cells are centred on the origin "
    "for 'through center assembly' symmetries or an odd square full core and offset by half a pitch otherwise; the grid pitch is "
    "the lattice pitch if given, else the outer pitch of the blocks; the default nuclide flags table; a custom density on a library "
    "solid is the density at Tinput, thinned by (1 + dL/L)^2 because heights are hot (inputHeightsConsideredHot=True in all cases)",
    "lattice-map conventions (vp/model/c18_maps.py) come from the asciimaps class docstrings and the maps in "
    "armi/utils/tests/test_asciimaps.py: to-scale picture, bottom-left origin (Cartesian, 1/3 hex), centred origin (full hex), "
    "outline ring from the longest row, cut corner lines from the length of the bottom line (full flats-up)",
    "compositions: materials (armi.materials), atomic weights/abundances (armi.nucDirectory) and Component number densities "
    "(armi.reactor.components) are the trusted base: an unmodified or modified component must equal, element by element (rel 1e-10), "
    "a Circle built directly with the same material class, modifications handed to Material.applyInputParams and the same "
    "temperatures; in addition the defining relations are checked on the constructed component alone (rel 1e-9): U235/U, B10/B and "
    "Zr mass shares, TD_frac as the ratio to the density without it, custom-isotopic mass shares, number densities and density",
    "custom isotopics entries are frequently shared by several components (different blocks, positions and assembly designs); "
    "every user is compared independently with the input numbers (element and isotope mass shares); a UZr user of a pure U-Zr "
    "entry that also gets U235_wt_frac / ZR_wt_frac must equal the directly built modified UZr (modifications have the final "
    "word, documented in _constructMaterial) with the entry's density kept; the generator makes the first user in construction "
    "order a modified one and the last an unmodified one; designs absent from the core map are checked through Blueprints.assemblies",
    "determinism also rebuilds the document with the assembly designs listed in reverse and every stack upside down: each "
    "component's number densities are unchanged (rel 1e-12)",
    "structure (names, order, heights, xs types, mesh points, flags, shapes, materials, temperatures, multiplicities, cold dimensions, "
    "link targets, lattice positions) is compared exactly; elevations rel 1e-12; coordinates abs 1e-9 * pitch * (1+|i|+|j|)",
    "all generated documents keep every location inside the represented symmetry domain (no cells on the 120-degree edge of a "
    "third core: ARMI removes those by design) and use one outer pitch for all blocks; without detailedAxialExpansion all designs "
    "share one axial mesh, as the user documentation requires",
    "a refusal is any exception raised by Blueprints.load / reactors.factory (inconsistent documents) or by gridContentsToAscii / "
    "writeAscii / saveToStream (index data that cannot be drawn)",
    "known-defect shapes (EXCLUDE_KNOWN) are avoided by construction and counted with labels excluded:<signature>; their minimal "
    "cases are kept in replays/C18/defect_*.json",
]
