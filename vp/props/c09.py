"""C09 - CCCC nuclear-data files read back exactly what was written, in every format."""
import io
import os

from vp.gen import c09_gen as gen
from vp.model import c09_formats as fm
from vp.model import c09_ref as ref
from vp.runner import Out, Part

PROPERTY = "C09"
LEVEL = "exploration"
ASSUMPTIONS = [
    "binary reference: little-endian int32/int64/IEEE-754 single/double, strings left-justified blank-padded, "
    "matrices in Fortran order, record = int32 count | payload | int32 count (vp/model/c09_ref.py, `struct` only)",
    "float fields hold float32-exact values, double fields any finite double (two-digit decimal exponent in the "
    "format layer); all comparisons are exact (bit patterns of the re-encoded values)",
    "record layouts / presence conditions of GEODST, DIF3D, LABELS, PWDINT, RTFLUX/ATFLUX, RZFLUX, FIXSRC and NHFLUX "
    "(Nodal, VARIANT, adjoint) are transcribed from the module documentation and the CCCC-IV descriptions it quotes "
    "(vp/model/c09_formats.py); for ISOTXS/GAMISO/PMATRX/DLAYXS/COMPXS the oracle is the shipped fixture itself "
    "(per-nuclide records must be carried over byte for byte) plus round trip and byte idempotence, so a presence "
    "condition that is wrong in the same way for reading and writing is not detectable there",
    "bulk array values are expanded deterministically from a seed in the case by a counter hash (c09_ref.Fill); "
    "extreme values come from a Hypothesis-drawn palette",
    "ASCII files are compared with universal newlines (the shipped labels.ascii has CRLF line ends); the ISOTXS/GAMISO "
    "file label is normalised on reading as isotxs._updateFileLabel documents, so the 24 label bytes are not compared "
    "when the source label differs from the standard one",
    "strings are printable ASCII without trailing blanks (trailing blanks are padding in the format)",
]

# Known findings (True) and repaired defects (False): for True entries the generators avoid the shape by construction (counted with `excluded:<sig>` labels);
# a case carrying "allow_known": true (the defect replay files) runs the shape anyway.
EXCLUDE_KNOWN = {
    "record/binary/frame-count-long": False,  # repaired in /repo (fix: commit); shape searched again.  # BinaryRecordWriter.rwLong does not add to numBytes
    "record/ascii/int-wider-than-field": True,  # |int| >= 1e9 needs 11 characters, the field has 10
    "record/ascii/double-3-digit-exponent": True,  # |x| < 1e-99 or >= 1e100 needs 25 characters, the field has 24
    "geodst/write/2D-1d-mesh": False,  # repaired in /repo (fix: commit); shape searched again.  # `0 > geomType >= 3`: 1-D mesh record never written / read
    "fixsrc/read/unallocated-array": False,  # repaired in /repo (fix: commit); shape searched again.  # fixsrc.readBinary indexes into a (0,0,0,0) array
    "isotxs/read/sub-blocked-scatter": True,
    "isotxs/write/sub-blocked-record-offsets": True,  # same shape (NSBLOK > 1): LOCA(I) ignores the sub-block records  # NSBLOK > 1: each sub-block replaces the matrix instead of extending it
    "dlayxs/ascii/read": False,  # repaired in /repo (fix: commit); shape searched again.  # AsciiRecordReader does not track byteCount, DLAYXS derives the dummy-string count from it
    "pmatrx/activation-xs-rwList-arguments": False,  # repaired in /repo (fix: commit); shape searched again.  # numberNeutronXS > 0: rwList called without the contained type
    "pmatrx/read/production-matrix-order-3": False,  # repaired in /repo (fix: commit); shape searched again.  # order >= 3: reader indexes the empty nOrderProductionMatrix dict
    "compxs/shape-passed-as-tuple": False,  # repaired in /repo (fix: commit); shape searched again.
    "compxs/read/d1-d2-multiplier-shared": False,  # repaired in /repo (fix: commit); shape searched again.  # the D2 multiplier is stored under the key of the D1 multiplier  # fileWideChiFlag / numDelayedFam > 0: rwMatrix(contents, (a, b))
}


def _excluded(case, sig):
    """True when the generators must stay away from the known shape ``sig``.  VP_C09_INCLUDE_KNOWN=all (or a comma
    separated list of signatures) switches exclusions off for a trial run against a repaired tree."""
    inc = os.environ.get("VP_C09_INCLUDE_KNOWN", "")
    if inc and (inc == "all" or sig in inc.split(",")):
        return False
    return EXCLUDE_KNOWN.get(sig, False) and not case.get("allow_known")


def _tmp(name):
    from vp import env

    return os.path.join(env.scratch_dir(), name)


def _rm(*paths):
    for p in paths:
        try:
            os.remove(p)
        except OSError:
            pass


def _read(path, mode="rb"):
    with open(path, mode) as f:
        return f.read()


# =====================================================================================================
# part 1: L-record - field sequences through the record writers/readers against the struct reference


def _np():
    import numpy as np

    return np


def _expand(f):
    """Give matrix fields their values (stream order) from their seed."""
    if f["t"] in ("matrix", "dmatrix", "imatrix") and "v" not in f:
        n = 1
        for s in f["shape"]:
            n *= s
        fl = ref.Fill(f["seed"])
        vals = {"matrix": fl.f32s, "dmatrix": fl.f64s}.get(f["t"], lambda k: fl.ints(k, -999999999, 999999999))(n)
        f = dict(f, v=vals)
    return f


def _rw(rec, f, writing):
    """Call the rw* routine for field ``f`` on armi record ``rec``; returns the value as a flat python list/scalar."""
    np = _np()
    t = f["t"]
    if t == "int":
        return rec.rwInt(f["v"] if writing else None)
    if t == "long":
        return rec.rwLong(f["v"] if writing else None)
    if t == "float":
        return rec.rwFloat(f["v"] if writing else None)
    if t == "double":
        return rec.rwDouble(f["v"] if writing else None)
    if t == "bool":
        return rec.rwBool(f["v"] if writing else None)
    if t == "str":
        return rec.rwString(f["v"] if writing else None, f["n"])
    if t == "list":
        kind = {"int": "int", "float": "float", "double": "double", "str": "string"}[f["of"]]
        got = rec.rwList(list(f["v"]) if writing else None, kind, len(f["v"]), f.get("n", 0))
        return [x.item() if hasattr(x, "item") else x for x in list(got)]
    if t in ("matrix", "dmatrix", "imatrix"):
        shape = list(f["shape"])
        fshape = list(reversed(shape))
        contents = None
        if writing:
            dt = int if t == "imatrix" else float
            contents = np.array(f["v"], dtype=dt).reshape(fshape, order="F")
        func = {"matrix": rec.rwMatrix, "dmatrix": rec.rwDoubleMatrix, "imatrix": rec.rwIntMatrix}[t]
        got = func(contents, *shape)
        if list(got.shape) != fshape:
            return ("shape", list(got.shape))
        return [x.item() for x in got.flatten(order="F")]
    if t == "map":
        contents = dict(zip(f["keys"], f["v"])) if writing else {k: None for k in f["keys"]}
        got = rec.rwImplicitlyTypedMap(list(f["keys"]), contents)
        return [got[k] for k in f["keys"]]
    raise KeyError(t)


def _reencode(f, got):
    """Reference encoding of what the reader returned (None when it has the wrong python type/shape)."""
    try:
        if f["t"] == "str":
            if not isinstance(got, str):
                return None
            return ref.enc_field(dict(f, v=got))
        if f["t"] == "bool":
            if not isinstance(got, bool):
                return None
        if f["t"] in ("int", "long") and (isinstance(got, bool) or not isinstance(got, int)):
            return None
        if f["t"] in ("float", "double") and not isinstance(got, float):
            return None
        if isinstance(got, tuple):
            return None
        if f["t"] == "list" and f["of"] == "str" and not all(isinstance(x, str) for x in got):
            return None
        if isinstance(got, list) and len(got) != len(f["v"]):
            return None
        return ref.enc_field(dict(f, v=got))
    except Exception:  # noqa: BLE001 - wrong type for the reference encoder = not what was written
        return None


def _ints_in(f):
    if f["t"] == "int":
        return [f["v"]]
    if f["t"] == "list" and f["of"] == "int":
        return f["v"]
    if f["t"] == "imatrix":
        return f["v"]
    if f["t"] == "map":
        return [v for k, v in zip(f["keys"], f["v"]) if fm.scalar_kind(k) == "int"]
    return []


def _doubles_in(f):
    if f["t"] == "double":
        return [f["v"]]
    if f["t"] == "list" and f["of"] == "double":
        return f["v"]
    if f["t"] == "dmatrix":
        return f["v"]
    return []


def _exp3(x):
    return x != 0.0 and (abs(x) >= 1e100 or abs(x) < 1e-99)


def record_execute(case):
    from armi.nuclearDataIO.cccc import cccc

    out = Out()
    bounds = case["boundaries"]
    records = [[_expand(f) for f in r] for r in case["records"]]
    if _excluded(case, "record/binary/frame-count-long") and any(f["t"] == "long" for r in records for f in r):
        out.label("excluded:record/binary/frame-count-long")
        records = [[f for f in r if f["t"] != "long"] for r in records]
    kinds = sorted({f["t"] for r in records for f in r})
    out.label(*["field:" + k for k in kinds])
    out.label("boundaries" if bounds else "no-boundaries")
    out.nontrivial = any(len({f["t"] for f in r}) >= 2 for r in records)

    # ---- binary
    stream = io.BytesIO()
    expected = b""
    for r in records:
        pl = ref.payload(r)
        expected += ref.frame(pl) if bounds else pl
        with cccc.BinaryRecordWriter(stream, bounds) as w:
            for f in r:
                _rw(w, f, True)
        has_long = any(f["t"] == "long" for f in r)
        out.check(w.numBytes == len(pl), "record/binary/frame-count-long" if has_long else "record/binary/frame-count",
                  lambda: "writer counted %d bytes for a %d-byte payload; fields %s" % (w.numBytes, len(pl), [f["t"] for f in r]))
    data = stream.getvalue()
    if bounds:
        frames, problem = ref.split_frames(data)
        if not any(f["t"] == "long" for r in records for f in r):
            out.check(problem is None, "record/binary/framing", lambda: problem)
    if not any(v[0].startswith("record/binary/frame-count") for v in out.violations):
        out.check(data == expected, "record/binary/bytes",
                  lambda: "written %r expected %r" % (data[:80], expected[:80]))
    if not out.violations:
        rs = io.BytesIO(data)
        for ri, r in enumerate(records):
            with cccc.BinaryRecordReader(rs, bounds) as rd:
                for f in r:
                    got = _rw(rd, f, False)
                    out.check(_reencode(f, got) == ref.enc_field(f), "record/binary/read-%s" % f["t"],
                              lambda: "field %s read back as %r" % (str(f)[:200], got))
            if bounds:
                out.check(rd.numBytes == len(ref.payload(r)) and rd.byteCount == rd.numBytes, "record/binary/reader-count",
                          lambda: "reader numBytes %d byteCount %d payload %d" % (rd.numBytes, rd.byteCount, len(ref.payload(r))))
        out.check(rs.read() == b"", "record/binary/leftover", "bytes left after reading every record")

    # ---- ASCII (always with record boundaries; no long type in the ASCII classes)
    arecords = [[f for f in r if f["t"] != "long"] for r in records]
    skip = None
    if any(abs(v) >= 10**9 for r in arecords for f in r for v in _ints_in(f)):
        out.label("ascii:int>=1e9")
        if _excluded(case, "record/ascii/int-wider-than-field"):
            skip = "record/ascii/int-wider-than-field"
    if any(_exp3(v) for r in arecords for f in r for v in _doubles_in(f)):
        out.label("ascii:3-digit-exponent")
        if _excluded(case, "record/ascii/double-3-digit-exponent"):
            skip = skip or "record/ascii/double-3-digit-exponent"
    if skip:
        out.label("excluded:" + skip)
        return out
    wide_int = any(abs(v) >= 10**9 for r in arecords for f in r for v in _ints_in(f))
    wide_dbl = any(_exp3(v) for r in arecords for f in r for v in _doubles_in(f))
    sig_suffix = "int-wider-than-field" if wide_int else ("double-3-digit-exponent" if wide_dbl else None)
    s = io.StringIO()
    for r in arecords:
        with cccc.AsciiRecordWriter(s, True) as w:
            for f in r:
                _rw(w, f, True)
    text = s.getvalue()
    recs, problem = ref.split_ascii(text)
    ok = out.check(problem is None and len(recs) == len(arecords), "record/ascii/" + (sig_suffix or "framing"),
                   lambda: problem or "%d lines for %d records" % (len(recs), len(arecords)))
    if ok:
        for (cnt, _body), r in zip(recs, arecords):
            out.check(cnt == len(ref.payload(r)), "record/ascii/count", lambda: "count %d, payload %d bytes" % (cnt, len(ref.payload(r))))
        rs = io.StringIO(text)
        try:
            for r in arecords:
                with cccc.AsciiRecordReader(rs, True) as rd:
                    for f in r:
                        got = _rw(rd, f, False)
                        out.check(_reencode(f, got) == ref.enc_field(f), "record/ascii/" + (sig_suffix or "read-%s" % f["t"]),
                                  lambda: "field %s read back as %r" % (str(f)[:200], got))
            out.check(rs.read() == "", "record/ascii/" + (sig_suffix or "leftover"), "text left after reading every record")
        except (ValueError, BufferError) as exc:
            # the reader could not parse what the writer produced
            out.fail("record/ascii/" + (sig_suffix or "unparsable"), "%s: %s" % (type(exc).__name__, str(exc)[:300]))
    return out


# =====================================================================================================
# part 2: L-fixture - every shipped CCCC file read and re-written


def _fixture_table():
    """(relative path, module, reader attr / stream class, encoding).  Paths relative to the armi package."""
    nd = "nuclearDataIO/tests/fixtures/"
    cc = "nuclearDataIO/cccc/tests/fixtures/"
    t = []
    for name in ["ISOAA", "ISOAB", "combined-AA-AB.isotxs", "combined-and-lumped-AA-AB.isotxs", "mc2v3-AA.isotxs", "mc2v3-AB.isotxs"]:
        t.append((nd + name, "isotxs", "b"))
    for name in ["AA.gamiso", "AB.gamiso", "combined-AA-AB.gamiso", "combined-and-lumped-AA-AB.gamiso", "mc2v3-AA.gamiso", "mc2v3-AB.gamiso"]:
        t.append((nd + name, "gamiso", "b"))
    for name in ["AA.pmatrx", "AB.pmatrx", "combined-AA-AB.pmatrx", "combined-and-lumped-AA-AB.pmatrx", "mc2v3-AA.pmatrx", "mc2v3-AB.pmatrx"]:
        t.append((nd + name, "pmatrx", "b"))
    t += [
        ("tests/ISOAA", "isotxs", "b"),
        ("tests/COMPXS.ascii", "compxs", "a"),
        (cc + "labels.binary", "labels", "b"),
        (cc + "labels.ascii", "labels", "a"),
        (cc + "mc2v3.dlayxs", "dlayxs", "b"),
        (cc + "simple_cartesian.pwdint", "pwdint", "b"),
        (cc + "simple_cartesian.rtflux", "rtflux", "b"),
        (cc + "simple_cartesian.rzflux", "rzflux", "b"),
        (cc + "simple_hexz.dif3d", "dif3d", "b"),
        (cc + "simple_hexz.geodst", "geodst", "b"),
        (cc + "simple_hexz.nhflux", "nhflux", "b"),
        (cc + "simple_hexz.nhflux.variant", "nhflux-variant", "b"),
    ]
    return t


def _io(kind):
    """(readBinary, writeBinary, readAscii, writeAscii) with the (data, path) argument order for writers."""
    from armi.nuclearDataIO.cccc import compxs, dif3d, dlayxs, gamiso, geodst, isotxs, labels, nhflux, pmatrx, pwdint, rtflux, rzflux

    if kind == "nhflux":
        s = nhflux.NhfluxStream
        return s.readBinary, s.writeBinary, s.readAscii, s.writeAscii
    if kind == "nhflux-variant":
        s = nhflux.NhfluxStreamVariant
        return s.readBinary, s.writeBinary, s.readAscii, s.writeAscii
    if kind == "naflux":
        s = nhflux.NafluxStream
        return s.readBinary, s.writeBinary, s.readAscii, s.writeAscii
    if kind == "naflux-variant":
        s = nhflux.NafluxStreamVariant
        return s.readBinary, s.writeBinary, s.readAscii, s.writeAscii
    if kind == "rtflux":
        s = rtflux.RtfluxStream
        return s.readBinary, s.writeBinary, s.readAscii, s.writeAscii
    if kind == "atflux":
        s = rtflux.AtfluxStream
        return s.readBinary, s.writeBinary, s.readAscii, s.writeAscii
    m = {"isotxs": isotxs, "gamiso": gamiso, "pmatrx": pmatrx, "dlayxs": dlayxs, "compxs": compxs, "geodst": geodst,
         "dif3d": dif3d, "labels": labels, "pwdint": pwdint, "rzflux": rzflux}[kind]
    return m.readBinary, m.writeBinary, m.readAscii, m.writeAscii


_WIDE_INT = None


def _ascii_known_shape(text):
    """Name of the known ASCII-layer defect shape the text contains (an integer of 10+ digits, a 3-digit exponent)."""
    import re

    global _WIDE_INT
    if _WIDE_INT is None:
        _WIDE_INT = (re.compile(r"(?<![0-9.E])[+-][0-9]{10,}(?![0-9.E])"), re.compile(r"E[+-][0-9]{3}"))
    if _WIDE_INT[0].search(text):
        return "record/ascii/int-wider-than-field"
    if _WIDE_INT[1].search(text):
        return "record/ascii/double-3-digit-exponent"
    return None


def fixture_enum(tier):
    return [{"path": p, "kind": k, "enc": e} for p, k, e in _fixture_table()]


def _same_file_bytes(kind, a, b):
    """Byte identity, except for the ISOTXS/GAMISO label that armi documents it normalises on reading."""
    if a == b:
        return True
    if kind in ("isotxs", "gamiso") and len(a) == len(b) and a[:4] == b[:4]:
        return a[28:] == b[28:] and a[4:28].rstrip() != b[4:28].rstrip() and b[4:28].rstrip() in (b"ISOTXS", b"GAMISO")
    return False


def fixture_execute(case):
    import armi

    out = Out()
    kind, enc = case["kind"], case["enc"]
    src = os.path.join(os.path.dirname(armi.__file__), case["path"])
    rb, wb, ra, wa = _io(kind)
    out.label("kind:" + kind, "encoding:" + ("binary" if enc == "b" else "ascii"))
    out.nontrivial = True
    p1, p2, p3 = _tmp("fx1"), _tmp("fx2"), _tmp("fx3")
    try:
        if enc == "b":
            orig = _read(src)
            frames, problem = ref.split_frames(orig)
            out.check(problem is None, "fixture/framing-of-shipped-file", lambda: problem)
            data = rb(src)
            wb(data, p1)
            new = _read(p1)
            _, problem = ref.split_frames(new)
            out.check(problem is None, "fixture/%s/framing" % kind, lambda: problem)
            out.check(_same_file_bytes(kind, orig, new), "fixture/%s/rewrite-bytes" % kind,
                      lambda: "%s: %d bytes read, %d bytes re-written, first difference at byte %s" % (
                          case["path"], len(orig), len(new), next((i for i, (x, y) in enumerate(zip(orig, new)) if x != y), None)))
            # a second generation must be identical to the first (idempotence of read o write)
            data2 = rb(p1)
            wb(data2, p2)
            out.check(_read(p2) == new, "fixture/%s/rewrite-twice" % kind, "second re-write differs from the first")
            # cross encoding: binary -> ASCII -> binary
            if kind == "dlayxs" and _excluded(case, "dlayxs/ascii/read"):
                out.label("excluded:dlayxs/ascii/read")
                return out
            wa(data, p3)
            shape = _ascii_known_shape(_read(p3, "r"))
            if shape and _excluded(case, shape):
                out.label("excluded:" + shape)
                return out
            sig = shape or ("dlayxs/ascii/read" if kind == "dlayxs" else "fixture/%s/via-ascii" % kind)
            try:
                back = ra(p3)
            except (ValueError, BufferError, OSError) as exc:
                out.fail(sig, "%s: the ASCII file armi wrote cannot be read back: %s %s" % (case["path"], type(exc).__name__, str(exc)[-200:]))
                return out
            wb(back, p2)
            out.check(_read(p2) == new, sig, "%s: binary -> ASCII -> binary changes the file" % case["path"])
        else:
            orig = _read(src, "r")
            recs, problem = ref.split_ascii(orig)
            out.check(problem is None, "fixture/framing-of-shipped-file", lambda: problem)
            data = ra(src)
            wa(data, p1)
            new = _read(p1, "r")
            out.check(new == orig, "fixture/%s/rewrite-text" % kind,
                      lambda: "%s: %d characters read, %d re-written" % (case["path"], len(orig), len(new)))
            wb(data, p2)
            frames, problem = ref.split_frames(_read(p2))
            out.check(problem is None, "fixture/%s/framing" % kind, lambda: problem)
            if problem is None and recs:
                out.check([len(f) for f in frames] == [c for c, _ in recs], "fixture/%s/ascii-counts-vs-binary" % kind,
                          "record byte counts in the ASCII file differ from the binary payload lengths")
            back = rb(p2)
            wa(back, p3)
            out.check(_read(p3, "r") == orig, "fixture/%s/via-binary" % kind, "ASCII -> binary -> ASCII changes the file")
    finally:
        _rm(p1, p2, p3)
    return out


# =====================================================================================================
# part 3: L-format - containers built from scratch against the documented layouts


class _Fmt:
    def __init__(self, name, gen_, layout, build, compare, ios, reject=None):
        self.name, self.gen, self.layout, self.build, self.compare = name, gen_, layout, build, compare
        self.ios = ios  # callable(H) -> (readBinary, writeBinary, readAscii, writeAscii)
        self.reject = reject  # callable(H) -> exception types armi documents for this header, or None


def _first_mismatch(frames, exp):
    """Index and name of the first expected record the file does not hold at that position."""
    for i, (name, pl) in enumerate(exp):
        if i >= len(frames) or frames[i] != pl:
            return i, name
    if len(frames) > len(exp):
        return len(exp), "extra-record"
    return None, None


def _format_check(out, F, H, D, case):
    tag = F.name
    exp = [(name, ref.payload(fields)) for name, fields in F.layout(H, D)]
    rb, wb, ra, wa = F.ios(H)
    p1, p2, p3, p4 = _tmp("f1"), _tmp("f2"), _tmp("f3"), _tmp("f4")
    try:
        cont = F.build(H, D)
        rej = F.reject(H) if F.reject else None
        if rej:
            try:
                wb(cont, p1)
            except rej:
                out.rejected = True
                out.label("rejected-as-documented")
                return
            out.fail("%s/undocumented-acceptance" % tag, "a header the module documents as unsupported was written")
            return
        wb(cont, p1)
        buf = _read(p1)
        frames, problem = ref.split_frames(buf)
        if not out.check(problem is None, "%s/framing" % tag, lambda: problem):
            return
        idx, name = _first_mismatch(frames, exp)
        if not out.check(idx is None, "%s/write/%s" % (tag, name),
                         lambda: "record #%d (%s): file has %s, documented layout gives %d bytes; records in file %d, expected %d; header %s" % (
                             idx, name, ("%d bytes" % len(frames[idx])) if idx < len(frames) else "no such record",
                             len(exp[idx][1]) if idx < len(exp) else 0, len(frames), len(exp), _short(H))):
            return
        back = rb(p1)
        bad = F.compare(back, H, D)
        out.check(not bad, "%s/read/%s" % (tag, bad[0] if bad else ""), lambda: "fields differing after write->read: %s; header %s" % (bad, _short(H)))
        wb(back, p2)
        out.check(_read(p2) == buf, "%s/rewrite-bytes" % tag, "write(read(write(x))) differs from write(x)")
        # writing must not have changed the container
        bad0 = F.compare(cont, H, D)
        out.check(not bad0, "%s/write-mutates/%s" % (tag, bad0[0] if bad0 else ""), lambda: "fields changed by writing: %s" % bad0)
        # ---- ASCII
        wa(cont, p3)
        text = _read(p3, "r")
        recs, problem = ref.split_ascii(text)
        if not out.check(problem is None, "%s/ascii/framing" % tag, lambda: problem):
            return
        out.check([c for c, _ in recs] == [len(pl) for _, pl in exp], "%s/ascii/record-counts" % tag,
                  lambda: "ASCII record counts %s, documented payload lengths %s" % ([c for c, _ in recs][:12], [len(pl) for _, pl in exp][:12]))
        aback = ra(p3)
        bad = F.compare(aback, H, D)
        out.check(not bad, "%s/ascii-read/%s" % (tag, bad[0] if bad else ""), lambda: "fields differing after writeAscii->readAscii: %s" % bad)
        wa(aback, p4)
        out.check(_read(p4, "r") == text, "%s/ascii/rewrite-text" % tag, "writeAscii(readAscii(writeAscii(x))) differs")
        wb(aback, p2)
        out.check(_read(p2) == buf, "%s/ascii/to-binary" % tag, "binary written from the ASCII read differs from the direct binary")
    finally:
        _rm(p1, p2, p3, p4)


def _short(H):
    return {k: v for k, v in H.items() if not isinstance(v, (list, str)) or len(v) < 12}


# ---- GEODST
def geodst_execute(case):
    out = Out()
    case = dict(case)
    if 1 <= case["igom"] <= 3 and _excluded(case, "geodst/write/2D-1d-mesh"):
        out.label("excluded:geodst/write/2D-1d-mesh")
        case["igom"] += 5  # the corresponding 2-D geometries
    H, D = fm.geodst_gen(case)
    dim = fm.geodst_dim(H["IGOM"])
    out.label("dim:%d" % dim, "nrass:%d" % H["NRASS"], "5D:%s" % (H["IGOM"] > 0 or H["NBS"] > 0), "igom:%d" % H["IGOM"])
    out.nontrivial = H["IGOM"] != 18 or H["NRASS"] == 1 or H["NZWBB"] > 0
    _format_check(out, _GEODST, H, D, case)
    return out


_GEODST = _Fmt("geodst", fm.geodst_gen, fm.geodst_layout, fm.geodst_build, fm.geodst_compare, lambda H: _io("geodst"))


# ---- DIF3D
def dif3d_execute(case):
    out = Out()
    H, D = fm.dif3d_gen(case)
    out.label("4D:%s" % (case["numorp"] > 0), "5D:%s" % (case["ncmrzs"] > 0))
    out.nontrivial = case["numorp"] > 0 or case["ncmrzs"] > 0
    _format_check(out, _DIF3D, H, D, case)
    return out


_DIF3D = _Fmt("dif3d", fm.dif3d_gen, fm.dif3d_layout, fm.dif3d_build, fm.dif3d_compare, lambda H: _io("dif3d"))


# ---- LABELS
def labels_execute(case):
    out = Out()
    H, D = fm.labels_gen(case)
    out.label("3D:%s" % (H["numHalfHeightsDirection1"] > 0 or H["numHalfHeightsDirection2"] > 0),
              "4D:%s" % (H["numNuclideSets"] > 1), "5D:%s" % (H["numZoneAliases"] > 0), "nsets:%d" % min(H["numNuclideSets"], 2))
    out.nontrivial = len(fm.labels_present(H)) > 4
    _format_check(out, _LABELS, H, D, case)
    return out


_LABELS = _Fmt("labels", fm.labels_gen, fm.labels_layout, fm.labels_build, fm.labels_compare, lambda H: _io("labels"),
               reject=lambda H: (NotImplementedError,) if fm.labels_unsupported(H) else None)


# ---- PWDINT
def pwdint_execute(case):
    out = Out()
    H, D = fm.pwdint_gen(case)
    out.label("nblok:%d" % min(H["NBLOK"], 3), "uneven-blocks:%s" % (H["NINTJ"] % H["NBLOK"] != 0))
    out.nontrivial = H["NBLOK"] > 1
    _format_check(out, _PWDINT, H, D, case)
    return out


_PWDINT = _Fmt("pwdint", fm.pwdint_gen, fm.pwdint_layout, fm.pwdint_build, fm.pwdint_compare, lambda H: _io("pwdint"))


# ---- RTFLUX / ATFLUX
def rtflux_execute(case):
    out = Out()
    H, D = fm.rtflux_gen(case)
    out.label("ndim:%d" % H["NDIM"], "adjoint" if H["_adjoint"] else "regular", "nblok:%d" % min(H["NBLOK"], 3),
              "groups:%d" % min(H["NGROUP"], 2))
    out.nontrivial = H["NDIM"] >= 2 and (H["NBLOK"] > 1 or (H["_adjoint"] and H["NGROUP"] > 1) or H["NDIM"] == 2)
    _format_check(out, _RTFLUX, H, D, case)
    return out


_RTFLUX = _Fmt("rtflux", fm.rtflux_gen, fm.rtflux_layout, fm.rtflux_build, fm.rtflux_compare,
               lambda H: _io("atflux" if H["_adjoint"] else "rtflux"),
               reject=lambda H: (NotImplementedError,) if H["NDIM"] == 1 else ((ValueError,) if H["NDIM"] < 1 else None))


# ---- RZFLUX
def rzflux_execute(case):
    out = Out()
    H, D = fm.rzflux_gen(case)
    out.label("nblok:%d" % min(H["NBLOK"], 3), "uneven-blocks:%s" % (H["NZONE"] % H["NBLOK"] != 0))
    out.nontrivial = H["NBLOK"] > 1
    _format_check(out, _RZFLUX, H, D, case)
    return out


_RZFLUX = _Fmt("rzflux", fm.rzflux_gen, fm.rzflux_layout, fm.rzflux_build, fm.rzflux_compare, lambda H: _io("rzflux"))


# ---- NHFLUX / NAFLUX, Nodal / VARIANT
def _nhflux_kind(H):
    return ("naflux" if H["_adjoint"] else "nhflux") + ("-variant" if H["_variant"] else "")


def _nhflux_io(H):
    """Read with the number of data sets the file holds (the stream classes take it from the container)."""
    from armi.nuclearDataIO.cccc import nhflux

    rb, wb, ra, wa = _io(_nhflux_kind(H))
    if H["_sets"] == 1:
        return rb, wb, ra, wa
    cls = {"nhflux": nhflux.NhfluxStream, "naflux": nhflux.NafluxStream, "nhflux-variant": nhflux.NhfluxStreamVariant,
           "naflux-variant": nhflux.NafluxStreamVariant}[_nhflux_kind(H)]

    def reader(mode):
        return lambda path: cls._readWrite(nhflux.NHFLUX(variant=H["_variant"], numDataSetsToRead=H["_sets"]), path, mode)

    return reader("rb"), wb, reader("r"), wa


def nhflux_execute(case):
    out = Out()
    H, D = fm.nhflux_gen(case)
    out.label("variant" if H["_variant"] else "nodal", "adjoint" if H["_adjoint"] else "regular",
              "currents:%s" % H["_currents"], "sets:%d" % H["_sets"], "odd-moments:%s" % (H["_variant"] and H["nMoms"] > 0))
    out.nontrivial = H["_variant"] or H["_adjoint"] or H["nscoef"] > 1
    _format_check(out, _NHFLUX, H, D, case)
    return out


_NHFLUX = _Fmt("nhflux", fm.nhflux_gen, fm.nhflux_layout, fm.nhflux_build, fm.nhflux_compare, _nhflux_io,
               reject=lambda H: (ValueError,) if (H["_variant"] and H["iwnhfl"] == 2) else None)


# ---- FIXSRC (binary only; module functions take (fileName, array))
def fixsrc_execute(case):
    import numpy as np

    from armi.nuclearDataIO.cccc import fixsrc

    out = Out()
    H, D = fm.fixsrc_gen(case)
    out.label("dtype:%s" % D["fixSrc"].dtype)
    out.nontrivial = min(case["n"]) > 1 or max(case["n"]) > 1
    exp = [(name, ref.payload(fields)) for name, fields in fm.fixsrc_layout(H, D)]
    p1, p2 = _tmp("s1"), _tmp("s2")
    try:
        arr = D["fixSrc"].copy()
        fixsrc.writeBinary(p1, arr)
        buf = _read(p1)
        frames, problem = ref.split_frames(buf)
        if not out.check(problem is None, "fixsrc/framing", lambda: problem):
            return out
        idx, name = _first_mismatch(frames, exp)
        if not out.check(idx is None, "fixsrc/write/%s" % name, lambda: "record #%d (%s) differs from the documented layout; shape %s" % (idx, name, case["n"])):
            return out
        out.check(np.array_equal(arr, D["fixSrc"]), "fixsrc/write-mutates", "array changed by writing")
        if _excluded(case, "fixsrc/read/unallocated-array"):
            out.label("excluded:fixsrc/read/unallocated-array")
            return out
        try:
            back = fixsrc.readBinary(p1)
        except IndexError as exc:
            out.fail("fixsrc/read/unallocated-array", "readBinary of a file written by writeBinary (shape %s): IndexError %s" % (case["n"], exc))
            return out
        out.check(back.shape == D["fixSrc"].shape and np.array_equal(back, D["fixSrc"].astype(float)), "fixsrc/read/fixSrc",
                  lambda: "array read back differs (shape %s vs %s)" % (back.shape, D["fixSrc"].shape))
        fixsrc.writeBinary(p2, back)
        out.check(_read(p2) == buf, "fixsrc/rewrite-bytes", "write(read(write(x))) differs from write(x)")
    finally:
        _rm(p1, p2)
    return out



# =====================================================================================================
# part 4: cross-section libraries - shipped fixtures mutated / regenerated, judged by the container-level reference


def _sparse_problem(lib, kind):
    """Structural validity of every scatter matrix of a library read back (column indices inside the matrix):
    densifying a matrix with out-of-range indices corrupts the process heap, so this is checked first."""
    gam = kind == "gamiso"
    for nuc in lib.nuclides:
        mic = nuc.gammaXS if gam else nuc.micros
        mats = [("elasticScatter", mic.elasticScatter), ("elasticScatter1stOrder", mic.elasticScatter1stOrder),
                ("inelasticScatter", mic.inelasticScatter), ("n2nScatter", mic.n2nScatter), ("totalScatter", mic.totalScatter)]
        mats += [("higherOrderScatter[%s]" % k, v) for k, v in sorted(mic.higherOrderScatter.items())]
        for name, m in mats:
            if m is None or not hasattr(m, "check_format"):
                continue
            try:
                m.check_format(full_check=True)
            except ValueError as exc:
                return "%s.%s: %s" % (nuc.nucLabel, name, exc)
    return None


def _lib_check(out, tag, lib, recs_fn, ios, ascii_leg=True, ascii_sig=None, validate=None):
    """write -> reference bytes; read -> reference re-encoding identical; re-write bytes; ASCII detour."""
    rb, wb, ra, wa = ios
    exp = [(n, ref.payload(f)) for n, f in recs_fn(lib)]
    p1, p2, p3 = _tmp("x1"), _tmp("x2"), _tmp("x3")
    try:
        wb(lib, p1)
        buf = _read(p1)
        frames, problem = ref.split_frames(buf)
        if not out.check(problem is None, "%s/framing" % tag, lambda: problem):
            return False
        idx, name = _first_mismatch(frames, exp)
        if not out.check(idx is None, "%s/write/%s" % (tag, name),
                         lambda: "record #%d (%s): file has %s, the container encodes to %s bytes; %d records in file, %d expected" % (
                             idx, name, ("%d bytes" % len(frames[idx])) if idx < len(frames) else "no such record",
                             len(exp[idx][1]) if idx < len(exp) else "-", len(frames), len(exp))):
            return False
        back = rb(p1)
        problem = validate(back) if validate else None
        if not out.check(problem is None, "%s/read/invalid-sparse-matrix" % tag, lambda: "container read back holds a malformed matrix: %s" % problem):
            return False
        got = [(n, ref.payload(f)) for n, f in recs_fn(back)]
        idx, name = _first_mismatch([pl for _, pl in got], exp)
        out.check(idx is None, "%s/read/%s" % (tag, name), lambda: "record #%d (%s) re-encoded from the container read back differs from what was written" % (idx, name))
        wb(back, p2)
        out.check(_read(p2) == buf, "%s/rewrite-bytes" % tag, "write(read(write(x))) differs from write(x)")
        if ascii_leg:
            wa(lib, p3)
            text = _read(p3, "r")
            recs, problem = ref.split_ascii(text)
            out.check(problem is None and [c for c, _ in recs] == [len(pl) for _, pl in exp], "%s/ascii/record-counts" % tag,
                      lambda: problem or "ASCII record counts differ from the binary payload lengths")
            sig = ascii_sig or "%s/via-ascii" % tag
            try:
                aback = ra(p3)
            except (ValueError, BufferError, OSError) as exc:
                out.fail(sig, "the ASCII file armi wrote cannot be read back: %s %s" % (type(exc).__name__, str(exc)[-200:]))
                return False
            problem = validate(aback) if validate else None
            if not out.check(problem is None, "%s/ascii-read/invalid-sparse-matrix" % tag, lambda: "container read from ASCII holds a malformed matrix: %s" % problem):
                return False
            got = [(n, ref.payload(f)) for n, f in recs_fn(aback)]
            idx, name = _first_mismatch([pl for _, pl in got], exp)
            out.check(idx is None, "%s/ascii-read/%s" % (tag, name), lambda: "record #%d (%s) re-encoded from the container read from ASCII differs from what was written" % (idx, name))
            wb(aback, p2)
            out.check(_read(p2) == buf, sig, "binary written from the ASCII read differs from the direct binary")
        return True
    finally:
        _rm(p1, p2, p3)


_ND = "nuclearDataIO/tests/fixtures/"
_ISOTXS_FIX = [_ND + "ISOAA", _ND + "combined-and-lumped-AA-AB.isotxs", "tests/ISOAA", _ND + "mc2v3-AB.isotxs"]
_GAMISO_FIX = [_ND + "AA.gamiso", _ND + "combined-and-lumped-AA-AB.gamiso", _ND + "AB.gamiso", _ND + "mc2v3-AA.gamiso"]
_PMATRX_FIX = [_ND + "AA.pmatrx", _ND + "combined-and-lumped-AA-AB.pmatrx", _ND + "AB.pmatrx", _ND + "combined-AA-AB.pmatrx"]


def _armi_path(rel):
    import armi

    return os.path.join(os.path.dirname(armi.__file__), rel)


def _keep(lib, pick):
    labels = lib.nuclideLabels
    keep = {i % len(labels) for i in pick}
    for i, lab in enumerate(labels):
        if i not in keep:
            del lib[lab]
    return len(keep)


def isotxs_execute(case):
    import numpy as np

    from vp.model import c09_xs as xs

    out = Out()
    kind = case["kind"]
    gam = kind == "gamiso"
    ios = _io(kind)
    fixtures = _GAMISO_FIX if gam else _ISOTXS_FIX
    rel = fixtures[case["fixture"] % len(fixtures)]
    lib = ios[0](_armi_path(rel))
    md = lib.gamisoMetadata if gam else lib.isotxsMetadata
    ng = md["numGroups"]
    fl = ref.Fill(case["seed"])
    n = _keep(lib, case["pick"])
    out.label("kind:" + kind, "nuclides:%d" % min(n, 3))
    md["fileId"] = fl.i(0, 9)
    md["libraryLabel"] = case["libLabel"]
    nsblok = min(case["nsblok"], ng)
    if nsblok > 1 and _excluded(case, "isotxs/read/sub-blocked-scatter"):
        out.label("excluded:isotxs/read/sub-blocked-scatter")
        nsblok = 1
    md["subblockingControl"] = nsblok
    if case["fileChi"] and md["fileWideChiFlag"] == 0:
        md["fileWideChiFlag"] = 1
        md["chi"] = np.array(fl.f32s(ng))
        out.label("file-wide-chi:added")
    mutated = nsblok > 1 or bool(case["drop_xs"]) or case["strpd"] > 0 or case["scale"] != 1.0
    max_up = 0
    for ni, nuc in enumerate(lib.nuclides):
        nmd = nuc.gamisoMetadata if gam else nuc.isotxsMetadata
        mic = nuc.gammaXS if gam else nuc.micros
        for x in case["drop_xs"]:
            nmd[x] = 0
        if case["strpd"] > 0 and ni % 2 == 0:
            nmd["strpd"] = case["strpd"]
            mic.strpd = np.array(fl.f32s(ng * case["strpd"])).reshape(ng, case["strpd"])
        nblk = md["maxScatteringBlocks"]
        b = case["drop_block"]
        if b < nblk and ni % 2 == 1 and nmd["ords"][b] > 0:
            ords = np.array(nmd["ords"])
            ords[b] = 0
            nmd["ords"] = ords
            mutated = True
            out.label("scatter-block-dropped")
        if md["fileWideChiFlag"] == 1 and nmd["fisFlag"] > 0 and nmd["chiFlag"] == 1 and ni % 2 == 0:
            nmd["chiFlag"] = 0  # this nuclide uses the file-wide spectrum
            mic.chi = md["chi"]
            out.label("nuclide-uses-file-chi")
        if case["scale"] != 1.0:
            mic.total = np.asarray(mic.total) * case["scale"]
            if mic.elasticScatter is not None:
                mic.elasticScatter = mic.elasticScatter * case["scale"]
        if case.get("upscatter", 0) > 0 and ni % 3 != 2:
            # regenerate every present scattering block of this nuclide with bands reaching above the diagonal
            # (JJ > 1: up-scatter) and below it; values float32-exact and non-zero inside the band
            from scipy import sparse

            jband, jj = dict(nmd["jband"]), dict(nmd["jj"])
            for blk in range(nblk):
                if nmd["ords"][blk] <= 0:
                    continue
                dense = np.zeros((ng, ng))
                for g in range(ng):
                    up = fl.i(0, min(case["upscatter"], ng - 1 - g))
                    down = fl.i(0, min(3, g))
                    jj[g, blk] = up + 1
                    jband[g, blk] = up + 1 + down
                    for col in range(g - down, g + up + 1):
                        v = fl.f32()
                        dense[g, col] = v if v != 0.0 else 1.0
                    max_up = max(max_up, up)
                xs.set_scatter_matrix(mic, nmd, blk, sparse.csr_matrix(dense))
            nmd["jband"], nmd["jj"] = jband, jj
            mutated = True
    if max_up > 0:
        md["maxUpScatterGroups"] = max(md["maxUpScatterGroups"], max_up)
    out.label("nsblok:%d" % min(nsblok, 3), "drop_xs:%d" % len(case["drop_xs"]), "strpd:%s" % (case["strpd"] > 0), "scale:%s" % case["scale"],
              "up-scatter:%s" % (max_up > 0))
    out.nontrivial = mutated or n < 20
    recs_fn = lambda lb: xs.isotxs_records(lb, kind)  # noqa: E731
    if nsblok == 1:
        _lib_check(out, kind, lib, recs_fn, ios, ascii_leg=case["ascii"], validate=lambda lb: _sparse_problem(lb, kind))
        return out
    # ---- sub-blocked scattering (known shape; only with allow_known): judge writer and reader separately
    rb, wb, _ra, _wa = ios
    exp = [(nm, ref.payload(f)) for nm, f in recs_fn(lib)]
    p1 = _tmp("x1")
    try:
        wb(lib, p1)
        frames, problem = ref.split_frames(_read(p1))
        out.check(problem is None, "%s/framing" % kind, lambda: problem)
        idx, name = _first_mismatch(frames, exp)
        if idx is not None and name == "2D-file-data" and _first_mismatch(frames[3:], exp[3:])[0] is None:
            out.fail("isotxs/write/sub-blocked-record-offsets",
                     "NSBLOK=%d: the nuclide records are written as documented but the record offsets LOCA(I) in the 2D record do not count the sub-block records" % nsblok)
        else:
            out.check(idx is None, "%s/write/%s" % (kind, name), lambda: "record #%d (%s) differs (NSBLOK=%d)" % (idx, name, nsblok))
        try:
            back = rb(p1)
        except OSError as exc:
            out.fail("isotxs/read/sub-blocked-scatter", "NSBLOK=%d: the file armi wrote cannot be read back: %s" % (nsblok, str(exc).strip().splitlines()[-1][:200]))
            return out
        got = [(nm, ref.payload(f)) for nm, f in recs_fn(back)]
        idx, name = _first_mismatch([pl for _, pl in got][3:], exp[3:])
        out.check(idx is None, "isotxs/read/sub-blocked-scatter", lambda: "NSBLOK=%d: record %s of the container read back differs from what was written" % (nsblok, name))
    finally:
        _rm(p1)
    return out


def pmatrx_execute(case):
    import numpy as np

    from vp.model import c09_xs as xs

    out = Out()
    ios = _io("pmatrx")
    lib = ios[0](_armi_path(_PMATRX_FIX[case["fixture"] % len(_PMATRX_FIX)]))
    md = lib.pmatrxMetadata
    nn, ngam = md["numNeutronGroups"], md["numGammaGroups"]
    fl = ref.Fill(case["seed"])
    n = _keep(lib, case["pick"])
    if case["dose"]:
        md["hasDoseConversionFactor"] = True
        lib.neutronDoseConversionFactors = np.array(fl.f32s(nn))
        lib.gammaDoseConversionFactors = np.array(fl.f32s(ngam))
    activation = case["activation"]
    if activation and _excluded(case, "pmatrx/activation-xs-rwList-arguments"):
        out.label("excluded:pmatrx/activation-xs-rwList-arguments")
        activation = 0
    orders = set()
    for ni, nuc in enumerate(lib.nuclides):
        heat, gheat, order = case["flags"][ni % len(case["flags"])]
        if order >= 3 and _excluded(case, "pmatrx/read/production-matrix-order-3"):
            out.label("excluded:pmatrx/read/production-matrix-order-3")
            order = 2
        nmd = nuc.pmatrxMetadata
        nmd["hasNeutronHeatingAndDamage"] = bool(heat)
        nmd["hasGammaHeating"] = bool(gheat)
        nmd["maxScatteringOrder"] = order
        orders.add(order)
        if order >= 2:
            nuc.linearAnisotropicProduction = np.array(fl.f32s(nn * ngam)).reshape(ngam, nn)
        if order >= 3:
            nuc.nOrderProductionMatrix[3] = np.array(fl.f32s(nn * ngam)).reshape(ngam, nn)
        if activation and ni == 0:
            nmd["numberNeutronXS"] = 1
            nmd["activationXS"] = [np.array(fl.f32s(nn))]
            nmd["activationMT"] = [102]
            nmd["activationMTU"] = [0]
    md["maxScatteringOrder"] = max(orders)
    out.label("dose:%s" % case["dose"], "nuclides:%d" % min(n, 3), *["order:%d" % o for o in sorted(orders)])
    out.nontrivial = True
    known = None
    if activation:
        known = ("pmatrx/activation-xs-rwList-arguments", "a nuclide with numberNeutronXS = 1 cannot be written")
    elif max(orders) >= 3:
        known = ("pmatrx/read/production-matrix-order-3", "a PMATRX file with a third-order production matrix, written by armi, cannot be read back")
    if known:
        # known shape (only with allow_known / on a repaired tree): a refusal anywhere in the round trip is that finding
        try:
            _lib_check(out, "pmatrx", lib, xs.pmatrx_records, ios, ascii_leg=case["ascii"])
        except OSError as exc:
            out.fail(known[0], "%s: %s" % (known[1], str(exc)[:160]))
        return out
    _lib_check(out, "pmatrx", lib, xs.pmatrx_records, ios, ascii_leg=case["ascii"])
    return out


_DLAYXS_FIX = "nuclearDataIO/cccc/tests/fixtures/mc2v3.dlayxs"


def dlayxs_execute(case):
    import numpy as np

    from armi.nucDirectory import nuclideBases
    from armi.nuclearDataIO.cccc import dlayxs
    from vp.model import c09_xs as xs

    out = Out()
    ios = _io("dlayxs")
    src = ios[0](_armi_path(_DLAYXS_FIX))
    ids = [str(x) for x in src.metadata["nuclideIDs"]]
    keep = sorted({i % len(ids) for i in case["pick"]})
    fl = ref.Fill(case["seed"])
    if case["scratch"]:
        ng, nfam = case["ng"], case["nfam"]
        d = dlayxs.Dlayxs()
        md = d.metadata
        md["label"] = case["label"]
        md["numEnergyGroups"], md["numFamilies"], md["dummy"] = ng, nfam, fl.i(0, 3)
        md["nuclideIDs"] = np.array([ids[i] for i in keep])
        md["precursorDecayConstants"] = np.array(fl.f32s(nfam))
        md["delayEmissionSpectrum"] = np.array(fl.f32s(ng * nfam)).reshape(ng, nfam)
        d.neutronEnergyUpperBounds = np.array(fl.f32s(ng))
        md["minEnergy"] = fl.f32()
        md["nkfam"] = np.array([6] * len(keep))
        md["recordsToSkip"] = np.array(list(range(len(keep))))
        md["dummy2"] = np.array(fl.strs(case["ndummy2"], 4)) if case["ndummy2"] else np.array([])
        for i in keep:
            nuc = nuclideBases.byMcc3Id[ids[i]]
            data = dlayxs.DelayedNeutronData(ng, 6)
            fam = fl.ints(6, 1, nfam)
            data.delayNeutronsPerFission = np.array(fl.f32s(6 * ng)).reshape(6, ng)
            for k, f in enumerate(fam):
                data.precursorDecayConstants[k] = md["precursorDecayConstants"][f - 1]
                data.delayEmissionSpectrum[k, :] = md["delayEmissionSpectrum"][:, f - 1]
            # the module tells reading from writing by the first nuclide's spectrum being all zero
            data.delayEmissionSpectrum[0, 0] = data.delayEmissionSpectrum[0, 0] or 1.0
            d[nuc] = data
            d.nuclideFamily[nuc] = np.array(fam)
    else:
        d = src
        md = d.metadata
        nucs = list(d.keys())
        for i, nuc in enumerate(nucs):
            if i not in keep:
                del d[nuc]
                del d.nuclideFamily[nuc]
        for k in ("nuclideIDs", "nkfam", "recordsToSkip"):
            md[k] = np.array([md[k][i] for i in keep])
    out.label("scratch" if case["scratch"] else "fixture-subset", "nuclides:%d" % min(len(keep), 3))
    out.nontrivial = True
    ascii_leg = case["ascii"]
    if ascii_leg and _excluded(case, "dlayxs/ascii/read"):
        out.label("excluded:dlayxs/ascii/read")
        ascii_leg = False
    _lib_check(out, "dlayxs", d, xs.dlayxs_records, ios, ascii_leg=ascii_leg, ascii_sig="dlayxs/ascii/read")
    return out


def compxs_execute(case):
    import numpy as np

    from vp.model import c09_xs as xs

    out = Out()
    ios = _io("compxs")
    lib = ios[2](_armi_path("tests/COMPXS.ascii"))
    md = lib.compxsMetadata
    ng = md["numGroups"]
    fl = ref.Fill(case["seed"])
    md["maxScatteringOrder"] = min(case["order"], md["maxScatteringOrder"])
    touched = sorted(set(case["regions"]))
    for ri in touched:
        reg = lib.regions[ri % len(lib.regions)]
        reg.macros.total = np.asarray(reg.macros.total) * case["scale"]
        reg.macros.n2n = np.array(fl.f64s(ng))
        reg.metadata["powerConvMult"] = fl.f64s(ng)
        reg.metadata["d3Additive"] = fl.f64s(ng)
    # composition chi flags: 0 = not fissile, 1 = chi vector, n > 1 = chi matrix with n columns per group
    chi_flags = case.get("chi") or []
    for ri, flag in enumerate(chi_flags[: len(lib.regions)]):
        if flag is None:
            continue
        reg = lib.regions[ri]
        reg.metadata["chiFlag"] = flag
        if flag > 0:
            reg.macros.fission = np.array(fl.f64s(ng))
            reg.macros.nuSigF = np.array(fl.f64s(ng))
            reg.macros.chi = np.array(fl.f64s(ng * flag)).reshape(ng, flag)
        out.label("chi-flag:%d" % min(flag, 2))
    if chi_flags:
        md["numFissComps"] = sum(1 for r in lib.regions if r.metadata["chiFlag"])
    known = None
    if case["fileChi"] or case["delayed"]:
        if _excluded(case, "compxs/shape-passed-as-tuple"):
            out.label("excluded:compxs/shape-passed-as-tuple")
        else:
            known = "compxs/shape-passed-as-tuple"
            if case["fileChi"]:
                md["fileWideChiFlag"] = 1
                md["fileWideChi"] = np.array(fl.f32s(ng)).reshape(ng, 1)
            if case["delayed"]:
                md["numDelayedFam"] = case["delayed"]
                md["delayedChi"] = np.array(fl.f32s(ng * case["delayed"])).reshape(case["delayed"], ng)
                md["delayedDecayConstant"] = np.array(fl.f64s(case["delayed"]))
    out.label("order:%d" % md["maxScatteringOrder"], "scale:%s" % case["scale"])
    out.nontrivial = md["maxScatteringOrder"] != 3 or case["scale"] != 1.0 or any(f is not None for f in chi_flags)
    if known:
        try:
            _lib_check(out, "compxs", lib, xs.compxs_records, ios, ascii_leg=True)
        except OSError as exc:
            out.fail(known, "a library with fileWideChiFlag=%d numDelayedFam=%d cannot be written: %s" % (
                md["fileWideChiFlag"], md["numDelayedFam"], str(exc).strip().splitlines()[-1][:200]))
        return out
    ok = _lib_check(out, "compxs", lib, xs.compxs_records, ios, ascii_leg=True)
    if ok and case.get("d1d2"):
        # a legal COMPXS file whose first- and second-direction diffusion multipliers differ (as DIF3D writes for
        # directional diffusion): made by patching one double of the file armi wrote; read -> write must reproduce it
        if _excluded(case, "compxs/read/d1-d2-multiplier-shared"):
            out.label("excluded:compxs/read/d1-d2-multiplier-shared")
            return out
        import struct

        p1, p2 = _tmp("x1"), _tmp("x2")
        try:
            ios[1](lib, p1)
            buf = bytearray(_read(p1))
            frames, _ = ref.split_frames(bytes(buf))
            recs = xs.compxs_records(lib)
            gi = next(i for i, (n, _f) in enumerate(recs) if n == "4D-group-xs")
            off = sum(8 + len(f) for f in frames[:gi]) + 4
            fields = recs[gi][1]
            # position of the D1 multiplier: after the primary cross sections, chi data, total scatter column and power multiplier
            k = next(i for i, f in enumerate(fields) if f["t"] == "list" and i >= 4) if lib.regions[0].metadata["chiFlag"] == 0 else None
            if k is not None:
                pos = off + len(ref.payload(fields[: k + 1])) + 8
                buf[pos : pos + 8] = struct.pack("<d", 2.5)
                with open(p1, "wb") as f:
                    f.write(bytes(buf))
                back = ios[0](p1)
                ios[1](back, p2)
                out.check(_read(p2) == bytes(buf), "compxs/read/d1-d2-multiplier-shared",
                          "a COMPXS file with D1 multiplier 2.5 and D2 multiplier 1.0 comes back with D1 multiplier %r after read -> write" % (
                              back.regions[0].metadata["d1Multiplier"][0],))
        finally:
            _rm(p1, p2)
    return out


_RULE_FMT = ("Hypothesis: header values (dimension/flag/block counts) + seed; container built from scratch; oracle = documented "
             "record layout encoded by the struct reference (file bytes record by record), write->read field equality, "
             "write(read(write(x))) bytes, ASCII write/read/re-write and ASCII->binary identity; ")

_RULE_XS = ("Hypothesis: a shipped library mutated (or regenerated) per case; oracle = container-level reference encoding (anchored: it reproduces "
            "every shipped fixture byte for byte): written bytes record by record, read-back container re-encodes identically, "
            "write(read(write(x))) bytes, binary->ASCII->binary identity; ")

PARTS = [
    Part("record", record_execute, strategy=gen.record_case, budget={"quick": 3000, "thorough": 300000}, procs={"quick": 4, "thorough": 16},
         rule="Hypothesis: 1-3 records of 0-8 fields (int, long, float, double, bool, string(n), list, float/double/int matrix, "
              "implicitly typed map) through BinaryRecordWriter/Reader (with and without boundaries) and AsciiRecordWriter/Reader; "
              "oracle: struct reference bytes, count == payload length, leading == trailing count, values read back bit-identical; "
              "non-trivial = a record mixing >= 2 field types"),
    Part("fixtures", fixture_execute, enumerate=fixture_enum, exhaustive=True, procs={"quick": 3, "thorough": 8},
         rule="every CCCC fixture shipped in the repository (30 files): read, re-write, bytes identical; second generation identical; "
              "binary->ASCII->binary (ASCII->binary->ASCII) identical; framing of every record",
         bound=lambda t: "30 shipped files"),
    Part("geodst", geodst_execute, strategy=gen.geodst_case, budget={"quick": 300, "thorough": 6000}, procs={"quick": 2, "thorough": 16},
         rule=_RULE_FMT + "GEODST: IGOM over all defined geometries, NRASS 0/1, NBS/NBCS/NIBCS/NZWBB 0-3; non-trivial = not the fixture's shape (IGOM 18, NRASS 0)"),
    Part("dif3d", dif3d_execute, strategy=gen.dif3d_case, budget={"quick": 150, "thorough": 3000}, procs={"quick": 1, "thorough": 8},
         rule=_RULE_FMT + "DIF3D: NUMORP, NCMRZS 0-5; non-trivial = 4D or 5D record present"),
    Part("labels", labels_execute, strategy=gen.labels_case, budget={"quick": 200, "thorough": 4000}, procs={"quick": 1, "thorough": 8},
         rule=_RULE_FMT + "LABELS: counts 0-4 incl. NSETS 0/1/2+, unsupported control-rod/burnup headers must raise NotImplementedError; non-trivial = an optional record present"),
    Part("pwdint", pwdint_execute, strategy=gen.pwdint_case, budget={"quick": 200, "thorough": 4000}, procs={"quick": 1, "thorough": 8},
         rule=_RULE_FMT + "PWDINT: mesh 1-5 x 1-6 x 1-4, every valid NBLOK; non-trivial = NBLOK > 1"),
    Part("rtflux", rtflux_execute, strategy=gen.rtflux_case, budget={"quick": 250, "thorough": 5000}, procs={"quick": 1, "thorough": 8},
         rule=_RULE_FMT + "RTFLUX/ATFLUX: NDIM 2/3 (1 and 0 must be refused), groups 1-4, blocks; non-trivial = blocked, 2-D or adjoint multi-group"),
    Part("rzflux", rzflux_execute, strategy=gen.rzflux_case, budget={"quick": 200, "thorough": 4000}, procs={"quick": 1, "thorough": 8},
         rule=_RULE_FMT + "RZFLUX: zones 1-8, groups 1-5, every valid NBLOK; non-trivial = NBLOK > 1"),
    Part("fixsrc", fixsrc_execute, strategy=gen.fixsrc_case, budget={"quick": 150, "thorough": 3000}, procs={"quick": 1, "thorough": 8},
         rule="Hypothesis: source array shapes up to 4x4x3x3, float32/float64; written file against the documented layout; read-back and re-write"),
    Part("nhflux", nhflux_execute, strategy=gen.nhflux_case, budget={"quick": 300, "thorough": 6000}, procs={"quick": 2, "thorough": 16},
         rule=_RULE_FMT + "NHFLUX/NAFLUX Nodal and VARIANT: groups, planes, nodes, surfaces, moments (even/odd), NSCOEF, boundary/symmetry pointer counts, "
              "IWNHFL 0/1 (2 must be refused), 1-2 data sets; non-trivial = VARIANT, adjoint or NSCOEF > 1"),
    Part("isotxs", isotxs_execute, strategy=gen.isotxs_case, budget={"quick": 160, "thorough": 3000}, procs={"quick": 3, "thorough": 16},
         rule=_RULE_XS + "ISOTXS/GAMISO: 4 fixtures each, nuclide subsets, optional principal cross sections dropped, STRPD added, a scattering block "
              "dropped, file-wide chi added and used, values scaled (incl. to zero), library label/file id; NSBLOK > 1 only in the defect replay; "
              "non-trivial = any mutation or a subset"),
    Part("pmatrx", pmatrx_execute, strategy=gen.pmatrx_case, budget={"quick": 100, "thorough": 2000}, procs={"quick": 2, "thorough": 8},
         rule=_RULE_XS + "PMATRX: 4 fixtures, nuclide subsets, dose-conversion record, per-nuclide heating/damage/gamma-heating flags, production "
              "matrices of order 0-3"),
    Part("dlayxs", dlayxs_execute, strategy=gen.dlayxs_case, budget={"quick": 120, "thorough": 2500}, procs={"quick": 1, "thorough": 8},
         rule=_RULE_XS + "DLAYXS: subsets of the shipped file and libraries generated from scratch (1-5 groups, 1-8 families, 1-6 nuclides, label "
              "length 0-40, 0-3 trailing 4-character words)"),
    Part("compxs", compxs_execute, strategy=gen.compxs_case, budget={"quick": 60, "thorough": 1200}, procs={"quick": 1, "thorough": 8},
         rule=_RULE_XS + "COMPXS: shipped library with the scattering order lowered (0-3) and region data replaced/scaled; binary and ASCII"),
]
