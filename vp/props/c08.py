"""C08 - grid symmetry and rotation operations agree with the physical geometry."""
import math

from hypothesis import strategies as st

from vp.model import hexmodel as hm
from vp.runner import Out, Part

PROPERTY = "C08"
LEVEL = "exploration"
ASSUMPTIONS = [
    "coordinates are compared with an absolute tolerance of 1e-9 * pitch * max(1, ring) (free coordinates: 1e-9 * "
    "max(pitch, |xyz|)); indices, ring numbers, boundary-vector entries and orientation (mod 360) are compared exactly",
    "the reference geometry (vp/model/hexmodel.py) rotates cells in exact integer cube coordinates and takes centres "
    "from the documented lattice basis; it shares only the documented conventions with armi (position 1 on the +i axis, "
    "counter-clockwise numbering, third-core domain = polar angles [0, 120] measured in the lattice frame, i.e. minus "
    "30 degrees for corners-up grids)",
    "per-corner/per-edge data follow the convention documented in HexBlock._rotateBoundaryParameters and its tests: "
    "entry i moves to entry i+k, i.e. new[i] = old[(i-k) mod 6]",
    "hex blocks are assembled directly (HexBlock + components + HexGrid locators) the way BlockBlueprint.construct and "
    "autoCreateSpatialGrids do it, not through blueprint text",
    "Cartesian grids pair 'through center' symmetry with isOffset=False and the other symmetries with isOffset=True, "
    "as GridBlueprint.construct does; periodic (rotational) variants use a square pitch",
]

# Candidate genuine defect (AUTHORING rule 3): HexAssembly.rotate refuses valid multiples of 60 degrees whose float
# remainder modulo pi/3 lands just below pi/3 instead of near 0.  With the switch on, generated histories route such an
# angle through the blocks directly (label excluded:<sig>) so that the search continues past it.
SIG_WRAP = "assembly/rotate-refuses-multiple-of-60/remainder-wraps"
EXCLUDE_KNOWN = {SIG_WRAP: False}  # repaired in /repo (fix: commit bda37f8); the shape is searched again

KS = list(range(-12, 13))
_KS_SHRINK_ORDER = sorted(KS, key=lambda k: (abs(k), k < 0))  # uniform draw, shrinks towards small |k|


def _close(a, b, tol):
    return len(a) == len(b) and all(abs(float(x) - float(y)) <= tol for x, y in zip(a, b))


def _pitch_for(ring):
    return 1.0 if ring % 3 else 16.142


# --------------------------------------------------------------------------------------------
# part 1: HexGrid.rotateIndex, every cell of rings 1..N x both orientations x k in [-12, 12]

_ROT_RINGS = {"quick": 20, "thorough": 60}
_ADD_FULL_RINGS = 4  # all (a, b) pairs for additivity up to this ring, a sample of b beyond
_ADD_SAMPLE_B = (-7, -2, -1, 1, 3, 6)


def rot_enum(tier):
    return [{"ring": r, "cornersUp": cu, "pitch": _pitch_for(r)} for cu in (False, True) for r in range(1, _ROT_RINGS[tier] + 1)]


def rot_execute(case):
    from armi.reactor import grids

    out = Out()
    ring, cu, pitch = case["ring"], case["cornersUp"], case["pitch"]
    g = grids.HexGrid.fromPitch(pitch, numRings=3, cornersUp=cu)
    tol = 1e-9 * pitch * max(1, ring)
    cells = hm.ring_cells(ring)
    out.evals = len(cells) * len(KS)
    out.nontrivial_count = len(cells) * sum(1 for k in KS if k % 6) if ring >= 2 else 0
    for i, j in cells:
        loc = g[i, j, 0]
        c0 = hm.centre(i, j, pitch, cu)
        images = {}
        for k in KS:
            new = g.rotateIndex(loc, k)
            idx = (new.i, new.j, new.k)
            images[k] = idx
            ei, ej = hm.rotate60(i, j, k)
            if not out.check(idx == (ei, ej, 0), "rotateIndex/index",
                             lambda: "cell %s cornersUp=%s rotated %d steps -> %s, geometry gives %s" % ((i, j), cu, k, idx, (ei, ej, 0))):
                continue
            got = g.getCoordinates(idx)
            ex = hm.rot_xy(c0[0], c0[1], 60.0 * k)
            out.check(_close(got, (ex[0], ex[1], 0.0), tol), "rotateIndex/coordinates",
                      lambda: "cell %s cornersUp=%s k=%d: centre %s, R(60k) of the old centre is %s" % ((i, j), cu, k, list(got), ex))
            out.check(g.getRingPos(idx)[0] == ring and hm.hex_distance(idx[0], idx[1]) == ring - 1, "rotateIndex/ring-preserved",
                      lambda: "cell %s ring %d k=%d -> %s in ring %s" % ((i, j), ring, k, idx, g.getRingPos(idx)))
            out.check(new.grid is g, "rotateIndex/grid-kept", "result is not on the locator's grid")
        out.check(images[0] == (i, j, 0) and images[6] == (i, j, 0) and images[-6] == (i, j, 0) and images[12] == (i, j, 0),
                  "rotateIndex/identity-at-6", lambda: "cell %s: k=0,6,-6,12 give %s" % ((i, j), [images[k] for k in (0, 6, -6, 12)]))
        out.check(all(images[k] == images[k + 6] for k in range(-12, 7)), "rotateIndex/period-6", "cell %s" % ((i, j),))
        bs = KS if ring <= _ADD_FULL_RINGS else _ADD_SAMPLE_B
        for a in KS:
            mid = grids.IndexLocation(images[a][0], images[a][1], images[a][2], g)
            for b in bs:
                two = g.rotateIndex(mid, b)
                s = a + b
                want = images[s] if -12 <= s <= 12 else images[s % 6]
                out.check((two.i, two.j, two.k) == want, "rotateIndex/additive",
                          lambda: "cell %s: rotate %d then %d -> %s, rotate %d -> %s" % ((i, j), a, b, (two.i, two.j, two.k), s, want))
    # how the locator's grid is treated (documented in the Raises section)
    i, j = cells[len(cells) // 3]
    for k in (1, -4, 7):
        ei, ej = hm.rotate60(i, j, k)
        free = g.rotateIndex(grids.IndexLocation(i, j, 2, None), k)
        out.check((free.i, free.j, free.k) == (ei, ej, 2) and free.grid is None, "rotateIndex/gridless-locator",
                  lambda: "grid-less (%d,%d,2) k=%d -> %s grid %r" % (i, j, k, (free.i, free.j, free.k), free.grid))
        twin = grids.HexGrid.fromPitch(pitch * (1.0 + 1e-6), numRings=2, cornersUp=cu)
        tw = g.rotateIndex(twin[i, j, 1], k)
        out.check((tw.i, tw.j, tw.k) == (ei, ej, 1) and tw.grid is twin, "rotateIndex/equivalent-grid-locator",
                  lambda: "locator of an equivalent grid: %s grid kept=%s" % ((tw.i, tw.j, tw.k), tw.grid is twin))
    strangers = {
        "other-orientation": grids.HexGrid.fromPitch(pitch, numRings=2, cornersUp=not cu),
        "other-pitch": grids.HexGrid.fromPitch(pitch * 2.0, numRings=2, cornersUp=cu),
        "cartesian": grids.CartesianGrid.fromRectangle(pitch, pitch, numRings=2),
    }
    for name in sorted(strangers):
        try:
            res = g.rotateIndex(strangers[name][1, 0, 0], 1)
        except TypeError:
            continue
        out.fail("rotateIndex/accepts-inconsistent-grid", "locator of a %s grid was rotated to %r instead of TypeError" % (name, res))
    return out


# --------------------------------------------------------------------------------------------
# part 2: third-core hex symmetry, every cell of rings 1..N x both orientations

_THIRD_RINGS = {"quick": 40, "thorough": 150}


def third_enum(tier):
    return [{"ring": r, "cornersUp": cu, "pitch": _pitch_for(r)} for cu in (False, True) for r in range(1, _THIRD_RINGS[tier] + 1)]


def _line_from_angle(theta):
    for deg in (0, 60, 120):
        if hm.angle_near(theta, deg):
            return deg
    return None


def third_execute(case):
    from armi.reactor import grids
    from armi.reactor.grids import constants

    out = Out()
    ring, cu, pitch = case["ring"], case["cornersUp"], case["pitch"]
    g3 = grids.HexGrid.fromPitch(pitch, numRings=3, cornersUp=cu, symmetry="third periodic")
    gf = grids.HexGrid.fromPitch(pitch, numRings=3, cornersUp=cu, symmetry="full")
    names = {constants.BOUNDARY_CENTER: "center", constants.BOUNDARY_0_DEGREES: 0, constants.BOUNDARY_60_DEGREES: 60,
             constants.BOUNDARY_120_DEGREES: 120, None: None}
    tol = 1e-9 * pitch * max(1, ring)
    cells = hm.ring_cells(ring)
    out.evals = len(cells)
    out.nontrivial_count = len(cells) if ring >= 2 else 0
    n_in = 0
    for i, j in cells:
        loc = g3[i, j, 0]
        c = g3.getCoordinates((i, j, 0))
        mc = hm.centre(i, j, pitch, cu)
        out.check(_close(c, (mc[0], mc[1], 0.0), tol), "third/centre", lambda: "cell %s centre %s expected %s" % ((i, j), list(c), mc))
        eq = [tuple(e) for e in g3.getSymmetricEquivalents((i, j, 0))]
        eq2 = [tuple(e) for e in loc.getSymmetricEquivalents()]
        out.check(eq == eq2, "third/locator-vs-grid-equivalents", lambda: "cell %s: grid %s locator %s" % ((i, j), eq, eq2))
        if ring == 1:
            expected = []
            exact = set()
        else:
            expected = [hm.rot_xy(mc[0], mc[1], 120.0), hm.rot_xy(mc[0], mc[1], 240.0)]
            exact = {hm.rotate60(i, j, 2), hm.rotate60(i, j, 4)}
        got = [tuple(g3.getCoordinates((a, b, 0))[:2]) for a, b in eq]
        out.check(hm.match_point_sets(got, expected, tol) and set(eq) == exact and len(eq) == len(exact), "third/equivalents-are-120-240-images",
                  lambda: "cell %s cornersUp=%s: equivalents %s at %s; images of the centre under 120/240 deg are %s (cells %s)"
                  % ((i, j), cu, eq, got, expected, sorted(exact)))
        # symmetry-line classification against the polar angle of the cell's own coordinates
        if ring == 1:
            by_angle = "center"
        else:
            theta = (math.degrees(math.atan2(c[1], c[0])) - (30.0 if cu else 0.0)) % 360.0
            by_angle = _line_from_angle(theta)
        if by_angle != hm.symmetry_line(i, j):
            raise AssertionError("reference model disagrees with itself on the symmetry line of %s" % ((i, j),))
        line = g3.overlapsWhichSymmetryLine((i, j))
        out.check(line in names and names[line] == by_angle, "third/symmetry-line-vs-polar-angle",
                  lambda: "cell %s cornersUp=%s classified %r, polar angle says %r" % ((i, j), cu, names.get(line, line), by_angle))
        # domain membership
        want_in = hm.in_first_third(i, j, False)
        if ring > 1:
            theta = (math.degrees(math.atan2(mc[1], mc[0])) - (30.0 if cu else 0.0)) % 360.0
            float_in = by_angle == 0 or (by_angle != 120 and 0.0 < theta < 120.0)
            if float_in != want_in:
                raise AssertionError("reference model disagrees with itself on the domain of %s" % ((i, j),))
        n_in += bool(want_in)
        d0 = g3.locatorInDomain(loc)
        d0b = g3.locatorInDomain(loc, symmetryOverlap=False)
        f0 = g3.isInFirstThird(loc)
        out.check(d0 is d0b and bool(d0) == bool(f0) == want_in and isinstance(d0, bool), "third/in-domain",
                  lambda: "cell %s: locatorInDomain=%r isInFirstThird=%r, polar angle in [0,120) is %r" % ((i, j), d0, f0, want_in))
        d1 = g3.locatorInDomain(loc, symmetryOverlap=True)
        f1 = g3.isInFirstThird(loc, includeTopEdge=True)
        want1 = want_in or by_angle == 120
        out.check(bool(d1) == bool(f1) == want1, "third/in-domain-with-overlap",
                  lambda: "cell %s on line %r: with overlap locatorInDomain=%r isInFirstThird=%r expected %r" % ((i, j), by_angle, d1, f1, want1))
        members = [(i, j)] + eq
        inside = [m for m in members if g3.locatorInDomain(g3[m[0], m[1], 0], symmetryOverlap=False)]
        out.check(len(inside) == 1, "third/one-orbit-member-in-domain",
                  lambda: "orbit %s has %d members in the modelled third: %s" % (members, len(inside), inside))
        out.check(gf.getSymmetricEquivalents((i, j, 0)) == [] and gf.locatorInDomain(gf[i, j, 0]) is True
                  and gf.locatorInDomain(gf[i, j, 0], symmetryOverlap=True) is True, "third/full-core-has-no-equivalents", "cell %s" % ((i, j),))
    # a ring of 6(r-1) cells has exactly a third of them in the half-open domain
    out.check(n_in == (1 if ring == 1 else 2 * (ring - 1)), "third/ring-third-count", lambda: "ring %d: %d in domain" % (ring, n_in))
    return out


# --------------------------------------------------------------------------------------------
# part 3: Cartesian quarter core x {periodic, reflective} x {through centre, not}

_CART_N = {"quick": 30, "thorough": 120}


def cartq_enum(tier):
    n = _CART_N[tier]
    cases = []
    for through in (True, False):
        for periodic in (True, False):
            for row in range(-n, n + 1):
                w = 1.0 if row % 2 else 2.5
                h = w if periodic else (0.75 if row % 3 else 1.25)
                for via in (False, True):
                    # via: built at unit pitch, then changePitch(w, h) - the route reactorBlueprint takes when the
                    # grid blueprint has no lattice pitch ("This also scales the offset")
                    cases.append({"through": through, "periodic": periodic, "row": row, "n": n, "w": w, "h": h, "viaChangePitch": via})
    return cases


def cartq_execute(case):
    from armi.reactor import grids

    out = Out()
    through, periodic, jrow, n, w, h = case["through"], case["periodic"], case["row"], case["n"], case["w"], case["h"]
    sym = "quarter %s%s" % ("periodic" if periodic else "reflective", " through center" if through else "")
    if case.get("viaChangePitch"):
        g = grids.CartesianGrid.fromRectangle(1.0, 1.0, numRings=3, symmetry=sym, isOffset=not through)
        g.changePitch(w, h)
        sym += " (pitch set by changePitch)"
    else:
        g = grids.CartesianGrid.fromRectangle(w, h, numRings=3, symmetry=sym, isOffset=not through)
    out.check(g.symmetry.isThroughCenterAssembly == through and g._isThroughCenter() == through, "cart/centre-style",
              "symmetry %r: through-centre flags %r %r" % (sym, g.symmetry.isThroughCenterAssembly, g._isThroughCenter()))
    out.check(_close(g.pitch, (w, h), 1e-12 * max(w, h)), "cart/pitch", lambda: "%s: pitch %r expected %r" % (sym, g.pitch, (w, h)))
    ox, oy = (0.0, 0.0) if through else (w / 2.0, h / 2.0)
    tol = 1e-9 * max(w, h) * (n + 1)
    out.evals = 2 * n + 1
    nt = 0
    for i in range(-n, n + 1):
        x, y = i * w + ox, jrow * h + oy
        c = g.getCoordinates((i, jrow, 0))
        out.check(_close(c, (x, y, 0.0), tol), "cart/centre", lambda: "%s: cell %s centre %s expected %s" % (sym, (i, jrow), list(c), (x, y)))
        if periodic:
            images = [(-y, x), (-x, -y), (y, -x)]
        else:
            images = [(-x, y), (-x, -y), (x, -y)]
        images = [p for p in hm.dedupe_points(images, tol) if not _close(p, (x, y), tol)]
        on_line = abs(x) <= tol or abs(y) <= tol
        nt += not on_line and (i, jrow) != (0, 0)
        eq = [tuple(e) for e in g.getSymmetricEquivalents((i, jrow, 0))]
        eq2 = [tuple(e) for e in g[i, jrow, 0].getSymmetricEquivalents()]
        out.check(eq == eq2, "cart/locator-vs-grid-equivalents", lambda: "cell %s: %s vs %s" % ((i, jrow), eq, eq2))
        got = [tuple(g.getCoordinates((a, b, 0))[:2]) for a, b in eq]
        out.check(hm.match_point_sets(got, images, tol) and (i, jrow) not in eq, "cart/equivalents-are-group-images",
                  lambda: "%s cell %s centre %s: equivalents %s at %s; images of the centre under the %s are %s"
                  % (sym, (i, jrow), (x, y), eq, got, "90/180/270 degree rotations" if periodic else "axis reflections", images))
        members = [(i, jrow)] + eq
        inside = [m for m in members if g.locatorInDomain(g[m[0], m[1], 0])]
        inside2 = [m for m in members if g.locatorInDomain(g[m[0], m[1], 0], symmetryOverlap=True)]
        if on_line:
            out.check(len(inside) >= 1 and len(inside2) >= 1, "cart/symmetry-line-orbit-not-in-domain",
                      lambda: "%s: orbit %s of a symmetry-line cell has no member in the modelled quarter" % (sym, members))
        else:
            out.check(len(inside) == 1 and inside2 == inside, "cart/one-orbit-member-in-domain",
                      lambda: "%s: orbit %s has %d members in the modelled quarter: %s" % (sym, members, len(inside), inside))
        if inside:
            out.check(all(g.getCoordinates((m[0], m[1], 0))[0] >= -tol and g.getCoordinates((m[0], m[1], 0))[1] >= -tol for m in inside),
                      "cart/domain-is-first-quadrant", lambda: "%s: in-domain cells %s are not in quadrant I" % (sym, inside))
    out.nontrivial_count = nt
    if jrow == 0:
        full = grids.CartesianGrid.fromRectangle(w, h, numRings=3, symmetry="full", isOffset=not through)
        out.check(full.getSymmetricEquivalents((2, 1, 0)) == [] and full.locatorInDomain(full[-2, -1, 0]) is True,
                  "cart/full-core-has-no-equivalents", "full core grid")
    return out


# --------------------------------------------------------------------------------------------
# part 4: hexagon.getIndexOfRotatedCell against rotating the ring/position numbering

_CELLNUM_RINGS = {"quick": 30, "thorough": 90}


def cellnum_enum(tier):
    return [{"ring": r} for r in range(1, _CELLNUM_RINGS[tier] + 1)]


def cellnum_execute(case):
    from armi.utils import hexagon

    out = Out()
    ring = case["ring"]
    cells = hm.ring_cells(ring)
    index = {c: p for p, c in enumerate(cells)}
    first = 1 if ring == 1 else 2 + 3 * (ring - 1) * (ring - 2)
    out.evals = 6 * len(cells)
    out.nontrivial_count = 5 * len(cells) if ring >= 2 else 0
    check = hm.cell_number_to_ij(first + len(cells) - 1)
    if check[:2] != (ring, len(cells)) or hm.ij_to_cell_number(check[2], check[3]) != first + len(cells) - 1:
        raise AssertionError("reference cell numbering inconsistent at ring %d" % ring)
    for p, (i, j) in enumerate(cells):
        n = first + p
        for o in range(6):
            want = first + index[hm.rotate60(i, j, o)]
            got = hexagon.getIndexOfRotatedCell(n, o)
            out.check(got == want, "rotated-cell-number",
                      lambda: "cell %d (ring %d position %d) turned %d x 60 deg: %r, rotating the numbering gives %d" % (n, ring, p + 1, o, got, want))
    for bad_o in (-1, 6):
        try:
            res = hexagon.getIndexOfRotatedCell(first, bad_o)
            out.fail("rotated-cell-number/accepts-bad-orientation", "orientation %d accepted -> %r" % (bad_o, res))
        except ValueError:
            pass
    for bad_n in (0, -ring):
        try:
            res = hexagon.getIndexOfRotatedCell(bad_n, 1)
            out.fail("rotated-cell-number/accepts-non-positive-cell", "cell %d accepted -> %r" % (bad_n, res))
        except ValueError:
            pass
    return out


# --------------------------------------------------------------------------------------------
# parts 5/6: HexBlock.rotate / HexAssembly.rotate histories against a geometric model

N_BOUNDARY = 9  # number of CORNERS + EDGES block parameters in armi 0.5.1 (checked at run time)


def _angle(k, build, half=False):
    kk = k + 0.5 if half else k
    if build == "pi3":
        return kk * math.pi / 3
    if build == "radians":
        return math.radians(60 * kk)
    raise ValueError(build)


def _remainder_wraps(rad):
    """The known shape: a multiple of 60 degrees whose float remainder modulo pi/3 is ~pi/3 instead of ~0."""
    return (rad % (math.pi / 3)) > math.pi / 6


def _route(step):
    """Apply EXCLUDE_KNOWN by construction: an assembly-level step of the known shape is rotated block by block."""
    step = dict(step)
    if step["via"] == "assembly" and not step.get("half") and EXCLUDE_KNOWN.get(SIG_WRAP) and _remainder_wraps(_angle(step["k"], step["build"])):
        step["via"] = "assembly-excluded"
    return step


def _vec_strategy():
    distinct = st.tuples(st.permutations(list(range(6))), st.integers(-50, 50)).map(lambda t: [float(v + t[1]) for v in t[0]])
    floats = st.lists(st.floats(-1e6, 1e6, allow_nan=False, allow_infinity=False), min_size=6, max_size=6)
    return st.one_of(distinct, distinct, floats)


def _block_spec_strategy():
    cell = st.tuples(st.integers(-4, 4), st.integers(-4, 4)).map(list)
    group = st.fixed_dictionaries({
        "cells": st.lists(cell, min_size=1, max_size=7, unique_by=tuple),
        "single": st.booleans(),
        "clad": st.sampled_from([True, True, False]),
    })
    free = st.fixed_dictionaries({
        "xyz": st.tuples(st.floats(-8, 8), st.floats(-8, 8), st.floats(-3, 3)).map(list),
        "clad": st.sampled_from([False, False, True]),
    })
    bparam = st.fixed_dictionaries({"kind": st.sampled_from(["list", "array", "table_list", "table_array", "list", "array", "scalar", "none", "empty", "short"]),
                                    "vals": _vec_strategy(), "width": st.integers(1, 4)})
    return st.fixed_dictionaries({
        "pitch": st.floats(0.3, 3.0),
        "cornersUp": st.booleans(),
        "grid": st.sampled_from([True, True, True, True, True, False]),
        "stored": st.sampled_from([True, False]),
        "groups": st.lists(group, min_size=1, max_size=4),
        "free": st.lists(free, min_size=0, max_size=3),
        "defaultChild": st.booleans(),
        "boundary": st.lists(bparam, min_size=N_BOUNDARY, max_size=N_BOUNDARY),
        "disp": st.one_of(st.none(), st.tuples(st.floats(-5, 5), st.floats(-5, 5)).map(list)),
        "orient0": st.sampled_from([0, 0, 0, 1, 2, 3, 4, 5]),
    })


def blockrot_strategy(tier):
    step = st.fixed_dictionaries({
        "k": st.sampled_from(_KS_SHRINK_ORDER),
        "build": st.sampled_from(["pi3", "radians"]),
        "via": st.sampled_from(["block", "block", "assembly"]),
        "target": st.integers(0, 2),
    }).map(_route)
    return st.fixed_dictionaries({
        "spec": _block_spec_strategy(),
        "nBlocks": st.integers(1, 3),
        "steps": st.lists(step, min_size=1, max_size=4),
    })


_FIXED_SPEC = {
    "pitch": 1.25, "cornersUp": True, "grid": True,
    "groups": [
        {"cells": [[0, 0], [1, 0], [2, -1], [-1, 3], [0, -2]], "single": False, "clad": True},
        {"cells": [[1, 1]], "single": True, "clad": True},
        {"cells": [[3, -1], [-2, 0]], "single": False, "clad": False},
    ],
    "free": [{"xyz": [0.4, -1.1, 0.7], "clad": False}, {"xyz": [-2.0, 0.5, 0.0], "clad": True}],
    "defaultChild": True,
    "boundary": [{"kind": ("list", "array", "table_array", "table_list")[n % 4], "vals": [float(10 * n + m) for m in range(6)], "width": 1 + n % 3}
                 for n in range(N_BOUNDARY)],
    "disp": [0.3, -1.7], "orient0": 0,
}


_FIXED_SPEC_FLATS = dict(_FIXED_SPEC, cornersUp=False, pitch=0.8, orient0=2, stored=False)


def asm_enum(tier):
    cases = []
    for build in ("pi3", "radians"):
        for k in KS:
            for nb in (1, 3):
                cases.append({"spec": _FIXED_SPEC if nb == 3 else _FIXED_SPEC_FLATS, "nBlocks": nb,
                              "steps": [_route({"k": k, "build": build, "via": "assembly", "target": 0})]})
            # two assembly-level rotations in a row, and documented refusals of angles between the steps
            cases.append({"spec": _FIXED_SPEC, "nBlocks": 2,
                          "steps": [_route({"k": k, "build": build, "via": "assembly", "target": 0}),
                                    {"k": k, "build": build, "via": "assembly", "target": 0, "half": True},
                                    _route({"k": 7 - k, "build": build, "via": "assembly", "target": 0})]})
    return cases


class _BlockModel:
    """What a block must look like after a total of K sixty-degree counter-clockwise steps."""

    def __init__(self, spec, bidx, nparams):
        self.spec = spec
        self.pitch = spec["pitch"]
        self.cu = spec["cornersUp"]
        self.K = 0
        self.children = []  # (kind, clad, payload)
        for grp in spec["groups"]:
            cells = [hm.rotate60(c[0], c[1], bidx) for c in grp["cells"]]
            if grp["single"]:
                self.children.append(("single", grp["clad"], cells[:1]))
            else:
                self.children.append(("multi", grp["clad"], cells))
        for fr in spec["free"]:
            self.children.append(("free", fr["clad"], tuple(fr["xyz"])))
        if spec["defaultChild"]:
            self.children.append(("default", False, (0.0, 0.0, 0.0)))
        self.boundary = []
        for n in range(nparams):
            bp = spec["boundary"][n % len(spec["boundary"])]
            vals = [v + 100.0 * bidx for v in bp["vals"]]
            self.boundary.append((bp["kind"], vals, bp.get("width", 2)))
        self.disp = tuple(spec["disp"]) if spec["disp"] is not None else None
        self.orient0 = spec["orient0"]

    def cell_now(self, c):
        return hm.rotate60(c[0], c[1], self.K)

    def xyz_of_cell(self, c):
        i, j = self.cell_now(c)
        x, y = hm.centre(i, j, self.pitch, self.cu)
        return (x, y, 0.0)

    def xyz_free(self, p):
        x, y = hm.rot_xy(p[0], p[1], 60.0 * (self.K % 6))
        return (x, y, p[2])

    def boundary_now(self, vals):
        return [vals[(m - self.K) % 6] for m in range(6)]

    def table_now(self, vals, width):
        rows = _table(vals, width)
        return [rows[(m - self.K) % 6] for m in range(6)]

    def disp_now(self):
        return hm.rot_xy(self.disp[0], self.disp[1], 60.0 * (self.K % 6))

    def orientation_now(self):
        return (60 * (self.orient0 + self.K)) % 360


def _boundary_names(block):
    from armi.reactor.parameters import ParamLocation

    return list(block.p.paramDefs.atLocation(ParamLocation.CORNERS).names) + list(block.p.paramDefs.atLocation(ParamLocation.EDGES).names)


def _table(vals, width):
    """6 x width table: ``width`` distinguishable values per corner/edge."""
    return [[v + 0.125 * (c + 1) * (1 + abs(v)) for c in range(width)] for v in vals]


def _boundary_value(kind, vals, width=2):
    import numpy as np

    if kind == "table_list":
        return _table(vals, width)
    if kind == "table_array":
        return np.array(_table(vals, width))

    if kind == "list":
        return list(vals)
    if kind == "array":
        return np.array(vals)
    if kind == "scalar":
        return vals[0]
    if kind == "empty":
        return []
    if kind == "short":
        return list(vals[:5])
    return None


def _build_block(spec, bidx):
    """HexBlock with a pin lattice, put together like BlockBlueprint.construct / autoCreateSpatialGrids do."""
    from armi.reactor import blocks, components, grids

    b = blocks.HexBlock("fuel", height=10.0)
    names = _boundary_names(b)
    model = _BlockModel(spec, bidx, len(names))
    stored = spec.get("stored", True)
    # stored=False: lattice made with numRings=0 as autoCreateSpatialGrids does, locations made with the public constructors
    # (what rotateIndex itself returns) so that the grid holds no stored locator objects
    g = grids.HexGrid.fromPitch(spec["pitch"], numRings=3 if stored else 0, armiObject=b, cornersUp=spec["cornersUp"]) if spec["grid"] else None

    def at(i, j):
        return g[i, j, 0] if stored else grids.IndexLocation(i, j, 0, g)

    comps = []
    for n, (kind, clad, payload) in enumerate(model.children):
        mult = len(payload) if kind in ("multi", "single") else 1
        if kind == "default":
            c = components.DerivedShape("coolant", "Sodium", Tinput=25.0, Thot=25.0)
        elif kind == "free" and not clad:
            c = components.Hexagon("duct", "HT9", Tinput=25.0, Thot=25.0, op=16.0 + n, ip=15.5 + n, mult=1)
        else:
            c = components.Circle("clad" if clad else "fuel", "HT9" if clad else "UZr", Tinput=25.0, Thot=25.0,
                                  od=0.2 + 0.01 * n, id=0.1, mult=mult)
        b.add(c)
        comps.append(c)
        if g is None:
            continue
        if kind == "multi":
            loc = grids.MultiIndexLocation(g)
            loc.extend([at(i, j) for i, j in payload])
            c.spatialLocator = loc
        elif kind == "single":
            c.spatialLocator = at(payload[0][0], payload[0][1])
        elif kind == "free":
            c.spatialLocator = grids.CoordinateLocation(payload[0], payload[1], payload[2], g)
    if g is not None:
        b.spatialGrid = g
    for n, name in enumerate(names):
        kind, vals, width = model.boundary[n]
        value = _boundary_value(kind, vals, width)
        if value is not None:
            b.p[name] = value
            if kind == "scalar" and getattr(b.p[name], "ndim", None) == 0:
                # array-typed parameter (numpy setter): a scalar is not an input its writers produce; give it a vector
                model.boundary[n] = ("array", vals, width)
                b.p[name] = _boundary_value("array", vals)
    if model.disp is not None:
        b.p.displacementX, b.p.displacementY = model.disp
    if model.orient0:
        b.setRotationNum(model.orient0)
    return b, comps, model, names


def _check_block(out, b, comps, model, names, where):
    """Compare one armi block with its model (after every step)."""
    import numpy as np

    from armi.reactor import grids

    spec = model.spec
    pitch = model.pitch
    K = model.K
    g = b.spatialGrid
    if spec["grid"]:
        want_pins = []
        want_idx = []
        for c, (kind, clad, payload) in zip(comps, model.children):
            loc = c.spatialLocator
            if kind == "multi":
                if not out.check(isinstance(loc, grids.MultiIndexLocation) and len(loc) == len(payload), "block/multi-locator-kind",
                                 lambda: "%s: multi-index child now has %r" % (where, loc)):
                    return
                out.check(loc.grid is g and all(x.grid is g for x in loc), "block/locator-grid", lambda: "%s: rotated multi locator left the block grid" % where)
                got = [(x.i, x.j, x.k) for x in loc]
                want = [model.cell_now(p) + (0,) for p in payload]
                out.check(got == want, "block/pin-index",
                          lambda: "%s: multi-index child after %d steps at %s, geometry gives %s" % (where, K, got, want))
                xyz = [model.xyz_of_cell(p) for p in payload]
                tol = 1e-9 * pitch * max(1, max(hm.hex_distance(*p) for p in payload))
                for x, e in zip(loc, xyz):
                    out.check(_close(x.getLocalCoordinates(), e, tol), "block/pin-coordinates",
                              lambda: "%s: pin %s at %s, rotated coordinate is %s" % (where, (x.i, x.j), list(x.getLocalCoordinates()), e))
                if clad:
                    want_pins.extend(xyz)
                    want_idx.extend(want)
            elif kind == "single":
                if not out.check(type(loc) is grids.IndexLocation, "block/single-locator-kind", lambda: "%s: single-index child now has %r" % (where, loc)):
                    return
                out.check(loc.grid is g, "block/locator-grid", lambda: "%s: rotated locator left the block grid" % where)
                want = model.cell_now(payload[0]) + (0,)
                out.check((loc.i, loc.j, loc.k) == want, "block/pin-index",
                          lambda: "%s: single-index child after %d steps at %s, geometry gives %s" % (where, K, (loc.i, loc.j, loc.k), want))
                e = model.xyz_of_cell(payload[0])
                out.check(_close(loc.getLocalCoordinates(), e, 1e-9 * pitch * max(1, hm.hex_distance(*payload[0]))), "block/pin-coordinates",
                          lambda: "%s: pin %s at %s, rotated coordinate is %s" % (where, (loc.i, loc.j), list(loc.getLocalCoordinates()), e))
                if clad:
                    want_pins.append(e)
                    want_idx.append(want)
            else:
                if not out.check(isinstance(loc, grids.CoordinateLocation), "block/free-locator-kind", lambda: "%s: free child now has %r" % (where, loc)):
                    return
                e = model.xyz_free(payload)
                tol = 1e-9 * max(pitch, abs(payload[0]), abs(payload[1]), abs(payload[2]))
                out.check(_close(loc.getLocalCoordinates(), e, tol), "block/free-child-coordinates",
                          lambda: "%s: free child (%s) after %d steps at %s, rotated coordinate is %s" % (where, payload, K, list(loc.getLocalCoordinates()), e))
                if clad:
                    want_pins.append(e)
                    want_idx.append(None)
        pins = b.getPinCoordinates()
        ok = len(pins) == len(want_pins)
        out.check(ok, "block/pin-count", lambda: "%s: %d pin coordinates for %d pins" % (where, len(pins), len(want_pins)))
        if ok:
            tolp = 1e-9 * max(pitch * 9, 8.0)
            for n, (p, e) in enumerate(zip(pins, want_pins)):
                out.check(_close(p, e, tolp), "block/getPinCoordinates",
                          lambda: "%s: pin %d after %d steps at %s, rotated coordinate is %s" % (where, n, K, list(p), e))
            for n, (loc, w) in enumerate(zip(b.getPinLocations(), want_idx)):
                if w is not None:
                    out.check((loc.i, loc.j, loc.k) == w, "block/getPinLocations", lambda: "%s: pin %d at %s expected %s" % (where, n, (loc.i, loc.j, loc.k), w))
    # per-corner / per-edge data
    for name, (kind, vals, width) in zip(names, model.boundary):
        now = b.p[name]
        if kind in ("table_list", "table_array"):
            want = model.table_now(vals, width)
            try:
                rows = [[float(x) for x in row] for row in now]
            except TypeError:
                rows = None
            out.check(rows == want, "block/boundary-table-rows",
                      lambda: "%s: %s (6 x %d values) after %d steps is %s, whole rows new[r] = old[(r-k) mod 6] give %s" % (where, name, width, K, rows if rows is not None else now, want))
        elif kind in ("list", "array"):
            want = model.boundary_now(vals)
            good = isinstance(now, (list, np.ndarray)) and len(now) == 6 and all(float(x) == y for x, y in zip(now, want))
            out.check(good, "block/boundary-vector", lambda: "%s: %s after %d steps is %s, new[i] = old[(i-k) mod 6] gives %s (start %s)" % (where, name, K, list(now) if good or hasattr(now, "__len__") else now, want, vals))
        elif kind == "scalar":
            out.check(now == vals[0], "block/boundary-scalar-changed", lambda: "%s: scalar %s became %r" % (where, name, now))
        elif kind == "short":
            out.check(list(now) == list(vals[:5]), "block/boundary-non-six-changed", lambda: "%s: 5-vector %s became %r" % (where, name, now))
        elif kind == "empty":
            out.check(isinstance(now, (list, np.ndarray)) and len(now) == 0, "block/boundary-non-six-changed", lambda: "%s: empty %s became %r" % (where, name, now))
    # displacement
    if model.disp is not None:
        ex = model.disp_now()
        tol = 1e-9 * max(1.0, abs(model.disp[0]), abs(model.disp[1]))
        out.check(_close((b.p.displacementX, b.p.displacementY), ex, tol), "block/displacement",
                  lambda: "%s: displacement %s after %d steps is %s, rotated vector is %s" % (where, model.disp, K, (b.p.displacementX, b.p.displacementY), ex))
    else:
        out.check(b.p.displacementX == 0.0 and b.p.displacementY == 0.0, "block/displacement", lambda: "%s: unset displacement became non-zero" % where)
    # orientation
    o = b.p.orientation
    out.check(float(o[0]) == 0.0 and float(o[1]) == 0.0 and float(o[2]) % 360.0 == model.orientation_now(), "block/orientation",
              lambda: "%s: orientation %s after %d steps from %d, expected z = %d (mod 360)" % (where, list(o), K, 60 * model.orient0, model.orientation_now()))
    out.check(int(b.getRotationNum()) == (model.orient0 + K) % 6, "block/rotation-number", lambda: "%s: getRotationNum %r" % (where, b.getRotationNum()))


def blockrot_execute(case):
    from armi.reactor import assemblies, grids

    out = Out()
    spec, nb = case["spec"], case["nBlocks"]
    a = assemblies.HexAssembly("fuel")
    a.spatialGrid = grids.AxialGrid.fromNCells(nb, armiObject=a)
    built = []
    for bidx in range(nb):
        b, comps, model, names = _build_block(spec, bidx)
        a.add(b)
        built.append((b, comps, model, names))
    if len(built[0][3]) != N_BOUNDARY:
        raise AssertionError("expected %d corner/edge parameters, armi defines %d" % (N_BOUNDARY, len(built[0][3])))
    off_axis = spec["grid"] and any(tuple(c) != (0, 0) for grp in spec["groups"] for c in (grp["cells"][:1] if grp["single"] else grp["cells"]))
    out.nontrivial = bool(off_axis) and any(s["k"] % 6 and not s.get("half") for s in case["steps"])
    out.label("blocks:%d" % nb, "cornersUp" if spec["cornersUp"] else "flatsUp",
              ("grid" if spec.get("stored", True) else "grid-without-stored-locators") if spec["grid"] else "no-grid")
    if spec["grid"]:
        kinds = {m[0] for m in built[0][2].children}
        out.label(*sorted("child:" + k for k in kinds))
        if any(m[0] == "free" and m[1] for m in built[0][2].children):
            out.label("free-clad")
    out.label(*sorted({"boundary:" + bp["kind"] for bp in spec["boundary"]}))
    for n, (b, comps, model, names) in enumerate(built):
        _check_block(out, b, comps, model, names, "block %d before any step" % n)
    if out.violations:
        # the construction itself disagrees with the model: harness/model problem or a C07 matter, stop here
        return out
    for sn, step in enumerate(case["steps"]):
        k, via = step["k"], step["via"]
        half = bool(step.get("half"))
        rad = _angle(k, step["build"], half)
        out.label("via:" + via, "k%%6=%d" % (k % 6), "build:" + step["build"])
        if via == "block":
            tgt = step["target"] % nb
            built[tgt][0].rotate(rad)
            built[tgt][2].K += k
        elif via == "assembly-excluded":
            out.label("excluded:" + SIG_WRAP)
            for b, _c, model, _n in built:
                b.rotate(rad)
                model.K += k
        else:
            try:
                a.rotate(rad)
                refused = False
            except ValueError:
                refused = True
            if half:
                out.rejected = True
                out.label("refusal:non-multiple")
                out.check(refused, "assembly/accepts-non-multiple-of-60", lambda: "rotate(%r) = %.3f degrees was accepted" % (rad, math.degrees(rad)))
                if not refused:
                    return out
            elif refused:
                sig = SIG_WRAP if _remainder_wraps(rad) else "assembly/rotate-refuses-multiple-of-60"
                out.fail(sig, "HexAssembly.rotate(%r) [%d x 60 degrees built as %s] raised ValueError; rad %% (pi/3) = %r"
                         % (rad, k, "k*math.pi/3" if step["build"] == "pi3" else "math.radians(60*k)", rad % (math.pi / 3)))
            else:
                for _b, _c, model, _n in built:
                    model.K += k
        for n, (b, comps, model, names) in enumerate(built):
            _check_block(out, b, comps, model, names, "block %d after step %d (%s k=%d %s)" % (n, sn, via, k, step["build"]))
        if out.violations:
            return out
    # rotate(a) then rotate(b) ... equals one rotate(a+b+...) of a fresh twin
    b, comps, model, names = built[0]
    twin, tcomps, tmodel, tnames = _build_block(spec, 0)
    twin.rotate(_angle(model.K, "pi3"))
    tmodel.K = model.K
    _check_block(out, twin, tcomps, tmodel, tnames, "fresh block rotated once by the summed angle (%d steps)" % model.K)
    if spec["grid"]:
        p1, p2 = b.getPinCoordinates(), twin.getPinCoordinates()
        out.check(len(p1) == len(p2) and all(_close(x, y, 1e-9 * max(spec["pitch"] * 9, 8.0)) for x, y in zip(p1, p2)), "block/composition",
                  lambda: "history and single rotation by the sum disagree on pin coordinates")
    return out


PARTS = [
    Part("hex_rotate_index", rot_execute, enumerate=rot_enum, exhaustive=True, procs={"quick": 8, "thorough": 16},
         rule="every cell of rings 1..N x both orientations x every k in [-12,12] (one case = one ring): rotateIndex against exact cube-coordinate "
              "rotation and against R(60k) applied to the centre, ring preserved, identity at 6, additivity (all pairs up to ring 4, six second steps "
              "beyond), grid-less / equivalent / inconsistent locator grids; non-trivial = ring >= 2 and k mod 6 != 0",
         bound=lambda t: "rings <= %d, both orientations, k in [-12,12]" % _ROT_RINGS[t]),
    Part("hex_third_core", third_execute, enumerate=third_enum, exhaustive=True, procs={"quick": 8, "thorough": 16},
         rule="every cell of rings 1..N x both orientations on a third-periodic grid: equivalents = images of the centre under 120/240 degrees "
              "(coordinate sets and exact cells), exactly one orbit member in the domain without overlap, isInFirstThird/locatorInDomain with and "
              "without overlap against polar angle in [0,120) / [0,120], symmetry-line classification against polar angle; non-trivial = ring >= 2",
         bound=lambda t: "rings <= %d, both orientations" % _THIRD_RINGS[t]),
    Part("cartesian_quarter", cartq_execute, enumerate=cartq_enum, exhaustive=True, procs={"quick": 4, "thorough": 16},
         rule="every cell with |i|,|j| <= N on quarter-core Cartesian grids x {periodic, reflective} x {through centre, not} (one case = one row): "
              "equivalents = images of the cell centre under 90-degree rotations / axis reflections as coordinate sets, exactly one orbit member "
              "in the modelled quarter for cells off the symmetry lines, at least one on them; non-trivial = cell off the symmetry lines",
         bound=lambda t: "|i|,|j| <= %d, four symmetry variants" % _CART_N[t]),
    Part("rotated_cell_number", cellnum_execute, enumerate=cellnum_enum, exhaustive=True, procs={"quick": 4, "thorough": 16},
         rule="every cell number of rings 1..N x orientation 0..5: hexagon.getIndexOfRotatedCell against rotating the cell in cube coordinates and "
              "re-reading its ring/position number; non-trivial = ring >= 2 and orientation != 0",
         bound=lambda t: "rings <= %d, orientations 0..5" % _CELLNUM_RINGS[t]),
    Part("block_rotation", blockrot_execute, strategy=blockrot_strategy, budget={"quick": 6000, "thorough": 60000}, procs={"quick": 8, "thorough": 16},
         rule="Hypothesis: hex assemblies of 1-3 blocks with pin lattices (multi-index, single-index, free-coordinate and default-located "
              "children, with and without a block grid), six-vectors/scalars/short vectors on all corner and edge parameters, displacement, "
              "initial orientation; histories of 1-4 rotations by k*60 degrees (k in [-12,12], built as k*pi/3 or radians(60k)) applied to one block "
              "or to the assembly; after every step every block equals the geometric model (pins at rotated coordinates, new[i]=old[(i-k) mod 6], "
              "displacement rotated, orientation advanced), and the history equals one rotation by the sum; non-trivial = an off-centre pin and a "
              "step with k mod 6 != 0"),
    Part("assembly_angles", blockrot_execute, enumerate=asm_enum, exhaustive=True, procs={"quick": 4, "thorough": 8},
         rule="HexAssembly.rotate for every k in [-12,12] x {k*math.pi/3, math.radians(60k)} on 1-, 2- and 3-block assemblies, including a second "
              "rotation and the documented refusal of angles half way between steps; same model oracle as block_rotation",
         bound=lambda t: "k in [-12,12], two angle constructions"),
]
