"""C19 - the nuclide directory and the material library are internally consistent.

Mostly complete enumeration of finite tables (every nuclide, element, identifier table, burn-chain entry
and material class), batched into cases so that they shard across processes, plus one Hypothesis part that
draws temperatures (incl. the end points) inside each material property's stated validity range.
"""
import math
import os
import re

from hypothesis import strategies as st

from vp.runner import Out, Part

PROPERTY = "C19"
LEVEL = "exploration"
ASSUMPTIONS = [
    "documented aliases are the only table keys that differ from the owner's own identifier: byName['AM242'] and "
    "byDBName['nAm242'] -> Am-242m (updateNuclideBasesForSpecialCases); DUMP1 and DUMP2 share the MC2-3 id 'DUMMY' "
    "(mcc-nuclides.yaml; armi's own tests subtract one entry 'due to DUMP2')",
    "label decoding follows NuclideBase._createLabel's docstring: symbol, (A mod 10**(4-len(symbol)))//10, and one "
    "character encoding (A mod 10) + 10*state; the part of A that the label drops is covered by the uniqueness check",
    "MCNP ids: ZZZAAA with AAA = A + 300 + 100*state for isomers, Am-242m = 95242 and Am-242 ground = 95642 as "
    "documented in getMcnpId; elements = Z000",
    "natural abundances must sum to 1 within 1e-6 (nuclides.dat carries 8-9 significant digits); material mass "
    "fractions within 1e-5",
    "burn chain: every branch in [0,1]; for transmutation types other than fission the branches of one parent and "
    "type sum to 1 (transmutations.py: 'must never sum up to anything other than 1.0'); fission carries the ternary "
    "tritium yield on top (burn-chain.yaml comment) and decay modes are not asserted to sum to 1 (shipped data "
    "lists partial modes, e.g. Th-232 spontaneous fission only)",
    "the stated range of a property function is the intersection of the propertyValidTemperature ranges the function "
    "itself checks (observed through checkTempRange) and the range stored under the function's own key; a function "
    "with no stated range is evaluated at 300 K only",
    "material functions are evaluated on fresh instances without a parent component; observing checkTempRange on "
    "the instance does not change any returned value (armi only logs a warning there)",
    "Void, the abstract bases (Material, Fluid, SimpleSolid, FuelMaterial, Water) and the classes whose composition "
    "and density are supplied by the caller (Custom, _Mixture) are instantiated but otherwise excluded and counted",
    "input_params calls applyInputParams as blueprints do (fresh parentless instance, customIsotopics passed when the "
    "signature accepts it).  Observation, not asserted: Sulfur.applyInputParams takes no **kwargs, so in the blueprint "
    "flow (which always adds customIsotopics) the call raises the TypeError that _constructMaterial swallows and "
    "Sulfur's TD_frac is silently ignored; the check calls Sulfur without customIsotopics",
]

# Candidate genuine defects found on the unchanged tree (see replays/C19/defect_*.json).  The search skips exactly
# these shapes (and counts them with a label ``excluded:<signature>``); a case carrying ``"known": true`` asserts them.
EXCLUDE_KNOWN = {
    "materials/massfrac-sum/sulfur-s36": True,  # known finding (the repair would contradict an existing armi test)
    "materials/composition-empty/potassium": False,  # repaired in /repo (fix: commit); searched again
    "materials/density-zero/refDens-unset/Uranium": True,  # known finding
    "materials/density-zero/refDens-unset/UThZr": True,  # known finding
    "materials/density-zero/refDens-unset/Cu": False,  # repaired
    "materials/density-zero/refDens-unset/ZnO": False,  # repaired
    "materials/density-zero/refDens-unset/Concrete": False,  # repaired
    "materials/density-complex-at-range-end/sodium": False,  # repaired
    "materials/Tc-entry-raises/air": False,  # repaired
    "input-params/mox-mass_frac_PU02-raises-KeyError": False,  # repaired in /repo (d9ade3a); searched again
    "input-params/thu-U233_wt_frac-always-refused": True,  # known finding (repair = new modification logic)
    "input-params/uthzr-needs-parent-component": True,  # known finding (repair = new modification logic)
    "elements/abundance-sum/calcium": True,  # known finding (data rounding 3e-5; armi's own tolerance is 1e-4)
}

ABUNDANCE_TOL = 1e-6
MASSFRAC_TOL = 1e-5

_LABEL_LAST = "0123456789" "ABCDEFGHIJ" "KLMNOPQRST" "UVWXYZabcd"
_META = {"": 0, "M": 1, "M2": 2, "M3": 3}
_NAME_RE = re.compile(r"^([A-Z]{1,2})(\d{1,3})(M[23]?|G)?$")

# documented shared identifiers: table -> key -> names of the nuclides allowed to own it
_SHARED = {
    "byMcc3IdEndfbVII0": {"DUMMY": ("DUMP1", "DUMP2")},
    "byMcc3IdEndfbVII1": {"DUMMY": ("DUMP1", "DUMP2")},
    "byMcc3Id": {"DUMMY": ("DUMP1", "DUMP2")},
}
# documented alias keys: table -> key -> own name of the nuclide it points to
_ALIASES = {"byName": {"AM242": "AM242M"}, "byDBName": {"nAm242": "AM242M"}}


def _known(case, sig):
    """True when the known shape ``sig`` is to be skipped (counted) rather than asserted."""
    return EXCLUDE_KNOWN.get(sig, False) and not case.get("known")


def _known_or_fail(out, case, sig, message):
    """A violation of a known shape: counted when excluded, reported when the case asks for it."""
    if _known(case, sig):
        out.label("excluded:" + sig)
    else:
        out.fail(sig, message)


def _isreal(x):
    import numpy as np

    if isinstance(x, bool) or isinstance(x, complex):
        return False
    if isinstance(x, (int, float, np.floating, np.integer)):
        return math.isfinite(float(x))
    if isinstance(x, np.ndarray) and x.shape == () and np.isrealobj(x):
        return math.isfinite(float(x))
    return False


# ----------------------------------------------------------------------------------------------
# identifier getters: (table attribute, kind filter, getter)


def _id_specs(nb):
    """[(table name, applies(nuclide), own identifier(nuclide))] for every identifier kind."""
    is_mcnp = lambda n: isinstance(n, nb.IMcnpNuclide)  # noqa: E731
    is_iso = lambda n: isinstance(n, nb.NuclideBase)  # noqa: E731
    return [
        ("byName", lambda n: True, lambda n: n.name),
        ("byDBName", lambda n: True, lambda n: n.getDatabaseName()),
        ("byLabel", lambda n: True, lambda n: n.label),
        ("byMcc2Id", lambda n: bool(n.getMcc2Id()), lambda n: n.getMcc2Id()),
        ("byMcc3IdEndfbVII0", lambda n: bool(n.getMcc3IdEndfbVII0()), lambda n: n.getMcc3IdEndfbVII0()),
        ("byMcc3IdEndfbVII1", lambda n: bool(n.getMcc3IdEndfbVII1()), lambda n: n.getMcc3IdEndfbVII1()),
        ("byMcc3Id", lambda n: bool(n.getMcc3Id()), lambda n: n.getMcc3Id()),
        ("byMcnpId", is_mcnp, lambda n: n.getMcnpId()),
        ("byAAAZZZSId", is_iso, lambda n: n.getAAAZZZSId()),
    ]


def _kind(nb, n):
    for cls in (nb.NaturalNuclideBase, nb.LumpNuclideBase, nb.DummyNuclideBase, nb.NuclideBase):
        if isinstance(n, cls):
            return cls.__name__
    return type(n).__name__


# ----------------------------------------------------------------------------------------------
# part 1: every nuclide of one element: forward lookups, decoding, element membership, abundances

_Z_MAX = 120


def nuc_enum(tier):
    return [{"z": z} for z in range(1, _Z_MAX + 1)] + [{"z": None}]


def nuc_execute(case):
    from armi.nucDirectory import elements, nucDir
    from armi.nucDirectory import nuclideBases as nb

    out = Out()
    z = case["z"]
    if z is None:
        # catch-all: nothing may live outside the enumerated atomic numbers
        stray = sorted(n.name for n in nb.instances if not (1 <= n.z <= _Z_MAX))
        strayz = sorted(k for k in elements.byZ if not (isinstance(k, int) and 1 <= k <= _Z_MAX))
        out.evals = 1
        out.nontrivial_count = 0
        out.check(not stray and not strayz, "directory/atomic-number-outside-enumeration",
                  lambda: "nuclides %s / elements %s have Z outside 1..%d" % (stray[:5], strayz[:5], _Z_MAX))
        return out

    nucs = [n for n in nb.instances if n.z == z]
    element = elements.byZ.get(z)
    if element is None:
        out.evals = 1
        out.nontrivial_count = 0
        out.check(not nucs, "elements/missing-element", lambda: "nuclides with Z=%d but no such element" % z)
        out.label("element:absent")
        return out
    sym = element.symbol
    specs = _id_specs(nb)
    rows = 0

    # -- the element's own tables
    out.check(element.z == z and elements.bySymbol.get(sym) is element and elements.byName.get(element.name) is element,
              "elements/table-mismatch", lambda: "element Z=%d %r is not the same object in byZ/bySymbol/byName" % (z, sym))
    out.check(elements.getElementZ(symbol=sym) == z and elements.getSymbol(z=z) == sym and elements.getName(z=z) == element.name,
              "elements/accessor-mismatch", lambda: "getElementZ/getSymbol/getName disagree for Z=%d" % z)

    # -- membership both ways
    members = list(element.nuclides)
    ids_members = [id(n) for n in members]
    out.check(len(set(ids_members)) == len(ids_members), "elements/duplicate-member",
              lambda: "element %s lists a nuclide twice" % sym)
    out.check(set(ids_members) == {id(n) for n in nucs}, "elements/membership",
              lambda: "element %s members %s != directory nuclides with Z=%d %s"
              % (sym, sorted(n.name for n in members if id(n) not in {id(m) for m in nucs})[:5], z,
                 sorted(n.name for n in nucs if id(n) not in set(ids_members))[:5]))

    for n in nucs:
        kind = _kind(nb, n)
        out.check(n.element is element, "elements/nuclide-element-link",
                  lambda: "%s.element is %r, expected the Z=%d element" % (n.name, n.element, z))
        # ---- forward lookups: every identifier the nuclide has maps back to this very object
        for table, applies, getter in specs:
            if not applies(n):
                continue
            key = getter(n)
            rows += 1
            out.labels.append("rows:" + table)
            got = getattr(nb, table).get(key)
            shared = _SHARED.get(table, {}).get(key)
            if shared is not None and n.name in shared:
                out.check(got is not None and got.name in shared, "lookup/%s-shared-id" % table,
                          lambda: "%s[%r] is %r, expected one of %s" % (table, key, got, shared))
                continue
            out.check(got is n, "lookup/%s" % table,
                      lambda: "%s[%r] is %r, not the nuclide %r that owns the identifier" % (table, key, got, n))
        out.check(n.getMcc3Id() == n.getMcc3IdEndfbVII1(), "id/mcc3-default-is-VII1",
                  lambda: "%s getMcc3Id %r != VII.1 id %r" % (n.name, n.getMcc3Id(), n.getMcc3IdEndfbVII1()))
        out.check(nucDir.getNuclide(n.name) is n and nb.fromName(n.name) is n, "lookup/by-name-functions",
                  lambda: "nucDir.getNuclide/fromName(%r) do not return the nuclide" % n.name)
        out.check(n.getDatabaseName() == "n" + n.name[:1].upper() + n.name[1:].lower(), "id/dbname-rule",
                  lambda: "%s database name %r" % (n.name, n.getDatabaseName()))

        # ---- decoding
        if kind == "NuclideBase":
            a, s = n.a, n.state
            out.check(isinstance(a, int) and a >= 1 and isinstance(s, int) and 0 <= s <= 3, "nuclide/a-state-domain",
                      lambda: "%s has A=%r state=%r" % (n.name, a, s))
            # name
            m = _NAME_RE.match(n.name)
            ok = False
            if m:
                msym, ma, suffix = m.group(1), int(m.group(2)), m.group(3) or ""
                if suffix == "G":
                    # documented special case: only the ground state of Am-242 carries a "G"
                    ok = (msym, ma, 0) == (sym, a, s) and (z, a) == (95, 242)
                else:
                    ok = (msym, ma, _META[suffix]) == (sym, a, s) and not ((z, a, s) == (95, 242, 0))
            out.check(ok, "decode/name", lambda: "name %r does not decode to (%s, A=%d, state=%d)" % (n.name, sym, a, s))
            # hyphenated form accepted by nucDir (documented: 'U-235')
            hy = "%s-%d%s" % (sym, a, n.name[len(sym) + len(str(a)):])
            out.check(nucDir.getNuclide(hy) is n, "lookup/hyphenated-name", lambda: "nucDir.getNuclide(%r)" % hy)
            # label
            lab = n.label
            ok = False
            if isinstance(lab, str) and lab.startswith(sym) and len(lab) >= len(sym) + 2:
                rest = lab[len(sym):]
                digits, last = rest[:-1], rest[-1]
                mod = 10 ** (4 - len(sym))
                if digits.isdigit() and last in _LABEL_LAST and str(int(digits)) == digits:
                    idx = _LABEL_LAST.index(last)
                    ok = idx // 10 == s and int(digits) * 10 + idx % 10 == a % mod
            out.check(ok, "decode/label", lambda: "label %r does not decode to (%s, A=%d mod, state=%d)" % (lab, sym, a, s))
            out.check(isinstance(lab, str) and len(lab) <= 4, "decode/label-length", lambda: "label %r longer than 4" % lab)
            # MCNP
            mc = n.getMcnpId()
            ok = False
            if isinstance(mc, str) and mc.isdigit() and len(mc) >= 4:
                mz, aaa = int(mc[:-3]), int(mc[-3:])
                if (z, a) == (95, 242):
                    want = {1: 242, 0: 642, 2: 742, 3: 842}[s]  # documented Am-242 exception
                    ok = mz == z and aaa == want
                else:
                    cands = {(aaa, 0)} | {(aaa - 300 - 100 * k, k) for k in (1, 2, 3)}
                    ok = mz == z and (a, s) in cands and (aaa < 300 or s > 0)
            out.check(ok, "decode/mcnp", lambda: "MCNP id %r does not decode to (Z=%d, A=%d, state=%d)" % (mc, z, a, s))
            # AAAZZZS
            az = n.getAAAZZZSId()
            ok = isinstance(az, str) and az.isdigit() and len(az) >= 5 and (int(az[:-4]), int(az[-4:-1]), int(az[-1])) == (a, z, s) \
                and str(int(az[:-4])) == az[:-4]
            out.check(ok, "decode/aaazzzs", lambda: "AAAZZZS id %r does not decode to (A=%d, Z=%d, S=%d)" % (az, a, z, s))
            out.check(_isreal(n.abundance) and 0.0 <= n.abundance <= 1.0, "nuclide/abundance-domain",
                      lambda: "%s abundance %r" % (n.name, n.abundance))
            out.check(_isreal(n.weight) and n.weight > 0, "nuclide/weight-domain", lambda: "%s weight %r" % (n.name, n.weight))
        elif kind == "NaturalNuclideBase":
            out.check(n.name == sym and n.label == sym and n.a == 0 and n.state == 0 and n.abundance == 0.0,
                      "decode/natural-name", lambda: "elemental nuclide %r label %r A=%r for element %s" % (n.name, n.label, n.a, sym))
            out.check(n.getMcnpId() == "%d000" % z, "decode/mcnp", lambda: "elemental MCNP id %r for Z=%d" % (n.getMcnpId(), z))
        else:
            out.check(n.a == 0 and n.state == 0 and n.abundance == 0.0 and z in (119, 120), "decode/lump-dummy",
                      lambda: "%s: A=%r state=%r Z=%d" % (n.name, n.a, n.state, z))
        out.labels.append("kind:" + kind)

    # ---- natural abundances
    isotopes = [n for n in nucs if _kind(nb, n) == "NuclideBase"]
    natural = [n for n in isotopes if n.abundance > 0.0]
    got_nat = element.getNaturalIsotopics()
    out.check({id(n) for n in got_nat} == {id(n) for n in natural} and len(got_nat) == len(natural),
              "elements/natural-isotopics", lambda: "getNaturalIsotopics of %s differs from the isotopes with abundance > 0" % sym)
    out.check(element.isNaturallyOccurring() == bool(natural), "elements/isNaturallyOccurring", lambda: "element %s" % sym)
    elementals = [n for n in nucs if _kind(nb, n) == "NaturalNuclideBase"]
    out.check(len(elementals) == (1 if natural else 0), "elements/elemental-nuclide-presence",
              lambda: "element %s: %d natural isotopes, %d elemental nuclides" % (sym, len(natural), len(elementals)))
    if natural:
        total = math.fsum(n.abundance for n in natural)
        dev = total - 1.0
        if abs(dev) > ABUNDANCE_TOL:
            if z == 20 and abs(total - 1.00003) < 1e-6:
                _known_or_fail(out, case, "elements/abundance-sum/calcium",
                               "natural abundances of CA sum to %.8f: %s" % (total, [(n.name, n.abundance) for n in natural]))
            else:
                out.fail("elements/abundance-sum", "natural abundances of %s sum to %.10f (|dev| > %g): %s"
                         % (sym, total, ABUNDANCE_TOL, [(n.name, n.abundance) for n in natural]))
        for e in elementals:
            w = math.fsum(n.weight * n.abundance for n in natural)
            out.check(abs(e.weight - w) <= 1e-9 * w, "elements/elemental-weight",
                      lambda: "%s weight %r, abundance-weighted isotope weights %r" % (e.name, e.weight, w))
        out.label("element:natural")
    else:
        out.label("element:no-natural-isotopes")
    out.evals = max(rows, 1)
    out.nontrivial_count = rows
    return out


# ----------------------------------------------------------------------------------------------
# part 2: every table, key by key (reverse direction, uniqueness) and the source files

_TABLES = ["byName", "byDBName", "byLabel", "byMcc2Id", "byMcc3Id", "byMcc3IdEndfbVII0", "byMcc3IdEndfbVII1",
           "byMcnpId", "byAAAZZZSId"]


def table_enum(tier):
    return [{"table": t} for t in _TABLES] + [{"table": "instances"}, {"table": "nuclides.dat"}, {"table": "mcc-nuclides.yaml"}]


def table_execute(case):
    from armi import context
    from armi.nucDirectory import elements
    from armi.nucDirectory import nuclideBases as nb

    out = Out()
    name = case["table"]
    inst_ids = {id(n) for n in nb.instances}
    if name in _TABLES:
        table = getattr(nb, name)
        _t, applies, getter = [s for s in _id_specs(nb) if s[0] == name][0]
        aliases = _ALIASES.get(name, {})
        shared = _SHARED.get(name, {})
        out.evals = len(table)
        out.nontrivial_count = len(table)
        out.labels.extend(["rows:" + name] * len(table))
        seen_alias = set()
        for key in sorted(table, key=str):
            n = table[key]
            if not out.check(id(n) in inst_ids, "table/%s-value-not-in-instances" % name,
                             lambda: "%s[%r] = %r is not one of nuclideBases.instances" % (name, key, n)):
                continue
            out.check(isinstance(key, str) and key != "", "table/%s-key-type" % name, lambda: "key %r" % (key,))
            if key in aliases:
                seen_alias.add(key)
                out.check(n.name == aliases[key], "table/%s-alias-target" % name,
                          lambda: "documented alias %s[%r] points to %s, expected %s" % (name, key, n.name, aliases[key]))
                continue
            out.check(applies(n) and getter(n) == key, "table/%s-key-is-not-owner-id" % name,
                      lambda: "%s[%r] = %s whose own identifier is %r" % (name, key, n.name, getter(n) if applies(n) else None))
        out.check(seen_alias == set(aliases), "table/%s-alias-missing" % name,
                  lambda: "documented alias keys %s not all present" % sorted(aliases))
        # uniqueness: group the nuclides by their own identifier
        owners = {}
        for n in nb.instances:
            if applies(n):
                owners.setdefault(getter(n), []).append(n.name)
        for key in sorted(owners, key=str):
            names = sorted(owners[key])
            if len(names) > 1:
                out.check(key in shared and set(names) <= set(shared[key]), "unique/%s" % name,
                          lambda: "identifier %r in %s is owned by %s" % (key, name, names))
        out.check(set(owners) == set(table) - set(aliases), "table/%s-keyset" % name,
                  lambda: "keys without owner %s; identifiers without key %s"
                  % (sorted(set(table) - set(aliases) - set(owners), key=str)[:5], sorted(set(owners) - set(table), key=str)[:5]))
        if name == "byMcc3Id":
            out.check(nb.byMcc3Id is nb.byMcc3IdEndfbVII1, "table/byMcc3Id-is-VII1", "byMcc3Id is documented to be the VII.1 table")
        return out

    if name == "instances":
        out.evals = len(nb.instances)
        out.nontrivial_count = len(nb.instances)
        out.check(len(inst_ids) == len(nb.instances), "instances/duplicate-object", "a nuclide object is listed twice")
        triples = {}
        for n in nb.instances:
            kind = _kind(nb, n)
            out.labels.append("kind:" + kind)
            out.check(n.z in elements.byZ, "instances/unknown-element", lambda: "%s has Z=%r" % (n.name, n.z))
            if kind == "NuclideBase":
                triples.setdefault((n.z, n.a, n.state), []).append(n.name)
        dup = {k: v for k, v in triples.items() if len(v) > 1}
        out.check(not dup, "unique/z-a-state", lambda: "same (Z, A, state) for %s" % sorted(dup.items())[:3])
        return out

    if name == "nuclides.dat":
        rows = []
        with open(os.path.join(context.RES, "nuclides.dat")) as f:
            for line in f:
                if line.startswith("#") or line.startswith("Z") or not line.strip():
                    continue
                p = line.split()
                rows.append((int(p[0]), int(p[2]), int(p[3]), p[4].upper(), float(p[5]), float(p[6]),
                             math.inf if p[7] == "inf" else float(p[7])))
        out.evals = len(rows)
        out.nontrivial_count = len(rows)
        out.labels.extend(["rows:nuclides.dat"] * len(rows))
        isotopes = [n for n in nb.instances if _kind(nb, n) == "NuclideBase"]
        out.check(len(isotopes) == len(rows), "source/nuclides.dat-row-count",
                  lambda: "%d rows in nuclides.dat, %d NuclideBase objects" % (len(rows), len(isotopes)))
        for z, a, s, sym, mass, abun, hl in rows:
            key = "%d%03d%d" % (a, z, s)
            n = nb.byAAAZZZSId.get(key)
            if not out.check(n is not None, "source/nuclides.dat-row-missing", lambda: "row Z=%d A=%d S=%d has no nuclide under %r" % (z, a, s, key)):
                continue
            out.check((n.z, n.a, n.state, n.element.symbol) == (z, a, s, sym) and n.weight == mass and n.abundance == abun and n.halflife == hl,
                      "source/nuclides.dat-row-differs",
                      lambda: "row (%d,%d,%d,%s,%r,%r,%r) loaded as %r" % (z, a, s, sym, mass, abun, hl, n))
        return out

    if name == "mcc-nuclides.yaml":
        from ruamel.yaml import YAML

        with open(os.path.join(context.RES, "mcc-nuclides.yaml")) as f:
            data = YAML(typ="safe").load(f)
        cols = [("ENDF/B-V.2", "byMcc2Id", "getMcc2Id"), ("ENDF/B-VII.0", "byMcc3IdEndfbVII0", "getMcc3IdEndfbVII0"),
                ("ENDF/B-VII.1", "byMcc3IdEndfbVII1", "getMcc3IdEndfbVII1")]
        n_ids = 0
        for nucName in sorted(data):
            n = nb.byName.get(nucName)
            if not out.check(n is not None, "source/mcc-unknown-nuclide", lambda: "mcc-nuclides.yaml names %r" % nucName):
                continue
            for col, table, getter in cols:
                want = data[nucName].get(col)
                got = getattr(n, getter)()
                n_ids += 1
                out.check((want or "") == got, "source/mcc-id-differs", lambda: "%s %s: file %r, nuclide %r" % (nucName, col, want, got))
                if want:
                    owner = getattr(nb, table).get(want)
                    allowed = _SHARED.get(table, {}).get(want, (n.name,))
                    out.check(owner is not None and owner.name in allowed, "lookup/%s" % table,
                              lambda: "%s[%r] is %r, file says %s" % (table, want, owner, nucName))
        listed = {nb.byName[k].name for k in data if k in nb.byName}
        extra = sorted(n.name for n in nb.instances if (n.getMcc2Id() or n.getMcc3IdEndfbVII0() or n.getMcc3IdEndfbVII1()) and n.name not in listed)
        out.check(not extra, "source/mcc-id-without-file-entry", lambda: "nuclides %s carry MC2 ids not in the file" % extra[:5])
        out.evals = n_ids
        out.nontrivial_count = n_ids
        out.labels.extend(["rows:mcc-nuclides.yaml"] * n_ids)
        return out
    raise ValueError("unknown table case %r" % (name,))


# ----------------------------------------------------------------------------------------------
# part 3: burn chain

_BURN_CHUNKS = 6


def burn_enum(tier):
    return [{"chunk": i} for i in range(_BURN_CHUNKS)] + [{"chunk": "file"}]


def burn_execute(case):
    from armi import context
    from armi.nucDirectory import nuclideBases as nb
    from armi.nucDirectory import transmutations

    out = Out()
    parents = sorted((n for n in nb.instances if n.trans or n.decays), key=lambda n: n.name)
    if case["chunk"] == "file":
        from ruamel.yaml import YAML

        with open(os.path.join(context.RES, "burn-chain.yaml")) as f:
            data = YAML(typ="safe").load(f)
        out.evals = len(data)
        out.nontrivial_count = len(data)
        out.check(nb.burnChainImposed, "burn/not-imposed", "harness imposes the default burn chain")
        for key in sorted(data):
            n = nb.byName.get(key)
            if not out.check(n is not None, "burn/unknown-parent", lambda: "burn-chain.yaml parent %r is not a nuclide" % key):
                continue
            nt = sum(1 for e in data[key] if "transmutation" in e)
            nd = sum(1 for e in data[key] if "decay" in e)
            out.check((len(n.trans), len(n.decays)) == (nt, nd), "burn/entries-not-applied",
                      lambda: "%s: file has %d transmutations, %d decays; nuclide has %d, %d" % (key, nt, nd, len(n.trans), len(n.decays)))
        from_file = {nb.byName[k].name for k in data if k in nb.byName}
        out.check({p.name for p in parents} <= from_file, "burn/entries-without-source",
                  lambda: "nuclides with burn data not in the file: %s" % sorted({p.name for p in parents} - from_file))
        return out

    mine = [p for i, p in enumerate(parents) if i % _BURN_CHUNKS == case["chunk"]]
    rows = 0
    for p in mine:
        groups = {}
        for kind, items, types in (("transmutation", p.trans, transmutations.TRANSMUTATION_TYPES), ("decay", p.decays, transmutations.DECAY_MODES)):
            for t in items:
                rows += 1
                out.labels.append("rows:" + kind)
                out.check(t.parent is p, "burn/parent-link", lambda: "%r attached to %s" % (t, p.name))
                out.check(t.type in types, "burn/type", lambda: "%s %s type %r" % (p.name, kind, t.type))
                prods = t.productNuclides
                out.check(isinstance(prods, tuple) and len(prods) >= 1, "burn/no-product", lambda: "%s %s %s products %r" % (p.name, kind, t.type, prods))
                for prod in prods:
                    out.check(isinstance(prod, str) and prod in nb.byName, "burn/unknown-product",
                              lambda: "%s %s %s names product %r which is not a nuclide" % (p.name, kind, t.type, prod))
                if t.productParticle is not None:
                    out.check(t.productParticle in nb.byName, "burn/unknown-product-particle",
                              lambda: "%s %s particle %r" % (p.name, t.type, t.productParticle))
                br = t.branch
                out.check(_isreal(br) and 0.0 <= br <= 1.0, "burn/branch-outside-0-1", lambda: "%s %s %s branch %r" % (p.name, kind, t.type, br))
                if _isreal(br):
                    groups.setdefault((kind, t.type), []).append((float(br), prods))
                if kind == "decay":
                    hl = t.halfLifeInSeconds
                    out.check(_isreal(hl) and hl > 0, "burn/half-life", lambda: "%s %s half life %r" % (p.name, t.type, hl))
                    if _isreal(hl) and hl > 0 and _isreal(br):
                        want = math.log(2) / hl * br
                        out.check(_isreal(t.decay) and abs(t.decay - want) <= 1e-12 * abs(want), "burn/decay-constant",
                                  lambda: "%s %s decay constant %r expected %r" % (p.name, t.type, t.decay, want))
        for (kind, typ), items in sorted(groups.items()):
            if kind != "transmutation":
                continue
            if typ == "fission":
                # the ternary-fission tritium yield is listed on top of the lumped fission products
                main = [b for b, prods in items if prods[0] != "H3"]
                total = math.fsum(main)
            else:
                total = math.fsum(b for b, _p in items)
            out.check(abs(total - 1.0) <= 1e-9, "burn/transmutation-branches-do-not-sum-to-1",
                      lambda: "%s %s branches %s sum to %r" % (p.name, typ, items, total))
    out.evals = max(rows, 1)
    out.nontrivial_count = rows
    return out


# ----------------------------------------------------------------------------------------------
# materials

_EXCLUDED = {
    "Material": "abstract-base",
    "Fluid": "abstract-base",
    "SimpleSolid": "abstract-base",
    "FuelMaterial": "abstract-base",
    "Water": "abstract-base",  # pseudoDensity: "Please use a concrete instance: SaturatedWater or SaturatedSteam"
    "Void": "void",
    "Custom": "requires-setup",  # composition and density come from the blueprint's custom isotopics
    "_Mixture": "requires-setup",  # homogenised copy, filled in by the caller
}
_REFDENS_UNSET = ("Concrete", "Cu", "UThZr", "Uranium", "ZnO")
_FUNCS = ("density", "pseudoDensity", "linearExpansionPercent", "linearExpansion")
_OWN_KEYS = {
    "density": ("density", "pseudoDensity"),
    "pseudoDensity": ("density", "pseudoDensity"),
    "linearExpansionPercent": ("linear expansion percent",),
    "linearExpansion": ("linear expansion",),
}
_C_TO_K = 273.15
_NOMINAL = (300.0, "K")
_GRID = {"quick": 41, "thorough": 2001}
_SODIUM_TCRIT_K = 2503.7


def _material_classes():
    from armi import materials

    found = {}
    for cls in materials.iterAllMaterialClassesInNamespace(materials):
        found.setdefault(cls.__name__, cls)
    return found


def mat_enum(tier):
    names = sorted(_material_classes())
    return [{"material": nm, "points": _GRID[tier]} for nm in names] + [{"material": None, "points": 0}]


def _other(t, units):
    """The same temperature in the other unit."""
    return (t + _C_TO_K, "K") if units == "C" else (t - _C_TO_K, "C")


def _kelvin(t, units):
    return t + _C_TO_K if units == "C" else t


class _Probe:
    """A fresh material instance whose range checks are observed instead of logged."""

    def __init__(self, cls):
        self.m = cls()
        self.records = []
        rec = self.records

        def checkTempRange(minT, maxT, val, label=""):
            rec.append((label, minT, maxT, val))

        self.m.checkTempRange = checkTempRange

    def call(self, fname, t, units):
        """(value, range-check records) of ``fname`` at temperature t given in ``units`` ('K' -> Tk=, 'C' -> Tc=)."""
        del self.records[:]
        self.m.clearCache()
        f = getattr(self.m, fname)
        val = f(Tk=t) if units == "K" else f(Tc=t)
        return val, list(self.records)


def _function_domain(probe, fname):
    """Stated range of one property function: (lo, hi, units, labels) in the units the range is stated in, or None.

    The range is the intersection of every propertyValidTemperature entry that the function itself checks when it
    is evaluated, and of the entry stored under the function's own key.  'unavailable' = function not provided.
    """
    m = probe.m
    try:
        _v, recs = probe.call(fname, *_NOMINAL)
    except NotImplementedError:
        return "unavailable"
    pvt = m.propertyValidTemperature
    labels = []
    for lab, _lo, _hi, _val in recs:
        if lab in pvt and lab not in labels:
            labels.append(lab)
    for key in _OWN_KEYS[fname]:
        if key in pvt and key not in labels:
            labels.append(key)
    if not labels:
        return None
    units = str(pvt[labels[0]][1]).upper()
    los, his = [], []
    for lab in labels:
        (lo, hi), u = pvt[lab]
        lo, hi, u = float(lo), float(hi), str(u).upper()
        if u != units:
            lo, hi = _other(lo, u)[0], _other(hi, u)[0]
        los.append(lo)
        his.append(hi)
    return max(los), min(his), units, labels


def _call(out, case, probe, name, fname, t, units):
    """probe.call with the one known exception shape handled; returns (value, records) or None."""
    try:
        return probe.call(fname, t, units)
    except ValueError as exc:
        if name == "Air" and units == "C" and fname in ("density", "pseudoDensity") and "single temperature" in str(exc):
            _known_or_fail(out, case, "materials/Tc-entry-raises/air",
                           "Air.%s(Tc=%r) raises ValueError: pseudoDensity converts Tc to Tk and then calls getTk(Tc, Tk) "
                           "with both set (%s)" % (fname, t, exc))
            return None
        raise
    except (TypeError, ArithmeticError) as exc:
        kw = "Tk" if units == "K" else "Tc"
        out.fail("materials/%s-raises-%s" % (fname, type(exc).__name__), "%s.%s(%s=%r) raises %s: %s" % (name, fname, kw, t, type(exc).__name__, exc))
        return None


def _judge(out, case, probe, name, fname, t, units, fluid):
    """Evaluate one property function at temperature t (in ``units``) and apply the oracle; returns the value or None."""
    m = probe.m
    got = _call(out, case, probe, name, fname, t, units)
    if got is None:
        return None
    val, recs = got
    kw = "Tk" if units == "K" else "Tc"
    where = "%s.%s(%s=%r)" % (name, fname, kw, t)
    # the material must not report its own stated range as violated inside that range
    for lab, lo, hi, v in recs:
        eps = 1e-9 * (1.0 + abs(lo) + abs(hi))
        out.check(_isreal(v) and lo - eps <= v <= hi + eps, "materials/own-range-check-fails-inside-stated-range",
                  lambda: "%s: range check %r (%r..%r) sees %r" % (where, lab, lo, hi, v))
    if fname in ("density", "pseudoDensity"):
        if not _isreal(val):
            if name == "Sodium" and isinstance(val, complex) and _kelvin(t, units) >= _SODIUM_TCRIT_K - 1e-9:
                _known_or_fail(out, case, "materials/density-complex-at-range-end/sodium",
                               "%s = %r: the stated upper end 2230.55 C is the critical temperature and Tc + 273.15 rounds above "
                               "it, so (1 - T/Tcrit)**0.5 is complex" % (where, val))
            else:
                out.fail("materials/%s-not-finite" % fname, "%s = %r" % (where, val))
            return None
        if not val > 0.0:
            if val == 0.0 and m.refDens == 0.0 and name in _REFDENS_UNSET:
                _known_or_fail(out, case, "materials/density-zero/refDens-unset/" + name,
                               "%s = 0.0: the inherited Material.%s divides refDens, which %s never sets on the instance (refDens = %r)"
                               % (where, fname, name, m.refDens))
            else:
                out.fail("materials/%s-not-positive" % fname, "%s = %r" % (where, val))
            return float(val)
        # (the kg/m^3 twins are not judged: the statement speaks of the density, and SiC.pseudoDensity's (Tc, Tk)
        # argument order makes its twin disagree -- an observation outside C19)
    elif fname == "linearExpansionPercent":
        if not out.check(_isreal(val) and val > -100.0, "materials/linearExpansionPercent-not-finite", lambda: "%s = %r" % (where, val)):
            return None
    else:
        if not out.check(_isreal(val), "materials/linearExpansion-not-finite", lambda: "%s = %r" % (where, val)):
            return None
        if fluid:
            out.check(val == 0.0, "materials/fluid-expands", lambda: "%s = %r (fluids are documented not to expand)" % (where, val))
    return float(val)


def _cross_checks(out, case, probe, name, fname, t, units, fluid, v1):
    """Same temperature entered in the other unit; fluid density equals pseudoDensity."""
    if v1 is None:
        return
    # "temperatures may be specified in either K or C and the functions will convert for you".  The converted
    # temperature t2 is not exactly t: armi converts it back either to t or to t_back = (t2 -/+ 273.15), a few ulps
    # away, so the value must lie between the stated-unit values at t and at t_back (exact up to 1e-12).
    t2, u2 = _other(t, units)
    got = _call(out, case, probe, name, fname, t2, u2)
    if got is not None:
        v2 = got[0]
        sodium_end = name == "Sodium" and _kelvin(t2, u2) >= _SODIUM_TCRIT_K - 1e-6
        if sodium_end and isinstance(v2, complex):
            pass  # the known end-point shape, judged where the end point is entered in its stated unit
        else:
            t_back = _other(t2, u2)[0]
            vb = v1
            if t_back != t:
                gb = _call(out, case, probe, name, fname, t_back, units)
                if gb is not None and _isreal(gb[0]):
                    vb = float(gb[0])
            tol = 1e-12 * max(abs(v1), abs(vb)) + 1e-300
            out.check(_isreal(v2) and min(v1, vb) - tol <= float(v2) <= max(v1, vb) + tol, "materials/Tk-Tc-disagree",
                      lambda: "%s.%s: %r at %r %s (%r at %r %s) but %r at %r %s" % (name, fname, v1, t, units, vb, t_back, units, v2, t2, u2))
    if fluid and fname == "density":
        pv, _r = probe.call("pseudoDensity", t, units)
        out.check(_isreal(pv) and float(pv) == v1, "materials/fluid-density-differs-from-pseudoDensity",
                  lambda: "%s at %r %s: density %r pseudoDensity %r" % (name, t, units, v1, pv))


def _breakpoints(cls):
    """Candidate breakpoints of the class's piecewise correlations, collected mechanically: every numeric literal that
    appears in a comparison inside the source of the class and of its bases in armi.materials, and every entry of a
    class-level numeric table (interpolation knots).  Sorted list of floats (unit unknown: tried as K and as C)."""
    import ast
    import inspect
    import textwrap

    vals = set()

    def lit(node):
        if isinstance(node, ast.Constant) and isinstance(node.value, (int, float)) and not isinstance(node.value, bool):
            return float(node.value)
        if isinstance(node, ast.UnaryOp) and isinstance(node.op, (ast.USub, ast.UAdd)):
            v = lit(node.operand)
            if v is not None:
                return -v if isinstance(node.op, ast.USub) else v
        return None

    for base in cls.__mro__:
        if not getattr(base, "__module__", "").startswith("armi.materials"):
            continue
        try:
            tree = ast.parse(textwrap.dedent(inspect.getsource(base)))
        except (OSError, TypeError, SyntaxError):
            tree = None
        if tree is not None:
            for node in ast.walk(tree):
                if isinstance(node, ast.Compare):
                    for sub in [node.left] + list(node.comparators):
                        v = lit(sub)
                        if v is not None:
                            vals.add(v)
        for attr, obj in sorted(vars(base).items()):
            if isinstance(obj, (list, tuple)) and len(obj) >= 2 and all(_isreal(x) for x in obj):
                vals.update(float(x) for x in obj)
    return sorted(v for v in vals if math.isfinite(v))


def _breakpoint_temps(cands, lo, hi, units):
    """Breakpoint candidates read as K and as C, expressed in ``units``, inside [lo, hi], each with both float neighbours."""
    pts = set()
    for c in cands:
        for t in (c, c + _C_TO_K if units == "K" else c - _C_TO_K):
            if lo <= t <= hi:
                for q in (t, math.nextafter(t, -math.inf), math.nextafter(t, math.inf)):
                    if lo <= q <= hi:
                        pts.add(q)
    return sorted(pts)


def _grid(lo, hi, n):
    if hi <= lo:
        return [lo]
    span = hi - lo
    pts = [lo, hi, lo + 1e-9 * span, hi - 1e-9 * span, lo + 1e-3 * span, hi - 1e-3 * span]
    pts += [lo + span * k / (n - 1.0) for k in range(1, n - 1)]
    return sorted(set(min(max(p, lo), hi) for p in pts))


def mat_execute(case):
    from armi import materials as matpkg
    from armi.materials import material
    from armi.nucDirectory import nuclideBases as nb

    out = Out()
    classes = _material_classes()
    name = case["material"]
    if name is None:
        # census: exclusions are counted with labels, and every excluded name still exists
        out.evals = len(classes)
        out.nontrivial_count = 0
        for nm in sorted(classes):
            out.label("class:" + ("excluded:" + _EXCLUDED[nm] if nm in _EXCLUDED else "checked"))
        gone = sorted(set(_EXCLUDED) - set(classes))
        out.check(not gone, "materials/excluded-class-missing", lambda: "excluded classes %s no longer exist" % gone)
        return out
    cls = classes.get(name)
    if cls is None:
        out.fail("materials/class-missing", "material class %r is not in the armi.materials namespace" % name)
        return out
    out.check(matpkg.resolveMaterialClassByName(name) is cls, "materials/resolve-by-name", lambda: "resolveMaterialClassByName(%r)" % name)
    try:
        probe = _Probe(cls)
    except Exception as exc:  # noqa: BLE001  (the statement: every library material can be instantiated)
        out.fail("materials/instantiation-fails", "%s(): %s: %s" % (name, type(exc).__name__, exc))
        return out
    m = probe.m
    if name in _EXCLUDED:
        out.label("excluded:" + _EXCLUDED[name])
        out.evals = 1
        out.nontrivial_count = 0
        return out
    fluid = isinstance(m, material.Fluid)
    out.label("fluid" if fluid else "solid")
    evals = 1

    # ---- composition
    mf = m.massFrac
    if not mf:
        if name == "Potassium":
            _known_or_fail(out, case, "materials/composition-empty/potassium",
                           "Potassium() has no mass fractions at all (sum 0): the class defines no setDefaultMassFracs")
        else:
            out.fail("materials/composition-empty", "%s() has no mass fractions" % name)
    else:
        for key in sorted(mf):
            evals += 1
            out.check(isinstance(key, str) and key in nb.byName, "materials/unknown-nuclide",
                      lambda: "%s mass fraction key %r is not a nuclide name" % (name, key))
            out.check(_isreal(mf[key]) and 0.0 <= mf[key] <= 1.0, "materials/massfrac-outside-0-1", lambda: "%s[%r] = %r" % (name, key, mf[key]))
        total = math.fsum(float(v) for v in mf.values() if _isreal(v))
        if abs(total - 1.0) > MASSFRAC_TOL:
            if name == "Sulfur" and abs(total - 1.0018) < 1e-5:
                _known_or_fail(out, case, "materials/massfrac-sum/sulfur-s36",
                               "Sulfur mass fractions %s sum to %.6f (S36 is listed as 0.002; its natural fraction is ~0.0002)"
                               % (dict(sorted(mf.items())), total))
            else:
                out.fail("materials/massfrac-sum", "%s mass fractions sum to %.8f: %s" % (name, total, dict(sorted(mf.items()))))
    dup = m.duplicate()
    out.check(type(dup) is cls and dup.massFrac == m.massFrac and dup.refDens == m.refDens, "materials/duplicate-differs",
              lambda: "%s.duplicate() does not reproduce composition/refDens" % name)

    # ---- properties over their stated ranges
    cands = _breakpoints(cls)
    for fname in _FUNCS:
        dom = _function_domain(probe, fname)
        if dom == "unavailable":
            out.label("%s:not-provided" % fname)
            continue
        if dom is None:
            temps, units = [_NOMINAL[0]], _NOMINAL[1]
            out.label("%s:no-stated-range" % fname)
        else:
            lo, hi, units, labels = dom
            if not out.check(lo <= hi, "materials/stated-ranges-disjoint", lambda: "%s.%s: ranges %s do not overlap" % (name, fname, labels)):
                continue
            temps = _grid(lo, hi, case["points"])
            out.label("%s:stated-range" % fname)
        for t in temps:
            evals += 1
            v1 = _judge(out, case, probe, name, fname, t, units, fluid)
            _cross_checks(out, case, probe, name, fname, t, units, fluid, v1)
        if dom is not None:
            # exact breakpoints of piecewise correlations / table knots, with both float neighbours, in both call forms
            bps = _breakpoint_temps(cands, lo, hi, units)
            out.labels.extend(["breakpoint-temperature"] * len(bps))
            for t in bps:
                evals += 1
                v1 = _judge(out, case, probe, name, fname, t, units, fluid)
                _cross_checks(out, case, probe, name, fname, t, units, fluid, v1)
                t2, u2 = _other(t, units)
                for q in (t2, math.nextafter(t2, -math.inf), math.nextafter(t2, math.inf)):
                    if lo <= _other(q, u2)[0] <= hi:
                        evals += 1
                        _judge(out, case, probe, name, fname, q, u2, fluid)
    out.evals = evals
    out.nontrivial_count = evals
    return out


# ----------------------------------------------------------------------------------------------
# part 5: Hypothesis temperatures inside the stated ranges


def temps_strategy(tier):
    """Only the temperatures are drawn: relative positions inside a stated range (exact end points, 1e-6 neighbourhoods
    of both ends, uniform interior).  Every case applies them to every material function that has a stated range."""
    point = st.one_of(
        st.sampled_from([0.0, 1.0]),
        st.floats(0.0, 1.0, allow_nan=False),
        st.floats(0.0, 1e-6, allow_nan=False),
        st.floats(0.0, 1e-6, allow_nan=False).map(lambda x: 1.0 - x),
    )
    return st.fixed_dictionaries({"other_unit": st.booleans(), "points": st.lists(point, min_size=1, max_size=6)})


def _ranged_pairs():
    """[(name, fname, probe, domain, fluid)] for every checked material function with a stated range (fresh instances)."""
    from armi.materials import material

    classes = _material_classes()
    pairs = []
    for nm in sorted(classes):
        if nm in _EXCLUDED:
            continue
        probe = _Probe(classes[nm])
        for fn in _FUNCS:
            dom = _function_domain(probe, fn)
            if isinstance(dom, tuple) and dom[0] <= dom[1]:
                pairs.append((nm, fn, probe, dom, isinstance(probe.m, material.Fluid)))
    return pairs


def temps_execute(case):
    out = Out()
    pairs = _ranged_pairs()
    only = case.get("material")
    n = 0
    for name, fname, probe, dom, fluid in pairs:
        if only is not None and name != only:
            continue
        lo, hi, units, _labels = dom
        for u in case["points"]:
            t = min(max(lo + u * (hi - lo), lo), hi)
            n += 1
            if case["other_unit"] and lo < t < hi:
                # interior points may be entered in the other unit; end points stay exact in the stated unit
                t, un = _other(t, units)
            else:
                un = units
            v1 = _judge(out, case, probe, name, fname, t, un, fluid)
            _cross_checks(out, case, probe, name, fname, t, un, fluid, v1)
    out.evals = max(n, 1)
    out.nontrivial = n > 0
    out.label("entered-in:" + ("other-unit" if case["other_unit"] else "stated-unit"))
    if any(u in (0.0, 1.0) for u in case["points"]):
        out.label("end-point")
    if any(0.0 < u <= 1e-6 or 1.0 - 1e-6 <= u < 1.0 for u in case["points"]):
        out.label("near-end")
    if any(1e-6 < u < 1.0 - 1e-6 for u in case["points"]):
        out.label("interior")
    out.labels.extend(["pairs-with-stated-range"] * len(pairs))
    return out


# ----------------------------------------------------------------------------------------------
# part 6: re-labelling histories (nuclideBases.changeLabel is public; XSNuclide.updateBaseNuclide calls it when a
# cross-section library uses its own labels).  The label table must stay consistent after every step.

_RELABEL_NAMES = ["U235", "U238", "PU239", "FE56", "NA23", "AM242M", "AM242G", "FE", "C", "LFP35", "LREGN", "DUMP1", "DUMP2", "H3", "ZN61M3"]


def relabel_strategy(tier):
    # fresh labels by construction: no directory label contains a lower-case letter e..z
    label = st.tuples(st.text(alphabet="ABUXZ0189", min_size=0, max_size=3), st.sampled_from("efghkqxyz")).map(lambda p: p[0] + p[1])
    nuc = st.one_of(st.sampled_from(_RELABEL_NAMES), st.integers(0, 10**6))
    step = st.fixed_dictionaries({"nuc": nuc, "op": st.sampled_from(["set", "set", "xs", "back", "same"]), "label": label})
    return st.fixed_dictionaries({"steps": st.lists(step, min_size=1, max_size=8)})


def _label_table_clauses(out, nb, inst_ids, where):
    """The label clauses of the statement over the whole directory."""
    owners = {}
    bad_lookup = []
    for n in nb.instances:
        owners.setdefault(n.label, []).append(n.name)
        if nb.byLabel.get(n.label) is not n:
            bad_lookup.append(n)
    out.check(not bad_lookup, "relabel/byLabel-does-not-return-the-nuclide-carrying-the-label",
              lambda: "%s: %s" % (where, ["%s: byLabel[%r] is %r" % (n.name, n.label, getattr(nb.byLabel.get(n.label), "name", None)) for n in bad_lookup[:4]]))
    shared = {k: v for k, v in owners.items() if len(v) > 1}
    out.check(not shared, "relabel/label-owned-by-two-nuclides", lambda: "%s: %s" % (where, sorted(shared.items())[:3]))
    strangers = [k for k, v in nb.byLabel.items() if id(v) not in inst_ids]
    out.check(not strangers, "relabel/byLabel-value-not-in-instances", lambda: "%s: keys %s" % (where, sorted(strangers, key=str)[:4]))


def relabel_execute(case):
    from armi.nucDirectory import nuclideBases as nb
    from armi.nuclearDataIO import xsNuclides

    out = Out()
    inst_ids = {id(n) for n in nb.instances}
    snapshot = dict(nb.byLabel)
    originals = {}  # id -> (nuclide, original label)
    applied = 0
    try:
        _label_table_clauses(out, nb, inst_ids, "before the history")
        steps = list(case["steps"])
        for i, st_ in enumerate(steps):
            key = st_["nuc"]
            n = nb.byName[key] if isinstance(key, str) else nb.instances[key % len(nb.instances)]
            originals.setdefault(id(n), (n, n.label))
            orig = originals[id(n)][1]
            op = st_["op"]
            old = n.label
            if op == "back":
                new = orig
            elif op == "same":
                new = old
            else:
                new = st_["label"]
            holder = [m for m in nb.instances if m.label == new and m is not n]
            if holder:
                out.label("skipped:label-in-use")  # precondition of a re-labelling: the label is free
                continue
            if op == "xs" and not isinstance(n, nb.DummyNuclideBase) and nb.byName.get(n.name) is n:
                # the real caller: a library nuclide "<label><xs id>" whose metadata names the directory nuclide
                xs = xsNuclides.XSNuclide(None, new + "AA")
                xs.isotxsMetadata["nuclideId"] = n.name
                xs.updateBaseNuclide()
                out.check(xs._base is n, "relabel/xsnuclide-resolves-other-base", lambda: "step %d: %r resolved to %r" % (i, n.name, xs._base))
                out.label("op:xs")
            else:
                nb.changeLabel(n, new)
                out.label("op:" + ("set" if op == "xs" else op))
            applied += 1
            where = "step %d %s(%s, %r -> %r)" % (i, op, n.name, old, new)
            out.check(n.label == new, "relabel/label-not-applied", lambda: "%s: label is %r" % (where, n.label))
            # changeLabel promises nothing about the old key; it must at least not hand out a different nuclide
            got_old = nb.byLabel.get(old)
            out.check(got_old is None or got_old is n or got_old.label == old, "relabel/old-label-resolves-to-another-nuclide",
                      lambda: "%s: byLabel[%r] is %r" % (where, old, getattr(got_old, "name", None)))
            _label_table_clauses(out, nb, inst_ids, "after " + where)
            out.label("kind:" + _kind(nb, n))
        # and back again through the public function
        for n, orig in list(originals.values()):
            if n.label != orig:
                nb.changeLabel(n, orig)
                out.check(n.label == orig and nb.byLabel.get(orig) is n, "relabel/original-label-not-restored",
                          lambda: "%s: label %r, byLabel[%r] is %r" % (n.name, n.label, orig, getattr(nb.byLabel.get(orig), "name", None)))
        _label_table_clauses(out, nb, inst_ids, "after restoring the original labels")
    finally:
        # process-global state: put labels and table back without relying on the function under test
        for n, orig in originals.values():
            n.label = orig
        nb.byLabel.clear()
        nb.byLabel.update(snapshot)
    out.evals = max(applied, 1)
    out.nontrivial = applied >= 1
    if len({k for k in originals}) >= 2:
        out.label("nuclides>=2")
    return out


# ----------------------------------------------------------------------------------------------
# part 7: duplicate() ("Copy without needing a deepcopy") of every material class, also after the composition was
# re-specified through the public API: the copy has the same class, nuclides and fractions (hence sums to one when the
# original does), the same reference density and density, and is independent of the original.


def dup_strategy(tier):
    comp = st.lists(st.tuples(st.integers(0, 10**6), st.floats(1e-6, 1.0, allow_nan=False)), min_size=1, max_size=8)
    return st.fixed_dictionaries({"composition": comp.map(lambda l: [list(x) for x in l]), "enrich": st.floats(0.0, 1.0, allow_nan=False)})


def _dup_clauses(out, nb, name, variant, cls, m):
    before = dict(m.massFrac)
    d = m.duplicate()
    where = "%s [%s]" % (name, variant)
    if not out.check(type(d) is cls, "duplicate/class-differs", lambda: "%s: duplicate is a %s" % (where, type(d).__name__)):
        return
    if not out.check(d.massFrac == before and m.massFrac == before, "duplicate/massfrac-differs",
                     lambda: "%s: original %s (sum %.6f), duplicate %s (sum %.6f)"
                     % (where, dict(sorted(before.items())), math.fsum(before.values()), dict(sorted(d.massFrac.items())), math.fsum(d.massFrac.values()))):
        return
    out.check(all(k in nb.byName for k in d.massFrac), "duplicate/unknown-nuclide", lambda: "%s: %s" % (where, sorted(d.massFrac)))
    out.check(d.refDens == m.refDens and d.theoreticalDensityFrac == m.theoreticalDensityFrac and d.parent is m.parent,
              "duplicate/refDens-differs", lambda: "%s: refDens %r vs %r, TD %r vs %r" % (where, m.refDens, d.refDens, m.theoreticalDensityFrac, d.theoreticalDensityFrac))
    if name not in _EXCLUDED:
        # density at a temperature inside the stated range (300 K when none is stated)
        probe = _Probe(cls)
        dom = _function_domain(probe, "density")
        t, units = (_NOMINAL if not isinstance(dom, tuple) or dom[0] > dom[1] else (0.5 * (dom[0] + dom[1]), dom[2]))
        kw = {"Tk": t} if units == "K" else {"Tc": t}
        for fn in ("density", "pseudoDensity"):
            a, b = getattr(m, fn)(**kw), getattr(d, fn)(**kw)
            out.check(_isreal(a) == _isreal(b) and (not _isreal(a) or (float(a) == float(b))), "duplicate/density-differs",
                      lambda: "%s: %s(%s) original %r duplicate %r" % (where, fn, kw, a, b))
    # independence
    out.check(d.massFrac is not m.massFrac, "duplicate/not-independent", lambda: "%s: the mass-fraction dict is shared" % where)
    if name != "Custom":  # Custom.setMassFrac is refused until a density is given (documented)
        for k in list(d.massFrac)[:1]:
            d.setMassFrac(k, 0.5 * d.massFrac[k])
        d.setMassFrac("HE4", 0.25)
        d.refDens = (d.refDens or 0.0) + 1.0
        out.check(m.massFrac == before, "duplicate/not-independent", lambda: "%s: changing the duplicate changed the original to %s" % (where, m.massFrac))


def dup_execute(case):
    from armi.nucDirectory import nuclideBases as nb

    out = Out()
    classes = _material_classes()
    names = [n.name for n in nb.instances]
    comp = {}
    for idx, w in case["composition"]:
        comp[names[idx % len(names)]] = comp.get(names[idx % len(names)], 0.0) + w
    total = math.fsum(comp.values())
    comp = {k: v / total for k, v in sorted(comp.items())}
    n = 0
    for name in sorted(classes):
        cls = classes[name]
        m = cls()
        _dup_clauses(out, nb, name, "default", cls, m)
        n += 1
        if name in _EXCLUDED:
            continue
        # composition re-specified through the public API
        m = cls()
        m.clearMassFrac()
        for k, v in comp.items():
            m.setMassFrac(k, min(v, 1.0))
        _dup_clauses(out, nb, name, "re-specified", cls, m)
        n += 1
        # enrichment adjusted (where the class names an enriched nuclide that is part of its default composition)
        m = cls()
        en = m.enrichedNuclide
        if en and en in m.massFrac and len(m.massFrac) >= 2:
            try:
                m.adjustMassEnrichment(case["enrich"])
            except ValueError:
                out.label("enrich:refused")  # documented refusals (no other isotope to balance against, ...)
                continue
            if all(_isreal(v) for v in m.massFrac.values()):
                _dup_clauses(out, nb, name, "enriched", cls, m)
                out.label("variant:enriched")
                n += 1
    out.evals = n
    out.nontrivial = len(comp) >= 2
    out.label("nuclides:%d" % min(len(comp), 4))
    return out


# ----------------------------------------------------------------------------------------------
# part 8: applyInputParams with the class's documented modification keywords (this is how blueprints instantiate a
# material: cls() then applyInputParams(**materialModifications, customIsotopics=...), without a parent component)

_ENRICH_KEYS = {"B10_wt_frac": "B10", "U235_wt_frac": "U235", "U233_wt_frac": "U233", "LI6_wt_frac": "LI6", "LI_wt_frac": "LI6"}
_TD_KEYS = ("TD_frac", "theoretical_density", "sulfur_density_frac")
_MIX_NUCS = ("U235", "U238", "PU239", "TH232")


def ip_strategy(tier):
    frac = st.one_of(st.sampled_from([0.0, 1.0, 0.05, 0.5]), st.floats(0.0, 1.0, allow_nan=False))
    feed = st.lists(st.floats(0.01, 1.0, allow_nan=False), min_size=len(_MIX_NUCS), max_size=len(_MIX_NUCS))
    return st.fixed_dictionaries(
        {
            "x": frac,
            "zr": st.floats(0.0, 0.5, allow_nan=False),
            "pu": st.floats(0.01, 0.99, allow_nan=False),
            "td": st.floats(0.05, 1.0, allow_nan=False),
            "use": st.lists(st.booleans(), min_size=4, max_size=4),
            "mix": st.one_of(st.none(), st.fixed_dictionaries({"w": st.floats(0.01, 1.0, allow_nan=False), "a": feed, "b": feed})),
        }
    )


def _ip_classes():
    from armi.materials import material

    classes = _material_classes()
    return [(nm, classes[nm]) for nm in sorted(classes)
            if nm not in _EXCLUDED and classes[nm].applyInputParams is not material.Material.applyInputParams]


def _ip_kwargs(cls, case):
    """Keyword arguments for cls.applyInputParams chosen by the case: (kwargs, expectations)."""
    import inspect

    from armi.materials import material

    params = inspect.signature(cls.applyInputParams).parameters
    own = [k for k, p in params.items() if p.kind == p.POSITIONAL_OR_KEYWORD and k != "self"]
    takes_kw = any(p.kind == p.VAR_KEYWORD for p in params.values())
    groups = {"enrich": [k for k in own if k in _ENRICH_KEYS], "zr": [k for k in own if k == "ZR_wt_frac"],
              "td": [k for k in own if k in _TD_KEYS], "pu": [k for k in own if k == "mass_frac_PU02"]}
    chosen = [g for g, on in zip(("enrich", "zr", "td", "pu"), case["use"]) if on and groups[g]]
    mix = case["mix"] if issubclass(cls, material.FuelMaterial) and (takes_kw or "class1_wt_frac" in own) else None
    if not chosen and mix is None:
        chosen = [g for g in ("enrich", "zr", "td", "pu") if groups[g]][:1]
    kw, expect = {}, {}
    for g in chosen:
        if g == "enrich":
            keys = groups[g] if case["use"][3] else groups[g][:1]  # legacy + current key together, or the first alone
            for k in keys:
                kw[k] = case["x"]
            expect["enrich"] = (_ENRICH_KEYS[keys[0]], case["x"])
        elif g == "zr":
            kw["ZR_wt_frac"] = case["zr"]
            expect["zr"] = case["zr"]
        elif g == "td":
            keys = groups[g] if case["use"][3] else groups[g][-1:] if case["use"][0] else groups[g][:1]
            for k in keys:
                kw[k] = case["td"]
            expect["td"] = case["td"]
        else:
            kw["mass_frac_PU02"] = case["pu"]
            expect["pu"] = case["pu"]
    if mix is not None:
        feeds = {}
        for nm, ws in (("A", mix["a"]), ("B", mix["b"])):
            tot = math.fsum(ws)
            feeds[nm] = {n: w / tot for n, w in zip(_MIX_NUCS, ws)}
        kw.update({"class1_wt_frac": mix["w"], "class1_custom_isotopics": "A", "class2_custom_isotopics": "B", "customIsotopics": feeds})
        expect["mix"] = (mix["w"], feeds)
    elif takes_kw or "customIsotopics" in own:
        kw["customIsotopics"] = {}  # blueprints always pass it
    return kw, expect


def ip_execute(case):
    from armi.nucDirectory import nuclideBases as nb

    out = Out()
    n = 0
    for name, cls in _ip_classes():
        if case.get("only") is not None and name != case["only"]:
            continue
        kw, expect = _ip_kwargs(cls, case)
        m = cls()
        where = "%s().applyInputParams(%s)" % (name, ", ".join("%s=%r" % kv for kv in sorted(kw.items())))
        try:
            m.applyInputParams(**kw)
        except KeyError as exc:
            if name == "MOX" and "mass_frac_PU02" in kw and exc.args == ("PU",):
                _known_or_fail(out, case, "input-params/mox-mass_frac_PU02-raises-KeyError",
                               "%s raises KeyError('PU'): setMassFracPuO2 calls nucDir.getNuclideNames('PU'), i.e. nucName='PU'" % where)
                continue
            raise
        except ValueError as exc:
            if name == "ThU" and "U233_wt_frac" in kw and "no other isotopes" in str(exc):
                _known_or_fail(out, case, "input-params/thu-U233_wt_frac-always-refused",
                               "%s raises ValueError: U233 is the only uranium nuclide of ThU, so adjustMassEnrichment refuses (%s)" % (where, str(exc)[:120]))
                continue
            raise
        except AttributeError as exc:
            if name == "UThZr" and m.parent is None and "NoneType" in str(exc):
                _known_or_fail(out, case, "input-params/uthzr-needs-parent-component",
                               "%s raises AttributeError: it calls self.parent.adjustMassEnrichment but blueprints apply input "
                               "parameters before the material has a parent (%s)" % (where, exc))
                continue
            raise
        n += 1
        out.label("class:" + name, "keys:" + "+".join(sorted(k for k in kw if k != "customIsotopics")) if len(kw) > 1 or "customIsotopics" not in kw else "keys:none")
        mf = m.massFrac
        out.check(all(k in nb.byName for k in mf), "input-params/unknown-nuclide", lambda: "%s: keys %s" % (where, sorted(mf)))
        out.check(all(_isreal(v) and -1e-12 <= v <= 1.0 + 1e-12 for v in mf.values()), "input-params/massfrac-outside-0-1",
                  lambda: "%s: %s" % (where, dict(sorted(mf.items()))))
        total = math.fsum(float(v) for v in mf.values() if _isreal(v))
        if abs(total - 1.0) > MASSFRAC_TOL:
            if name == "Sulfur" and abs(total - 1.0018) < 1e-5:
                _known_or_fail(out, case, "materials/massfrac-sum/sulfur-s36", "%s: sum %.6f" % (where, total))
            else:
                out.fail("input-params/massfrac-sum", "%s: mass fractions sum to %.8f: %s" % (where, total, {k: round(float(v), 8) for k, v in sorted(mf.items())}))
        if "mix" in expect:
            w, feeds = expect["mix"]
            hm = math.fsum(v for k, v in mf.items() if nb.byName[k].isHeavyMetal())
            for nuc in _MIX_NUCS:
                want = w * feeds["A"][nuc] + (1.0 - w) * feeds["B"][nuc]
                got = mf.get(nuc, 0.0) / hm if hm else float("nan")
                out.check(abs(got - want) <= 1e-9, "input-params/class-mix-not-applied",
                          lambda: "%s: %s is %.10f of the heavy metal, expected %.10f" % (where, nuc, got, want))
        elif "enrich" in expect and "pu" not in expect:
            nuc, x = expect["enrich"]
            z = nb.byName[nuc].z
            elem = math.fsum(v for k, v in mf.items() if nb.byName[k].z == z)
            got = mf.get(nuc, 0.0) / elem if elem else float("nan")
            out.check(abs(got - x) <= 1e-9, "input-params/enrichment-not-applied",
                      lambda: "%s: %s is %.10f of its element, requested %.10f" % (where, nuc, got, x))
        if "pu" in expect and "mix" not in expect:
            got = m.getMassFracPuO2()
            out.check(_isreal(got) and abs(got - expect["pu"]) <= 1e-9, "input-params/puo2-fraction-not-applied",
                      lambda: "%s: getMassFracPuO2() = %r" % (where, got))
        if "zr" in expect:
            out.check(abs(mf.get("ZR", 0.0) - expect["zr"]) <= 1e-12, "input-params/zr-fraction-not-applied",
                      lambda: "%s: ZR mass fraction %r" % (where, mf.get("ZR")))
        if "td" in expect:
            got = m.fullDensFrac if name == "Sulfur" else m.getTD()
            out.check(got == expect["td"], "input-params/td-not-applied", lambda: "%s: theoretical density fraction reads %r" % (where, got))
        if name == "B4C":
            boron = mf.get("B10", 0.0) / nb.byName["B10"].weight + mf.get("B11", 0.0) / nb.byName["B11"].weight
            carbon = mf.get("C", 0.0) / nb.byName["C"].weight
            out.check(carbon > 0 and abs(boron / carbon - 4.0) <= 1e-9, "input-params/b4c-boron-carbon-ratio",
                      lambda: "%s: B:C atom ratio %r (B4C: 4 moles of boron per mole of carbon)" % (where, boron / carbon if carbon else None))
        # density finite and positive at a temperature inside the stated range
        probe = _Probe(cls)
        dom = _function_domain(probe, "density")
        t, units = (_NOMINAL if not isinstance(dom, tuple) or dom[0] > dom[1] else (0.5 * (dom[0] + dom[1]), dom[2]))
        tkw = {"Tk": t} if units == "K" else {"Tc": t}
        for fn in ("density", "pseudoDensity"):
            val = getattr(m, fn)(**tkw)
            if _isreal(val) and val == 0.0 and m.refDens == 0.0 and name in _REFDENS_UNSET:
                _known_or_fail(out, case, "materials/density-zero/refDens-unset/" + name, "%s then %s(%s) = 0.0" % (where, fn, tkw))
            else:
                out.check(_isreal(val) and val > 0.0, "input-params/density-not-positive", lambda: "%s then %s(%s) = %r" % (where, fn, tkw, val))
    out.evals = max(n, 1)
    out.nontrivial = n > 0
    out.label("mix" if case["mix"] else "no-mix")
    return out


PARTS = [
    Part("nuclides", nuc_execute, enumerate=nuc_enum, exhaustive=True, procs={"quick": 3, "thorough": 8},
         rule="every nuclide of the directory, one case per atomic number (plus a catch-all for Z outside 1..120): each identifier "
              "(name, label, DB name, MC2-2, MC2-3 VII.0/VII.1/default, MCNP, AAAZZZS) looked up in its table returns that very object; "
              "name/label/MCNP/AAAZZZS decode to (Z, A, state) incl. the Am-242 exception; element membership both ways; natural "
              "abundances sum to 1 or none; non-trivial = every (nuclide, identifier) row",
         bound=lambda t: "all nuclides in nuclideBases.instances, Z 1..%d" % _Z_MAX),
    Part("tables", table_execute, enumerate=table_enum, exhaustive=True, procs={"quick": 3, "thorough": 8},
         rule="every key of every identifier table (one case per table): the value is a directory nuclide whose own identifier is the key "
              "(documented aliases only), no identifier owned by two nuclides, key set = identifiers present; (Z, A, state) unique; "
              "nuclides.dat and mcc-nuclides.yaml re-read by the harness and compared row by row; non-trivial = every row",
         bound=lambda t: "9 identifier tables, instances, nuclides.dat, mcc-nuclides.yaml"),
    Part("burn_chain", burn_execute, enumerate=burn_enum, exhaustive=True, procs={"quick": 1, "thorough": 4},
         rule="every transmutation and decay of every nuclide carrying burn data (default burn-chain.yaml): products and particles are "
              "directory nuclides, branch in [0,1], non-fission transmutation branches sum to 1 per type, decay constant = ln2/T*branch; "
              "file entries all applied; non-trivial = every entry",
         bound=lambda t: "all entries of the shipped burn-chain.yaml"),
    Part("materials", mat_execute, enumerate=mat_enum, exhaustive=True, procs={"quick": 4, "thorough": 16},
         rule="every Material class in the armi.materials namespace (one case per class): instantiates; mass-fraction keys are nuclide "
              "names, fractions in [0,1] summing to 1 (1e-5); density, pseudoDensity (> 0, finite), linearExpansionPercent, "
              "linearExpansion (finite) on a dense grid incl. both end points of the function's stated range and at every breakpoint "
              "candidate (numeric literals in comparisons and class-level table knots, read as K and C, with both float neighbours, "
              "Tk and Tc call forms), Tk and Tc entry agree, "
              "fluid density = pseudoDensity, the material's own range check accepts the stated range; non-trivial = every evaluation",
         bound=lambda t: "all classes; %d temperatures per stated range" % _GRID[t]),
    Part("material_temps", temps_execute, strategy=temps_strategy, budget={"quick": 2000, "thorough": 60000}, procs={"quick": 4, "thorough": 16},
         rule="Hypothesis draws 1-6 relative positions inside a range (exact end points, 1e-6 neighbourhoods of both ends, uniform "
              "interior) and the unit of entry; each case applies them to every material property function that has a stated range "
              "(about 90 material x function pairs); same oracle as the enumeration; non-trivial = at least one evaluation"),
    Part("relabel", relabel_execute, strategy=relabel_strategy, budget={"quick": 300, "thorough": 6000}, procs={"quick": 2, "thorough": 8},
         rule="Hypothesis histories of 1-8 re-labellings (nuclideBases.changeLabel directly, through XSNuclide.updateBaseNuclide, back to "
              "the original, same label) of named and arbitrary nuclides with fresh labels; after every step: the nuclide carries the "
              "new label, byLabel[label] is that nuclide for every nuclide of the directory, no label owned by two nuclides, the old "
              "label does not resolve to another nuclide; original labels restored (checked) and the table reset per case; "
              "non-trivial = at least one re-labelling applied"),
    Part("duplicate", dup_execute, strategy=dup_strategy, budget={"quick": 120, "thorough": 4000}, procs={"quick": 2, "thorough": 8},
         rule="every Material class in every case: duplicate() of the fresh instance, of an instance whose composition was re-specified "
              "(clearMassFrac + setMassFrac of a Hypothesis-drawn normalised composition over 1-8 directory nuclides) and of an instance "
              "with adjusted enrichment; the copy has the same class, the same nuclides and fractions (all known nuclides), refDens/TD, "
              "density and pseudoDensity at a temperature in the stated range, and changing the copy leaves the original unchanged; "
              "non-trivial = drawn composition has >= 2 nuclides"),
    Part("input_params", ip_execute, strategy=ip_strategy, budget={"quick": 300, "thorough": 10000}, procs={"quick": 2, "thorough": 8},
         rule="every Material class that overrides applyInputParams, in every case: fresh instance, applyInputParams called the way "
              "blueprints do (no parent, customIsotopics passed) with Hypothesis-drawn legal values of its documented keywords singly "
              "and in combination (enrichment keys incl. the deprecated twin, ZR_wt_frac, TD keys, mass_frac_PU02, class1/class2 feeds); "
              "then: known nuclides, fractions in [0,1] summing to 1 (1e-5), requested enrichment / Zr / PuO2 fraction / TD / class mix read "
              "back, B4C keeps B:C = 4, density and pseudoDensity finite positive in range; non-trivial = at least one class applied"),
]
