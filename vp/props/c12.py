"""C12 - axial expansion preserves assembly height, mesh contiguity and component mass.

Histories of prescribed / thermal axial expansions (each optionally followed by its inverse) are applied to
generated pin-type assemblies; after EVERY application the invariants of the statement are checked against the
pre-step observation and a small reference model (``vp/gen/c12_asm.py`` gives the model's view of the assembly:
solid components, radial extents, expected target components and the expected axial linkage).
"""
import statistics

from hypothesis import strategies as st

from vp.gen import c12_asm as gen
from vp.runner import Out, Part

PROPERTY = "C12"
LEVEL = "exploration"

SIG_KNOWN = "c12/target-mass/target-stacked-on-nontarget-link-with-different-growth"
# Known finding (DESIGN section 6 item 9): axiallyExpandAssembly re-stacks a target component on the linked
# component below it instead of on the block below.  When a component in that linked column is not its own block's
# target and grows differently from that target, the upper block's new height is not growth x old height and the
# upper target's mass changes.  The main search avoids the shape by construction (growth factors of such column
# members are set to their block target's factor; thermal steps that would produce it are skipped) and counts the
# avoided draws with the label ``excluded:<signature>``; part ``known_shape`` keeps generating it.
EXCLUDE_KNOWN = {SIG_KNOWN: True}

ASSUMPTIONS = [
    "elevations are compared with an absolute tolerance of 1e-10 x assembly height; masses, number densities and "
    "growth factors with a relative tolerance of 1e-10 (the code multiplies/divides by the growth factor, the oracle "
    "re-associates those products)",
    "the pre-step state observed on the armi objects (block heights, component masses, number densities, "
    "temperatures) is the baseline of each step; the invariants are step-local and the inverse check compares with "
    "the snapshot taken before the forward change",
    "thermal growth factors of the model use armi's material.linearExpansionPercent as a trusted function "
    "(g = (1+p(Tnew)/100)/(1+p(Told)/100)); Component.setTemperature's 2-D density/area update is trusted to "
    "conserve mass radially",
    "the expected target component and the expected axial linkage come from the generator's own description of the "
    "assembly (documented rules: explicit blueprint option, clad for plenum/aclp, fuel/control/shield flag, sole "
    "flag match; same shape, same multiplicity, overlapping bounding diameters)",
    "temperature grid points lie strictly inside blocks (at least one per block), so the documented block-average "
    "does not depend on how points exactly on a block boundary are attributed",
    "the dummy block is tall enough for the whole history (histories are cut before a step the model predicts to "
    "exhaust it); liners and unshaped components are outside the domain (armi documents them as unsupported)",
    "part core_mesh drives AxialExpansionChanger.manageCoreMesh with a minimal stand-in for r.core (refAssem, "
    "getAssemblies, updateAxialMesh, p.axialMesh) around real assemblies; its mass clauses are the documented rules of "
    "Assembly.setBlockMesh(conserveMassFlag='auto')",
    "linkage rules other than the stock one are installed through the documented override hook "
    "AssemblyAxialLinkage.areAxiallyLinked from a changer subclass; the reference model applies the same rule; rules that "
    "would be ambiguous on an assembly (documented RuntimeError) fall back to the stock rule",
    "the known-finding shape is recognised only when the model derives a non-zero offset of the target's lower link "
    "from the step's growth factors AND the observed mass ratio equals the model's column-stacking prediction to "
    "1e-9; any other target-mass change is reported under c12/target-mass/not-conserved",
]

REL = 1e-10
MAX_STEPS = 6
SUBSET_FALLBACK = "clad"


# --------------------------------------------------------------------------------------------
# strategies

_growth = st.one_of(st.sampled_from([0.9, 0.95, 1.0, 1.05, 1.1]), st.floats(0.9, 1.1, allow_nan=False))
# special temperatures are over-weighted: exactly 0.0 degC (a falsy float), the ends of the materials' validity windows
# (Zr 293 K, InconelX750 21.1 C, B4C 25..500 C; outside them armi only warns), and repeated values
_temp = st.one_of(st.sampled_from(gen.SPECIAL_TEMPS), st.floats(0.0, 600.0).map(lambda x: round(x, 1)))
_point = st.tuples(st.floats(0.05, 0.95), _temp).map(list)


def _step(kinds, modes):
    return st.fixed_dictionaries(
        {
            "kind": st.sampled_from(kinds),
            "mode": st.sampled_from(modes),
            "g": st.lists(_growth, min_size=1, max_size=14),
            "subset": st.integers(0, 5),
            "pts": st.lists(_point, min_size=1, max_size=8),
            # isothermal field at a special temperature (None = use the points' temperatures)
            "iso": st.sampled_from([None, None, None, 0.0, 0.0] + gen.SPECIAL_TEMPS),
            # step-wise interface: per solid component [hold the current temperature?, new temperature]
            "sw": st.lists(st.tuples(st.sampled_from([False, False, False, True, True]), _temp).map(list), min_size=1, max_size=10),
            "inverse": st.booleans(),
            "setFuel": st.booleans(),
            "fresh": st.booleans(),
            # before the change: swap the k-th pair of same-kind blocks the way fuel handling does (None = no swap)
            "swap": st.sampled_from([None, None, None, 0, 1, 2, 3, 5, 8]),
            # when the column-stacking model predicts a negative block height for the drawn growth, apply it anyway
            # and expect armi's refusal (ArithmeticError)
            "probe": st.sampled_from([False, False, True]),
            # thermal field steps: performThermalAxialExpansion(..., expandFromTinputToThot=...)
            "fromTinput": st.sampled_from([False, False, False, True]),
            # before the change: re-determine the target of a block through ExpansionData.determineTargetComponent
            "retarget": st.one_of(st.none(), st.none(), st.none(), st.tuples(st.integers(0, 10), st.integers(0, 5)).map(list)),
        }
    )


def main_strategy(tier):
    step = _step(["prescribed", "prescribed", "prescribed", "thermal", "stepwise", "stepwise"], ["component", "component", "block", "all", "subset"])
    return st.fixed_dictionaries(
        {
            "asm": gen.asm_spec(),
            # linkage rule installed through the override hook of AssemblyAxialLinkage (None = stock class)
            "hook": st.sampled_from([None, None, None, None, "name", "never", "ignore-mult"]),
            "detailed": st.booleans(),
            "steps": st.lists(step, min_size=1, max_size=MAX_STEPS),
        }
    )


def known_strategy(tier):
    step = _step(["prescribed", "prescribed", "thermal", "stepwise"], ["component", "subset", "subset"])
    return st.fixed_dictionaries(
        {
            "asm": gen.asm_spec(force_plenum=True, auto_targets_only=True),
            "detailed": st.booleans(),
            "steps": st.lists(step, min_size=1, max_size=3),
        }
    )


# --------------------------------------------------------------------------------------------
# reference model of one change


class Model:
    """The generator's description of the assembly plus per-step predictions."""

    def __init__(self, blocks, rule="stock"):
        self.blocks = blocks
        self.rule = rule
        self.nb = len(blocks) - 1  # blocks below the dummy
        self.links = gen.model_links(blocks, rule)
        self.solids = [[c["name"] for c in b["comps"] if c["solid"]] for b in blocks]
        self.targets = [b["target"] for b in blocks]

    def chain_below(self, i, name):
        """Members (j, name) of the linked column below component ``name`` of block ``i``."""
        res = []
        j, n = i, name
        while j > 0:
            n = self.links[(j, n)]
            if n is None:
                break
            j -= 1
            res.append((j, n))
        return res

    def repair(self, g):
        """Make the growth map free of the known shape; returns True when something was changed."""
        changed = False
        for i in range(1, self.nb):
            for (j, n) in self.chain_below(i, self.targets[i]):
                want = g[(j, self.targets[j])]
                if g[(j, n)] != want:
                    g[(j, n)] = want
                    changed = True
        return changed

    def predict(self, g, heights):
        """Column-stacking prediction: (new heights below the dummy, offset of each target's lower link)."""
        d = {}
        newh, dev = [], []
        for i in range(self.nb):
            h = heights[i]
            t = self.targets[i]
            lowt = self.links[(i, t)] if i > 0 else None
            dv = d[(i - 1, lowt)] if lowt else 0.0
            nh = dv + g[(i, t)] * h
            for n in self.solids[i]:
                low = self.links[(i, n)] if i > 0 else None
                base = d[(i - 1, low)] if low else 0.0
                d[(i, n)] = base + g[(i, n)] * h - nh
            newh.append(nh)
            dev.append(dv)
        return newh, dev


# --------------------------------------------------------------------------------------------
# observation helpers


def _snapshot(a):
    snap = {"z": [], "comp": {}}
    for i, b in enumerate(a):
        snap["z"].append((float(b.p.zbottom), float(b.p.ztop), float(b.p.height)))
        for c in b:
            snap["comp"][(i, c.name)] = {
                "mass": float(c.getMass()),
                "nd": {k: float(v) for k, v in c.getNumberDensities().items()},
                "T": float(c.temperatureInC),
            }
    return snap


def _rel_close(x, y, rel=REL):
    return abs(x - y) <= rel * max(abs(x), abs(y))


def _nd_scaled(new, old, factor, rel=REL):
    """new == old * factor for every nuclide."""
    if set(new) != set(old):
        return False
    return all(_rel_close(new[k], old[k] * factor, rel) for k in old)


# --------------------------------------------------------------------------------------------
# a project linkage rule installed through the documented override hook

_HOOKED = {}


def _hooked_changer(rule):
    """AxialExpansionChanger subclass whose linkage class overrides AssemblyAxialLinkage.areAxiallyLinked
    ("provided to allow subclasses the ability to override the linkage check") with the generated ``rule``."""
    if rule in _HOOKED:
        return _HOOKED[rule]
    from armi.materials import material
    from armi.reactor.components import UnshapedComponent
    from armi.reactor.converters.axialExpansionChanger import AxialExpansionChanger
    from armi.reactor.converters.axialExpansionChanger.assemblyAxialLinkage import AssemblyAxialLinkage

    def solid(c):
        return not isinstance(c.material, material.Fluid)

    def by_name(a, b):
        return solid(a) and solid(b) and a.name == b.name

    def never(a, b):
        return False

    def ignore_mult(a, b):
        if not (solid(a) and solid(b)) or type(a) is not type(b) or isinstance(a, UnshapedComponent):
            return False
        inner = max(a.getCircleInnerDiameter(cold=True), b.getCircleInnerDiameter(cold=True))
        outer = min(a.getBoundingCircleOuterDiameter(cold=True), b.getBoundingCircleOuterDiameter(cold=True))
        return inner < outer

    fn = {"name": by_name, "never": never, "ignore-mult": ignore_mult}[rule]

    class ProjectLinkage(AssemblyAxialLinkage):
        @staticmethod
        def areAxiallyLinked(componentA, componentB):
            return fn(componentA, componentB)

    class ProjectChanger(AxialExpansionChanger):
        def setAssembly(self, a, setFuel=True, expandFromTinputToThot=False):
            super().setAssembly(a, setFuel, expandFromTinputToThot)
            self.linked = ProjectLinkage(a)

    _HOOKED[rule] = ProjectChanger
    return ProjectChanger


# --------------------------------------------------------------------------------------------
# the interpreter


class Run:
    def __init__(self, case, exclude):
        from armi.reactor.converters.axialExpansionChanger import AxialExpansionChanger

        self.out = Out()
        self.case = case
        self.exclude = exclude
        self.blocks = gen.layout(case["asm"])
        self.rule = case.get("hook") or "stock"
        if self.rule != "stock" and gen.ambiguous(self.blocks, self.rule):
            self.rule = "stock"  # the generated rule would be ambiguous on this assembly (documented RuntimeError)
        self.model = Model(self.blocks, self.rule)
        self.a = gen.build(case["asm"], self.blocks)
        self.Changer = AxialExpansionChanger if self.rule == "stock" else _hooked_changer(self.rule)
        self.changer = self.Changer(detailedAxialExpansion=case["detailed"])
        self.L0 = float(self.a.getTotalHeight())
        self.tol = 1e-10 * self.L0
        self.applied = 0
        self.diff_growth = False
        self.shape_hits = 0
        self.swaps = 0
        self.sw = None  # persistent changer of the step-wise thermal interface

    # ---- components ------------------------------------------------------------------------
    def comp(self, i, name):
        return self.a[i].getComponentByName(name)

    def heights(self):
        return [float(b.getHeight()) for b in self.a]

    # ---- growth maps -----------------------------------------------------------------------
    def prescribed_growth(self, step):
        m = self.model
        gl = step["g"]
        n = len(gl)
        names = sorted({x for s in m.solids[: m.nb] for x in s})
        subset = names[step["subset"] % len(names)]
        listed = {}
        for i in range(m.nb):
            for k, name in enumerate(m.solids[i]):
                if step["mode"] == "component":
                    listed[(i, name)] = gl[(i * 6 + k) % n]
                elif step["mode"] == "block":
                    listed[(i, name)] = gl[i % n]
                elif step["mode"] == "all":
                    listed[(i, name)] = gl[0]
                elif name == subset:
                    listed[(i, name)] = gl[i % n]
        return listed

    def effective(self, listed):
        m = self.model
        return {(i, n): listed.get((i, n), 1.0) for i in range(m.nb) for n in m.solids[i]}

    def thermal_plan(self, step):
        """(tempGrid, tempField, new block temperatures) from the step's points and the current mesh."""
        pts = step["pts"]
        if step.get("iso") is not None:
            pts = [[f, step["iso"]] for f, _T in pts]
        L = len(pts)
        grid, field, temps = [], [], []
        for i, b in enumerate(self.a):
            zb, zt = float(b.p.zbottom), float(b.p.ztop)
            mine = [pts[(2 * i) % L], pts[(2 * i + 1) % L]]
            mine = sorted((zb + f * (zt - zb), T) for f, T in mine)
            mine = [(z, T) for z, T in mine if zb < z < zt]
            if not mine:  # degenerate rounding for an extremely thin block: one point at the centre
                mine = [(0.5 * (zb + zt), pts[(2 * i) % L][1])]
            grid.extend(z for z, _ in mine)
            field.extend(T for _, T in mine)
            temps.append(statistics.mean(T for _, T in mine))
        return grid, field, temps

    def thermal_growth(self, temps, from_tinput=False):
        """(1+p(Tnew))/(1+p(Told)); with expandFromTinputToThot the documented reference is c.inputTemperatureInC."""
        m = self.model
        g = {}
        for i in range(m.nb):
            for name in m.solids[i]:
                c = self.comp(i, name)
                p0 = c.material.linearExpansionPercent(Tc=float(c.inputTemperatureInC if from_tinput else c.temperatureInC))
                p1 = c.material.linearExpansionPercent(Tc=temps[i])
                g[(i, name)] = (1.0 + float(p1) / 100.0) / (1.0 + float(p0) / 100.0)
        return g

    def stepwise_plan(self, step):
        """Per-solid-component new temperatures for the step-wise interface; 'hold' re-assigns the current one."""
        m = self.model
        sw = step.get("sw") or [[False, 300.0]]
        n = len(sw)
        tmap = {}
        for i in range(m.nb):
            for k, name in enumerate(m.solids[i]):
                hold, T = sw[(i * 6 + k) % n]
                tmap[(i, name)] = float(self.comp(i, name).temperatureInC) if hold else float(T)
        return tmap

    def map_growth(self, tmap):
        g = {}
        for (i, name), T in tmap.items():
            c = self.comp(i, name)
            p0 = c.material.linearExpansionPercent(Tc=float(c.temperatureInC))
            p1 = c.material.linearExpansionPercent(Tc=T)
            g[(i, name)] = (1.0 + float(p1) / 100.0) / (1.0 + float(p0) / 100.0)
        return g

    def apply_stepwise(self, step, tmap, g, tag):
        """setAssembly once, then per step updateComponentTemp for every solid + computeThermalExpansionFactors +
        axiallyExpandAssembly (the sequence of armi's complexConservationTest) on ONE persistent changer."""
        if self.sw is None or step["fresh"]:
            self.sw = self.Changer(detailedAxialExpansion=self.case["detailed"])
            self.sw.setAssembly(self.a, setFuel=step["setFuel"])
            self.out.label("stepwise:setAssembly")
        else:
            self.out.label("stepwise:persistent")
        pre = _snapshot(self.a)
        ch = self.sw
        for (i, name) in sorted(tmap):
            ch.expansionData.updateComponentTemp(self.comp(i, name), tmap[(i, name)])
        ch.expansionData.computeThermalExpansionFactors()
        ch.axiallyExpandAssembly()
        self.applied += 1
        self.judge(pre, g, ch, "stepwise", tag, tmap)
        return pre

    def stepwise_repair(self, tmap):
        """Avoid the known shape: a member of a target's linked column with the same material and current temperature
        as its block's target gets that target's new temperature (identical growth)."""
        m = self.model
        changed = False
        for i in range(1, m.nb):
            for (j, n) in m.chain_below(i, m.targets[i]):
                t = m.targets[j]
                c, ct = self.comp(j, n), self.comp(j, t)
                if n != t and type(c.material) is type(ct.material) and float(c.temperatureInC) == float(ct.temperatureInC) \
                        and tmap[(j, n)] != tmap[(j, t)]:
                    tmap[(j, n)] = tmap[(j, t)]
                    changed = True
        return changed

    # ---- applying --------------------------------------------------------------------------
    def feasible(self, g):
        newh, dev = self.model.predict(g, self.heights())
        dummy = self.L0 - sum(newh)
        ok = all(h > 1e-6 * self.L0 for h in newh) and dummy > 1e-6 * self.L0
        return ok, dev

    def get_changer(self, step):
        if step["fresh"]:
            self.changer = self.Changer(detailedAxialExpansion=self.case["detailed"])
        return self.changer

    def apply_prescribed(self, step, listed, tag):
        comps = [self.comp(i, n) for (i, n) in sorted(listed)]
        fracs = [listed[k] for k in sorted(listed)]
        pre = _snapshot(self.a)
        ch = self.get_changer(step)
        ch.performPrescribedAxialExpansion(self.a, comps, fracs, setFuel=step["setFuel"])
        self.applied += 1
        self.judge(pre, self.effective(listed), ch, "prescribed", tag, None)
        return pre

    def apply_thermal(self, step, grid, field, temps, g, tag, from_tinput=False):
        pre = _snapshot(self.a)
        ch = self.get_changer(step)
        if from_tinput:
            ch.performThermalAxialExpansion(self.a, grid, field, setFuel=step["setFuel"], expandFromTinputToThot=True)
        else:
            ch.performThermalAxialExpansion(self.a, grid, field, setFuel=step["setFuel"])
        self.applied += 1
        self.judge(pre, g, ch, "thermal", tag, temps)
        return pre

    # ---- the oracle ------------------------------------------------------------------------
    def judge(self, pre, g, ch, kind, tag, temps):
        out, a, m, tol = self.out, self.a, self.model, self.tol
        nb = m.nb
        h_old = [z[2] for z in pre["z"]]
        tg = [g[(i, m.targets[i])] for i in range(nb)]
        if len({round(x, 15) for x in tg}) > 1:
            self.diff_growth = True
        _newh, dev = m.predict(g, h_old)
        where = "step %d (%s %s)" % (self.applied, kind, tag)

        # 1. total height
        total = float(a.getTotalHeight())
        out.check(abs(total - self.L0) <= tol and abs(float(a[-1].p.ztop) - self.L0) <= tol, "c12/height/total-changed",
                  lambda: "%s: total height %r, top %r, expected %r" % (where, total, float(a[-1].p.ztop), self.L0))
        # 2. contiguity and positivity
        prev_top = 0.0
        for i, b in enumerate(a):
            zb, zt, h = float(b.p.zbottom), float(b.p.ztop), float(b.p.height)
            out.check(abs(zb - prev_top) <= tol, "c12/mesh/not-contiguous",
                      lambda: "%s: block %d zbottom %r, top of the block below %r" % (where, i, zb, prev_top))
            out.check(h > 0.0 and abs(h - (zt - zb)) <= tol and abs(float(b.getHeight()) - h) <= tol, "c12/mesh/height-inconsistent",
                      lambda: "%s: block %d height %r zbottom %r ztop %r" % (where, i, h, zb, zt))
            out.check(abs(float(b.p.z) - 0.5 * (zb + zt)) <= tol, "c12/mesh/block-centre",
                      lambda: "%s: block %d p.z %r, centre %r" % (where, i, float(b.p.z), 0.5 * (zb + zt)))
            prev_top = zt
        # 3. grid bounds
        bounds = [float(x) for x in a.spatialGrid._bounds[2]]
        want = [0.0] + [float(b.p.ztop) for b in a]
        out.check(len(bounds) == len(want) and all(abs(x - y) <= tol for x, y in zip(bounds, want)), "c12/mesh/grid-bounds",
                  lambda: "%s: grid bounds %s, block tops %s" % (where, bounds, want))
        mesh = [float(x) for x in a.getAxialMesh()]
        out.check(len(mesh) == len(want) - 1 and all(abs(x - y) <= tol for x, y in zip(mesh, want[1:])), "c12/mesh/axial-mesh",
                  lambda: "%s: getAxialMesh %s, block tops %s" % (where, mesh, want[1:]))
        for i, b in enumerate(a):
            base = float(b.spatialLocator.getGlobalCellBase()[2])
            top = float(b.spatialLocator.getGlobalCellTop()[2])
            out.check(abs(base - float(b.p.zbottom)) <= tol and abs(top - float(b.p.ztop)) <= tol, "c12/mesh/locator-cell",
                      lambda: "%s: block %d locator cell [%r, %r] vs block [%r, %r]" % (where, i, base, top, float(b.p.zbottom), float(b.p.ztop)))
        # 4. designated targets, block boundary moves with the target
        for i in range(nb):
            b = a[i]
            got = b.p.axialExpTargetComponent or None
            if not out.check(got == m.targets[i], "c12/target/designation",
                             lambda: "%s: block %d (%s) target %r, expected %r" % (where, i, self.blocks[i]["kind"], got, m.targets[i])):
                continue
            t = self.comp(i, m.targets[i])
            out.check(ch.expansionData.isTargetComponent(t), "c12/target/not-registered",
                      lambda: "%s: block %d target %s not registered in ExpansionData" % (where, i, t.name))
            out.check(abs(float(t.ztop) - float(b.p.ztop)) <= tol, "c12/target/block-top-not-on-target",
                      lambda: "%s: block %d ztop %r, target %s ztop %r" % (where, i, float(b.p.ztop), t.name, float(t.ztop)))
        # 5. linkage and stacking, component heights
        for i in range(nb):
            for name in m.solids[i]:
                c = self.comp(i, name)
                link = ch.linked.linkedComponents.get(c)
                low = link.lower if link is not None else None
                lowname = low.name if low is not None else None
                if not out.check(lowname == m.links[(i, name)] and (low is None or low.parent is a[i - 1]), "c12/linkage/lower-link",
                                 lambda: "%s: block %d component %s linked below to %r, model says %r" % (where, i, name, lowname, m.links[(i, name)])):
                    continue
                if low is not None:
                    out.check(abs(float(c.zbottom) - float(low.ztop)) <= tol, "c12/linkage/not-stacked",
                              lambda: "%s: block %d %s zbottom %r, linked %s ztop %r" % (where, i, name, float(c.zbottom), low.name, float(low.ztop)))
                want_h = g[(i, name)] * h_old[i]
                out.check(abs(float(c.height) - want_h) <= tol and abs((float(c.ztop) - float(c.zbottom)) - want_h) <= tol,
                          "c12/component/height-not-growth-times-old",
                          lambda: "%s: block %d %s height %r (ztop-zbottom %r), growth %r x old block height %r = %r"
                          % (where, i, name, float(c.height), float(c.ztop) - float(c.zbottom), g[(i, name)], h_old[i], want_h))
        # 6. thermal bookkeeping
        if kind in ("thermal", "stepwise"):
            for i, b in enumerate(a):
                for c in b:
                    if kind == "thermal":
                        want_T = temps[i]
                    else:  # step-wise interface: assigned solids get their temperature, everything else keeps its own
                        want_T = temps.get((i, c.name), pre["comp"][(i, c.name)]["T"])
                    out.check(abs(float(c.temperatureInC) - want_T) <= 1e-9 * max(1.0, abs(want_T)), "c12/thermal/component-temperature",
                              lambda: "%s: block %d %s at %r C, assigned / block average of the field %r" % (where, i, c.name, float(c.temperatureInC), want_T))
            for i in range(nb):
                for name in m.solids[i]:
                    got = float(ch.expansionData.getExpansionFactor(self.comp(i, name)))
                    out.check(_rel_close(got, g[(i, name)], 1e-11), "c12/thermal/expansion-factor",
                              lambda: "%s: block %d %s factor %r, (1+p(Tnew))/(1+p(Tref)) = %r (Told %r Tnew %r)"
                              % (where, i, name, got, g[(i, name)], pre["comp"][(i, name)]["T"],
                                 temps[i] if kind == "thermal" else temps[(i, name)]))
        # 7. masses and densities
        for i in range(nb):
            tname = m.targets[i]
            if (a[i].p.axialExpTargetComponent or None) != tname:
                continue
            shape_here = False
            for name in m.solids[i]:
                c = self.comp(i, name)
                old = pre["comp"][(i, name)]
                mass = float(c.getMass())
                ratio = mass / old["mass"]
                uniform = all(g[(i, n2)] == g[(i, tname)] for n2 in m.solids[i])
                if name == tname:
                    if not _rel_close(mass, old["mass"]):
                        pred = (dev[i] + g[(i, tname)] * h_old[i]) / (g[(i, tname)] * h_old[i])
                        lowname = m.links[(i, tname)] if i > 0 else None
                        if dev[i] != 0.0 and lowname is not None and abs(ratio - pred) <= 1e-9 * abs(pred):
                            shape_here = True
                            self.shape_hits += 1
                            out.fail(SIG_KNOWN,
                                     "%s: block %d (%s) target %s mass x %.12g; it is stacked on linked component %s of block %d "
                                     "whose top is %.6g cm off that block's top (a member of the linked column is not its block's "
                                     "target and grew differently); new block height %.8g instead of growth %.6g x %.8g = %.8g"
                                     % (where, i, self.blocks[i]["kind"], tname, ratio, lowname, i - 1, dev[i], float(a[i].p.height),
                                        g[(i, tname)], h_old[i], g[(i, tname)] * h_old[i]))
                        else:
                            out.fail("c12/target-mass/not-conserved",
                                     "%s: block %d (%s) target %s mass %r -> %r (x %.12g); growth %r, block height %r -> %r; "
                                     "model offset of the lower link %r (column-stacking ratio %.12g)"
                                     % (where, i, self.blocks[i]["kind"], tname, old["mass"], mass, ratio, g[(i, tname)], h_old[i],
                                        float(a[i].p.height), dev[i], pred))
                    if kind == "prescribed":
                        out.check(_nd_scaled({k: float(v) for k, v in c.getNumberDensities().items()}, old["nd"], 1.0 / g[(i, name)]),
                                  "c12/density/target-not-scaled-by-inverse-growth",
                                  lambda: "%s: block %d target %s number densities not old / %r" % (where, i, name, g[(i, name)]))
                elif uniform and not shape_here and not (dev[i] != 0.0):
                    out.check(_rel_close(mass, old["mass"]), "c12/uniform-growth/solid-mass-not-conserved",
                              lambda: "%s: block %d all solids grew by %r but %s mass %r -> %r (x %.12g)"
                              % (where, i, g[(i, tname)], name, old["mass"], mass, ratio))
                    if kind == "prescribed":
                        out.check(_nd_scaled({k: float(v) for k, v in c.getNumberDensities().items()}, old["nd"], 1.0 / g[(i, name)]),
                                  "c12/uniform-growth/density-not-scaled-by-inverse-growth",
                                  lambda: "%s: block %d %s number densities not old / %r" % (where, i, name, g[(i, name)]))
        # 8. fluids keep their number densities in a prescribed change (only solids are expanded)
        if kind in ("prescribed", "stepwise"):
            for i, b in enumerate(a):
                for c in b:
                    if (i, c.name) in g:
                        continue
                    old = pre["comp"][(i, c.name)]
                    out.check(_nd_scaled({k: float(v) for k, v in c.getNumberDensities().items()}, old["nd"], 1.0, 1e-14),
                              "c12/density/fluid-changed", lambda: "%s: block %d fluid %s number densities changed" % (where, i, c.name))

    def judge_restore(self, before, kind):
        out, a, tol = self.out, self.a, self.tol
        where = "after step %d (inverse of the %s change)" % (self.applied, kind)
        for i, b in enumerate(a):
            zb, zt, h = before["z"][i]
            out.check(abs(float(b.p.zbottom) - zb) <= tol and abs(float(b.p.ztop) - zt) <= tol and abs(float(b.p.height) - h) <= tol,
                      "c12/inverse/heights-not-restored",
                      lambda: "%s: block %d [%r, %r] height %r, before [%r, %r] height %r"
                      % (where, i, float(b.p.zbottom), float(b.p.ztop), float(b.p.height), zb, zt, h))
            for c in b:
                old = before["comp"][(i, c.name)]
                solid = c.name in self.model.solids[i]
                if kind in ("thermal", "stepwise") and not solid:
                    continue
                out.check(_rel_close(float(c.getMass()), old["mass"]), "c12/inverse/mass-not-restored",
                          lambda: "%s: block %d %s mass %r, before %r" % (where, i, c.name, float(c.getMass()), old["mass"]))
                out.check(_nd_scaled({k: float(v) for k, v in c.getNumberDensities().items()}, old["nd"], 1.0),
                          "c12/inverse/density-not-restored", lambda: "%s: block %d %s number densities differ from before" % (where, i, c.name))

    # ---- block reordering between changes ----------------------------------------------------------
    def swap(self, k):
        """Swap the k-th pair of same-kind blocks below the dummy with Assembly.remove/insert, then
        reestablishBlockOrder + calculateZCoords (what fuel handling does); the model follows."""
        a, nb = self.a, self.model.nb
        pairs = [(i, j) for i in range(nb) for j in range(i + 1, nb) if self.blocks[i]["kind"] == self.blocks[j]["kind"]]
        if not pairs:
            return
        i, j = pairs[k % len(pairs)]
        bi, bj = a[i], a[j]
        a.remove(bj)
        a.remove(bi)
        a.insert(i, bj)
        a.insert(j, bi)
        a.reestablishBlockOrder()
        a.calculateZCoords()
        self.blocks[i], self.blocks[j] = self.blocks[j], self.blocks[i]
        self.model = Model(self.blocks, self.rule)
        self.sw = None  # the block order changed: a step-wise caller has to call setAssembly again
        if a[i] is not bj or a[j] is not bi or len(a) != nb + 1:
            raise AssertionError("C12 harness: block swap did not produce the intended order")
        self.out.label("swap:adjacent" if j == i + 1 else "swap:distant")
        self.swaps += 1

    # ---- re-determining a block's target on the fly ---------------------------------------------------
    def retarget(self, rt):
        """ExpansionData.determineTargetComponent(b, flag) is the public way to (re)determine a target; it documents
        that the result is also stored on the block for later retrieval."""
        out, m = self.out, self.model
        i = rt[0] % m.nb
        name = m.solids[i][rt[1] % len(m.solids[i])]
        comp = self.comp(i, name)
        ch = self.Changer(detailedAxialExpansion=self.case["detailed"])
        ch.setAssembly(self.a)
        got = ch.expansionData.determineTargetComponent(self.a[i], comp.p.flags)
        out.label("retarget:same" if name == m.targets[i] else "retarget:changed")
        out.check(got is comp and ch.expansionData.isTargetComponent(comp), "c12/target/redetermined-wrong-component",
                  lambda: "block %d: determineTargetComponent(%s) returned %r, expected %s" % (i, comp.p.flags, got, name))
        rec = self.a[i].p.axialExpTargetComponent or None
        out.check(rec == name, "c12/target/redetermined-not-recorded",
                  lambda: "block %d (%s): target re-determined to %r but the block records %r" % (i, self.blocks[i]["kind"], name, rec))
        self.blocks[i]["target"] = name
        m.targets[i] = name
        self.sw = None  # a step-wise caller has to call setAssembly again to pick the new designation up

    # ---- armi's refusal of a change that would give a block a negative height ------------------------
    def probe_refusal(self, step, listed, newh):
        out, a = self.out, self.a
        out.label("probe:negative-height-predicted")
        comps = [self.comp(i, n) for (i, n) in sorted(listed)]
        fracs = [listed[k] for k in sorted(listed)]
        ch = self.get_changer(step)
        try:
            ch.performPrescribedAxialExpansion(a, comps, fracs, setFuel=step["setFuel"])
        except ArithmeticError:
            # documented refusal (_checkBlockHeight); the assembly is left half-expanded, the history ends here
            out.label("probe:refused")
            out.rejected = True
            return
        self.applied += 1
        where = "step %d (prescribed %s, accepted although a negative height was predicted)" % (self.applied, step["mode"])
        bad = [(i, float(b.p.height)) for i, b in enumerate(a) if not float(b.p.height) > 0.0 or not float(b.getHeight()) > 0.0]
        if out.check(not bad, "c12/mesh/nonpositive-height-accepted",
                     lambda: "%s: blocks with non-positive height %s; heights now %s; model (column stacking) %s"
                     % (where, bad, [float(b.p.height) for b in a], newh)):
            out.fail("c12/refusal/predicted-negative-height-not-observed",
                     "%s: model heights %s, observed %s" % (where, newh, [float(b.p.height) for b in a]))

    # ---- one step of the history ---------------------------------------------------------------
    def step(self, step):
        out = self.out
        if step.get("swap") is not None:
            self.swap(step["swap"])
        if step.get("retarget") is not None:
            self.retarget(step["retarget"])
        m = self.model
        if step["kind"] == "prescribed":
            listed = self.prescribed_growth(step)
            if step.get("probe"):
                newh, _dev = m.predict(self.effective(listed), self.heights())
                newh = newh + [self.L0 - sum(newh)]
                if min(newh) < -1e-9 * self.L0:
                    self.probe_refusal(step, listed, newh)
                    return False
            if self.exclude:
                eff = self.effective(listed)
                if m.repair(eff):
                    out.label("excluded:" + SIG_KNOWN)
                    # every changed entry becomes a listed one
                    for k, v in eff.items():
                        if listed.get(k, 1.0) != v:
                            listed[k] = v
            eff = self.effective(listed)
            ok, dev = self.feasible(eff)
            if self.exclude and any(x != 0.0 for x in dev):
                raise AssertionError("C12 harness: repair left a known-shape offset %r" % (dev,))
            if not ok:
                out.label("cut:block-exhausted")
                return False
            shaped = any(x != 0.0 for x in dev)
            out.label("step:prescribed/" + step["mode"])
            before = self.apply_prescribed(step, listed, step["mode"])
            if step["inverse"]:
                inv = {k: 1.0 / v for k, v in listed.items()}
                ok2, dev2 = self.feasible(self.effective(inv))
                if ok2:
                    out.label("inverse:prescribed")
                    self.apply_prescribed(step, inv, "inverse")
                    if not shaped and not any(x != 0.0 for x in dev2):
                        self.judge_restore(before, "prescribed")
            return True
        if step["kind"] == "stepwise":
            tmap = self.stepwise_plan(step)
            if self.exclude and self.stepwise_repair(tmap):
                out.label("excluded:" + SIG_KNOWN)
            g = self.map_growth(tmap)
            ok, dev = self.feasible(g)
            shaped = any(x != 0.0 for x in dev)
            if shaped and self.exclude:
                out.label("excluded:" + SIG_KNOWN)
                out.label("skipped:stepwise-step")
                return True
            if not ok:
                out.label("cut:block-exhausted")
                return False
            prior = {k: float(self.comp(*k).temperatureInC) for k in tmap}
            out.label("step:stepwise")
            nheld = sum(1 for k in tmap if tmap[k] == prior[k])
            out.label("stepwise:all-held" if nheld == len(tmap) else "stepwise:some-held" if nheld else "stepwise:none-held")
            before = self.apply_stepwise(step, tmap, g, "temps")
            if step["inverse"]:
                g2 = self.map_growth(prior)
                ok2, dev2 = self.feasible(g2)
                if ok2:
                    out.label("inverse:stepwise")
                    self.apply_stepwise(dict(step, fresh=False), prior, g2, "inverse")
                    if not shaped and not any(x != 0.0 for x in dev2):
                        self.judge_restore(before, "stepwise")
            return True
        # thermal
        grid, field, temps = self.thermal_plan(step)
        from_tinput = bool(step.get("fromTinput"))
        g = self.thermal_growth(temps, from_tinput)
        ok, dev = self.feasible(g)
        shaped = any(x != 0.0 for x in dev)
        if shaped and self.exclude:
            out.label("excluded:" + SIG_KNOWN)
            out.label("skipped:thermal-step")
            return True
        if not ok:
            out.label("cut:block-exhausted")
            return False
        prior = [sorted({float(c.temperatureInC) for c in b}) for b in self.a]
        out.label("step:thermal")
        if step.get("iso") is not None:
            out.label("thermal:isothermal")
        if any(float(self.comp(i, n).temperatureInC) == 0.0 for i in range(m.nb) for n in m.solids[i]):
            out.label("thermal:from-0C")
        if any(T == 0.0 for T in temps):
            out.label("thermal:to-0C")
        if all(float(self.comp(i, n).temperatureInC) == temps[i] for i in range(m.nb) for n in m.solids[i]):
            out.label("thermal:no-change")
        if from_tinput:
            out.label("thermal:from-Tinput")
        before = self.apply_thermal(step, grid, field, temps, g, "field, from Tinput" if from_tinput else "field", from_tinput)
        # (a change referenced to Tinput has no inverse field: its factor does not depend on the previous state)
        if step["inverse"] and not from_tinput and all(len(p) == 1 for p in prior):
            # the field that puts every block back to its former (block-uniform) temperature
            grid2 = [0.5 * (float(b.p.zbottom) + float(b.p.ztop)) for b in self.a]
            field2 = [p[0] for p in prior]
            g2 = self.thermal_growth(field2)
            ok2, dev2 = self.feasible(g2)
            if ok2:
                out.label("inverse:thermal")
                self.apply_thermal(step, grid2, field2, field2, g2, "inverse")
                if not shaped and not any(x != 0.0 for x in dev2):
                    self.judge_restore(before, "thermal")
        return True


def _execute(case, exclude):
    try:
        run = Run(case, exclude)
    except ArithmeticError:
        # cold-input blueprints are expanded from Tinput to Thot during construction (expandColdDimsToHot, not part of
        # this property); with a short block on a tall mixed-material column armi refuses the blueprint with its
        # documented negative-height error (a consequence of the known finding's stacking rule)
        if case["asm"]["build"] != "bp-cold":
            raise
        out = Out()
        out.rejected = True
        out.label("build:bp-cold", "build:refused-negative-height")
        return out
    out = run.out
    spec = case["asm"]
    out.label("build:" + spec["build"], "blocks:%d" % (run.model.nb + 1))
    out.label("targets:explicit" if any(b["explicit"] for b in run.blocks) else "targets:auto")
    out.label("materials:single" if spec["single"] else "materials:mixed")
    if run.rule != "stock":
        out.label("hook:" + run.rule)
    if gen.ambiguous(run.blocks, run.rule):
        raise AssertionError("C12 harness: generator produced an ambiguous linkage")
    for step in case["steps"][:MAX_STEPS]:
        if not run.step(step):
            break
    out.label("applied:%d" % min(run.applied, 12))
    if run.shape_hits:
        out.label("shape:hit")
    out.nontrivial = run.applied >= 2 and run.diff_growth and run.model.nb >= 2
    return out


# --------------------------------------------------------------------------------------------
# core-level path: the reference assembly is expanded, the others follow its mesh (manageCoreMesh)

ASSEM_TYPES = ["fuel", "feed fuel", "igniter fuel", "driver", "lead test assembly", "test", "control", "primary control",
               "secondary control", "radial shield"]
# entries of the nonUniformAssemFlags setting: equal to, broader than, narrower than, unrelated to the assembly types
NON_UNIFORM = ["control", "control", "fuel", "fuel", "shield", "test", "primary", "secondary", "feed", "igniter", "radial",
               "primary control", "secondary control", "feed fuel", "igniter fuel", "radial shield", "reflector"]


def core_strategy(tier):
    step = _step(["prescribed"], ["component", "block", "all", "subset"])
    return st.fixed_dictionaries(
        {
            "asm": gen.asm_spec(),
            "refType": st.sampled_from(ASSEM_TYPES),
            "followers": st.lists(st.sampled_from(ASSEM_TYPES), min_size=1, max_size=3),
            # how the followers are snapped after each reference change: "auto" = manageCoreMesh, True / False =
            # setBlockMesh(refMesh, conserveMassFlag=...) directly
            "nonUniform": st.lists(st.sampled_from(NON_UNIFORM), min_size=0, max_size=4),
            "conserve": st.lists(st.sampled_from(["auto", "auto", True, False]), min_size=1, max_size=3),
            "steps": st.lists(step, min_size=1, max_size=3),
        }
    )


class _Core:
    """The attributes of r.core that AxialExpansionChanger.manageCoreMesh uses."""

    def __init__(self, ref, assems):
        self.refAssem = ref
        self._assems = assems
        self.p = type("P", (), {"axialMesh": None})()

    def getAssemblies(self):
        return list(self._assems)

    def updateAxialMesh(self):
        self.p.axialMesh = list(self.refAssem.getAxialMesh())


def core_execute(case):
    """detailedAxialExpansion off: expand the reference assembly, then manageCoreMesh snaps every assembly to the
    reference mesh with setBlockMesh(refMesh, conserveMassFlag="auto").  Oracle: the reference keeps all clauses; every
    follower ends on the reference mesh (contiguous, positive, bounds, total height) and, per setBlockMesh's documented
    rules, each fuel block conserves the mass of its fuel (the block's target) whatever the assembly is called, and
    in a fuel-flagged assembly the solids of the blocks below the fuel column conserve their mass."""
    from armi.reactor.flags import Flags

    case = dict(case, asm=dict(case["asm"], build="direct"), detailed=False, hook=None)
    run = Run(case, True)
    out = run.out
    run.a.setType(case["refType"])
    followers = [gen.build_direct(run.blocks, atype=t) for t in case["followers"]]
    everyone = [run.a] + followers
    # "Assemblies that match a flag group on this list will not have their mesh changed with the reference mesh"
    from armi.reactor.converters.axialExpansionChanger.axialExpansionChanger import makeAssemsAbleToSnapToUniformMesh

    entries = [Flags.fromStringIgnoreErrors(t) for t in case.get("nonUniform", [])]
    entries = [int(e) for e in entries if int(e)]

    def exempt(a):  # the assembly carries every flag of some entry (flag-group match, not equality)
        return any((int(a.p.flags) & e) == e for e in entries)

    makeAssemsAbleToSnapToUniformMesh(everyone, case.get("nonUniform", []), referenceAssembly=run.a)
    run.a.makeAxialSnapList(run.a)
    for fi, f in enumerate(followers):
        has_list = any(int(b.p.topIndex) > 0 for b in f)
        out.check(has_list == (not exempt(f)), "c12/core-mesh/non-uniform-flags-snap-list",
                  lambda: "follower %d type %r flags %s, nonUniformAssemFlags %r: snap list %s" % (fi, case["followers"][fi], f.p.flags, case.get("nonUniform"), has_list))
    core = _Core(run.a, everyone)
    r = type("R", (), {"core": core})()
    m = run.model
    tol = run.tol
    out.label("ref:" + case["refType"])
    for step in case["steps"]:
        before_applied = run.applied
        if not run.step(dict(step, swap=None, probe=False, retarget=None, fresh=False)):
            break
        if run.applied == before_applied:
            continue
        pre = [_snapshot(f) for f in followers]
        old_h = [[float(b.getHeight()) for b in f] for f in followers]
        mode = case.get("conserve", ["auto"])[(run.applied - 1) % len(case.get("conserve", ["auto"]))]
        out.label("snap:%s" % mode)
        if mode == "auto":
            run.changer.manageCoreMesh(r)
        else:
            for f in followers:
                f.setBlockMesh(run.a.getAxialMesh(), conserveMassFlag=mode)
            core.updateAxialMesh()
        ref_tops = [float(b.p.ztop) for b in run.a]
        out.check(core.p.axialMesh is not None and all(abs(x - y) <= tol for x, y in zip(core.p.axialMesh, ref_tops)),
                  "c12/core-mesh/core-axial-mesh", "core axial mesh not the reference mesh")
        for fi, f in enumerate(followers):
            where = "follower %d (%s) after %d reference changes" % (fi, case["followers"][fi], run.applied)
            out.label("follower:" + ("fuel-typed" if f.hasFlags(Flags.FUEL) else "not-fuel-typed"))
            if exempt(f):
                out.label("follower:non-uniform-exempt")
                same = all(float(b.getHeight()) == h for b, h in zip(f, old_h[fi])) and all(
                    float(c.getMass()) == pre[fi]["comp"][(i, c.name)]["mass"] for i, b in enumerate(f) for c in b)
                out.check(same, "c12/core-mesh/non-uniform-assembly-changed",
                          lambda: "%s: type matches nonUniformAssemFlags %r but heights %s -> %s" % (where, case.get("nonUniform"), old_h[fi], [float(b.getHeight()) for b in f]))
                continue
            tops = [float(b.p.ztop) for b in f]
            bounds = [float(x) for x in f.spatialGrid._bounds[2]]
            ok = len(tops) == len(ref_tops) and all(abs(x - y) <= tol for x, y in zip(tops, ref_tops))
            ok = ok and all(abs(float(b.p.zbottom) - z) <= tol for b, z in zip(f, [0.0] + tops[:-1]))
            ok = ok and all(float(b.p.height) > 0.0 and abs(float(b.p.height) - (float(b.p.ztop) - float(b.p.zbottom))) <= tol for b in f)
            ok = ok and len(bounds) == len(tops) + 1 and all(abs(x - y) <= tol for x, y in zip(bounds, [0.0] + tops))
            out.check(ok and abs(float(f.getTotalHeight()) - run.L0) <= tol, "c12/core-mesh/follower-not-on-reference-mesh",
                      lambda: "%s: tops %s bounds %s, reference tops %s" % (where, tops, bounds, ref_tops))
            if mode != "auto":
                for i, b in enumerate(f):
                    for c in b:
                        old = pre[fi]["comp"][(i, c.name)]
                        if mode is True:  # "True conserves mass for all components"
                            out.check(_rel_close(float(c.getMass()), old["mass"]), "c12/core-mesh/conserve-true-mass-not-conserved",
                                      lambda: "%s: setBlockMesh(conserveMassFlag=True): block %d %s mass %r -> %r (x %.12g)"
                                      % (where, i, c.name, old["mass"], float(c.getMass()), float(c.getMass()) / old["mass"] if old["mass"] else 0.0))
                        else:  # "False ... does not conserve any masses": densities untouched
                            out.check(_nd_scaled({k: float(v) for k, v in c.getNumberDensities().items()}, old["nd"], 1.0, 1e-14),
                                      "c12/core-mesh/conserve-false-densities-changed",
                                      lambda: "%s: setBlockMesh(conserveMassFlag=False): block %d %s number densities changed" % (where, i, c.name))
                continue
            below_fuel = True
            for i in range(m.nb):
                kind = run.blocks[i]["kind"]
                if kind == "fuel":
                    below_fuel = False
                for name in m.solids[i]:
                    old = pre[fi]["comp"][(i, name)]["mass"]
                    new = float(f[i].getComponentByName(name).getMass())
                    if kind == "fuel" and name == "fuel":
                        out.check(_rel_close(new, old), "c12/core-mesh/fuel-block-fuel-mass-not-conserved",
                                  lambda: "%s: block %d fuel mass %r -> %r (x %.12g), block height %r -> %r"
                                  % (where, i, old, new, new / old, old_h[fi][i], float(f[i].getHeight())))
                    elif kind != "fuel" and below_fuel and f.hasFlags(Flags.FUEL):
                        out.check(_rel_close(new, old), "c12/core-mesh/below-fuel-structure-mass-not-conserved",
                                  lambda: "%s: block %d (%s) %s mass %r -> %r (x %.12g)" % (where, i, kind, name, old, new, new / old))
    out.nontrivial = run.applied >= 1 and run.diff_growth and any(b["kind"] == "fuel" for b in run.blocks)
    return out


def main_execute(case):
    return _execute(case, bool(EXCLUDE_KNOWN.get(SIG_KNOWN)))


def known_execute(case):
    return _execute(case, False)


PARTS_EXTRA = [
    Part("core_mesh", core_execute, strategy=core_strategy, budget={"quick": 240, "thorough": 6000}, procs={"quick": 4, "thorough": 8},
         rule="Hypothesis: a reference assembly and 1-3 follower assemblies of the same design with assembly type names with and "
              "without the fuel flag (fuel, feed fuel, igniter fuel, driver, lead test assembly, test), snap lists made; 1-3 "
              "prescribed changes of the reference (all clauses), each followed by AxialExpansionChanger.manageCoreMesh "
              "(setBlockMesh(refMesh, 'auto') on every assembly; snap lists from the real makeAssemsAbleToSnapToUniformMesh with generated "
              "nonUniformAssemFlags entries equal to / broader / narrower than / unrelated to the assembly types: flag-group matches get "
              "no snap list and stay untouched) or by setBlockMesh(refMesh, True / False) on the followers. Oracle: followers on the reference mesh (contiguous, positive, "
              "bounds, total height); fuel blocks conserve their fuel (target) mass whatever the assembly type; below-fuel "
              "structure conserved in fuel-typed assemblies; True: every component's mass conserved; False: densities unchanged. Non-trivial = a fuel block and two blocks with different target growth"),
]

PARTS = [
    Part("histories", main_execute, strategy=main_strategy, budget={"quick": 1200, "thorough": 40000},
         procs={"quick": 8, "thorough": 16},
         rule="Hypothesis: pin-type assemblies (grid plate / shield / fuel or control x1-4 / plenum, aclp / duct block / fluid dummy "
              "on top; fuel, bond, clad, wire, duct, coolant; realistic or single materials; automatic or explicit target components; "
              "built from component objects or from a blueprint, hot or cold input heights) x histories of 1-6 prescribed "
              "(per-component, per-block, uniform, one-component-kind), thermal-field or step-wise thermal changes (one persistent "
              "changer: updateComponentTemp per solid with ~40 % holds + computeThermalExpansionFactors + axiallyExpandAssembly), "
              "each optionally followed by its "
              "inverse, optionally preceded by a swap of two same-kind blocks (remove/insert + reestablishBlockOrder + "
              "calculateZCoords) with the changer object reused or fresh; short (1-3 cm) blocks above tall columns and small dummy "
              "blocks are over-weighted and a growth for which the column-stacking model predicts a negative block height is "
              "applied as a refusal probe (armi must raise its ArithmeticError, counted as rejected, or leave every height > 0); "
              "the known shape is excluded by construction. Oracle after every application: total height, contiguity, "
              "positive heights, grid bounds, block top on its target, linked components stacked, component height = growth x old "
              "height, target mass conserved, all solids conserved and densities / growth under uniform growth, inverse restores. "
              "Non-trivial = at least two applied changes and two blocks whose targets grew differently"),
    Part("known_shape", known_execute, strategy=known_strategy, budget={"quick": 120, "thorough": 2000},
         procs={"quick": 4, "thorough": 8},
         rule="Hypothesis: assemblies with a plenum and automatic targets x 1-3 changes where the clad column below the plenum may "
              "grow differently from the fuel (the known finding's shape is NOT excluded); same oracle; keeps the known finding "
              "observed. Non-trivial as above"),
]
PARTS += PARTS_EXTRA
