"""C15 - a run visits every time node once, in order, calling hooks in stack order.

Parts
-----
run          generated configuration (cycle history in either input style, restart point, interface stack with flags,
             deferral, BOC halt, tight coupling with real TightCouplers on generated value sequences, direct interactAll* calls with exclusion
             lists) -> real ``Operator`` with recording interfaces; the recorded trace must equal the schedule of
             the reference model ``vp/model/schedule.py``.
numbering    generated histories: (cycle, node) <-> cumulative node / step numbers, previous node, history lists.
numbering_enum  the same for every vector of burn steps per cycle up to a bound (complete enumeration).
"""
import math
import os

from hypothesis import strategies as st

from vp.model import schedule as sm
from vp.runner import Out, Part

PROPERTY = "C15"
LEVEL = "exploration"
ASSUMPTIONS = [
    "the reference scheduler (vp/model/schedule.py) is written from the property statement, doc/user/inputs.rst, the "
    "setting descriptions, the developer guide and the Operator/addInterface docstrings; it shares no code with armi",
    "deferral (deferredInterfaceNames/deferredInterfacesCycle) is applied to the BOL and BOC selection only, as "
    "getActiveInterfaces implements it (the setting text only says 'will begin normal operations on this cycle number'); "
    "EveryNode/EOC/EOL/Coupled hooks of a deferred interface are expected to run.  Whether a deferred interface gets "
    "its BOL hook when the run starts at or after the activation cycle is left open (not asserted, labelled)",
    "the restart point is presented to the operator the way MainInterface does it: r.p.cycle/r.p.timeNode set before "
    "operate() or by the first interface during its BOL hook; start node <= number of burn steps of the start cycle",
    "time-state fields are asserted where documented: cycle/node everywhere; cycleLength/availabilityFactor from BOC on; "
    "power at every node ('one last node at the end using the same power as the previous node', full power without "
    "steps); stepLength/capacityFactor only at nodes that start a step; coupledIteration inside Coupled hooks",
    "floats (days, fractions, power) are compared with rel 1e-10 / abs 1e-12; everything else exactly",
    "the clause 'step lengths sum to availability x cycle length' is asserted for cycles that have at least one step",
    "tightCouplingMaxNumIters >= 1; a stack used with tight coupling contains an interface named 'database' exposing "
    "writeDBEveryNode (the operator calls it after the coupling iterations of every node; part of the expected trace)",
    "invalid configurations (expanded list length != nCycles, len(cycles) != nCycles, power fractions vs steps, "
    "multi-cycle run with burnSteps 0) must make operate() raise ValueError; a power-fraction list of the wrong length "
    "is only generated when the run has a step to use it on",
    "hooks return None except the BOC hook of the halting interface (returns True)",
    "couplers are the stock TightCoupler objects created from tightCouplingSettings; each coupled interaction changes the "
    "interface's coupled value (scalar, vector of 2-6 entries, table of 2-6 x 1-4 entries; one entry, one per row, one row "
    "or all entries) by 0, 0.3, 0.6, 3 or 8 tolerances per entry (either sign; whole numbers for int values), so no norm of "
    "the change lies within 4 % of the tolerance; the reference applies doc/user/physics_coupling.rst: |old-new| for scalars, L2 norm "
    "for vectors, max of the row L2 norms for 2-D, converged when eps < tolerance",
    "enabled/bolForce are set through addInterface arguments and through Interface.enabled(flag)/bolForce(flag) on the "
    "object before or after it is added (also on an object that was attached with other flags and removed again); the "
    "expectation uses the final documented state (schedule.final_flags).  An object that is disabled at that moment is "
    "never attached with enabled=True (docstring 'If enabled, will run at all hooks' vs. implementation: not asserted), and "
    "reverseAtEOL is only given through the addInterface argument of the final attachment",
]

# Shapes that trigger candidate genuine defects are avoided by construction (see the final report of C15):
EXCLUDE_KNOWN = {
    # _interactAll: ``halt = halt or interactMethod(*args)`` does not call the hooks of the interfaces that follow
    # the halting one in the same BOC event
    "trace/BOC/halt-skips-rest-of-stack": False,  # repaired in /repo (fix: commit 85a966e); the shape is searched again
    # detailed cycles input ``burn steps: 0`` (allowed by the schema) -> ZeroDivisionError
    "history/detailed-burn-steps-zero": True,
    # detailed cycles input ``availability factor: 0`` (allowed by the schema) -> ZeroDivisionError
    "history/detailed-availability-zero": True,
}
if os.environ.get("VP_C15_INCLUDE_KNOWN") == "1":  # search those shapes too (e.g. on a tree where they are fixed)
    EXCLUDE_KNOWN = {k: False for k in EXCLUDE_KNOWN}

POOL = ["main", "fuelHandler", "depletion", "xs", "flux", "th", "history", "database", "report"]
VALUE_KINDS = list(sm.COUPLING_KINDS)
POWER = 1.0e6

REACTOR_SPEC = {
    "geom": "hex", "symmetry": "full", "rings": 1, "pitch": 12.0, "heights": [20.0],
    "designs": [{"specifier": "IC", "name": "inner assem", "kinds": ["reflector"], "mult": 7, "fill": 0.3,
                 "enrich": [0.1], "zr": 0.1, "xs": ["A"], "thot": 450.0, "pinGrid": False}],
    "cells": [[0, 0, 0]], "sfp": False,
}


def _close(a, b):
    return math.isclose(float(a), float(b), rel_tol=1e-10, abs_tol=1e-12)


def _close_list(a, b):
    return len(a) == len(b) and all(_close(x, y) for x, y in zip(a, b))


# ------------------------------------------------------------------------------------------------
# strategies


def _nice(lo, hi, q=4):
    return st.integers(int(lo * q), int(hi * q)).map(lambda k: k / q)


@st.composite
def _values(draw, n, elem):
    """n values with runs of equal neighbours (so that the repeat syntax applies)."""
    base = [draw(elem) for _ in range(min(n, 3))]
    out = []
    for _ in range(n):
        if out and draw(st.booleans()):
            out.append(out[-1])
        else:
            out.append(base[draw(st.integers(0, len(base) - 1))])
    return out


@st.composite
def _encoded(draw, values):
    """Write a list the way a user may: runs optionally abbreviated with 'NR' / 'RN', integral values as ints."""
    out, i = [], 0
    while i < len(values):
        j = i
        while j + 1 < len(values) and values[j + 1] == values[i]:
            j += 1
        run = j - i + 1
        v = values[i]
        out.append(int(v) if float(v).is_integer() and draw(st.booleans()) else v)
        if run > 1 and draw(st.booleans()):
            k = draw(st.integers(1, run - 1))
            out.append(("%dR" % k) if draw(st.booleans()) else ("R%d" % k))
            i += 1 + k
        else:
            i += 1
    return out


@st.composite
def _list_setting(draw, n, elem, wrong):
    """None/[] (use the scalar setting) or an encoded list; ``wrong`` forces an expanded length != n."""
    if not wrong and draw(st.integers(0, 2)) == 0:
        return draw(st.sampled_from([None, []]))
    m = n
    if wrong:
        m = n + draw(st.sampled_from([-1, 1, 2] if n > 1 else [1, 2]))
    return draw(_encoded(draw(_values(m, elem))))


def _avoid_known_history(h, excluded):
    """Rewrite the two detailed-input shapes that crash armi (candidate defects) into equivalent accepted input."""
    if h["style"] != "detailed":
        return h
    cycles = []
    for cyc in h["cycles"]:
        cyc = dict(cyc)
        if cyc.get("burn steps") == 0 and EXCLUDE_KNOWN["history/detailed-burn-steps-zero"]:
            excluded.append("history/detailed-burn-steps-zero")
            cyc.pop("burn steps")
            cyc.pop("cycle length")
            cyc["step days"] = []
        if cyc.get("availability factor") == 0.0 and EXCLUDE_KNOWN["history/detailed-availability-zero"]:
            excluded.append("history/detailed-availability-zero")
            cyc["availability factor"] = 0.5
        cycles.append(cyc)
    return dict(h, cycles=cycles)


SIMPLE_INVALID = ["list-length:cycleLengths", "list-length:availabilityFactors", "list-length:powerFractions",
                  "multi-cycle-zero-burn-steps"]
DETAILED_INVALID = ["list-length:cycles", "power-fractions-vs-steps"]


@st.composite
def history_strategy(draw, max_cycles=4, max_steps=4, allow_invalid=False):
    style = draw(st.sampled_from(["simple", "detailed"]))
    invalid = None
    if allow_invalid and draw(st.integers(0, 7)) == 0:
        invalid = draw(st.sampled_from(SIMPLE_INVALID if style == "simple" else DETAILED_INVALID))
    frac = st.integers(0, 8).map(lambda k: k / 8)
    if style == "simple":
        if invalid == "multi-cycle-zero-burn-steps":
            n, b = draw(st.integers(2, max_cycles)), 0
        else:
            n = draw(st.integers(1, max_cycles))
            b = draw(st.integers(0 if n == 1 else 1, max_steps))
            if invalid == "list-length:powerFractions" and b == 0:
                b = 1
        h = {
            "style": "simple", "nCycles": n, "burnSteps": b,
            "cycleLength": draw(_nice(1, 400)),
            "cycleLengths": draw(_list_setting(n, _nice(1, 400), invalid == "list-length:cycleLengths")),
            "availabilityFactor": draw(frac),
            "availabilityFactors": draw(_list_setting(n, frac, invalid == "list-length:availabilityFactors")),
            "powerFractions": draw(_list_setting(n, frac, invalid == "list-length:powerFractions")),
        }
        return {"h": h, "invalid": invalid, "excluded": []}
    n = draw(st.integers(1, max_cycles))
    cycles = []
    for c in range(n):
        kind = draw(st.sampled_from(["step days", "cumulative days", "burn steps"]))
        nsteps = draw(st.integers(0, max_steps))
        if invalid == "power-fractions-vs-steps" and c == 0:
            nsteps = max(nsteps, 1)
        cyc = {}
        if draw(st.booleans()):
            cyc["name"] = "cycle %d" % c
        if kind == "step days":
            cyc["step days"] = draw(_encoded(draw(_values(nsteps, _nice(0.25, 120)))))
        elif kind == "cumulative days":
            incs = [draw(_nice(0.25, 120)) for _ in range(nsteps)]
            cyc["cumulative days"] = [sum(incs[: k + 1]) for k in range(nsteps)]
        else:
            cyc["burn steps"] = nsteps
            cyc["cycle length"] = draw(_nice(1, 400))
        av = draw(st.sampled_from([None, None, 1.0, 0.875, 0.5, 0.125, 0.0]))
        if av == 0.0 and kind != "burn steps":
            av = 0.25  # zero availability with explicit at-power days is self-contradictory input
        if av is not None:
            cyc["availability factor"] = av
        want_pf = draw(st.booleans())
        npf = nsteps
        if invalid == "power-fractions-vs-steps" and c == 0:
            want_pf = True
            npf = nsteps + draw(st.sampled_from([-1, 1, 2] if nsteps > 1 else [1, 2]))
        if want_pf:
            cyc["power fractions"] = draw(_encoded(draw(_values(npf, frac))))
        cycles.append(cyc)
    ncyc = n
    if invalid == "list-length:cycles":
        ncyc = n + draw(st.sampled_from([-1, 1] if n > 1 else [1]))
    excluded = []
    h = _avoid_known_history({"style": "detailed", "nCycles": ncyc, "cycles": cycles}, excluded)
    return {"h": h, "invalid": invalid, "excluded": excluded}


def _biased(p_true_in_8):
    return st.integers(0, 7).map(lambda k: k < p_true_in_8)


@st.composite
def run_strategy(draw, tier="quick"):
    hist = draw(history_strategy(max_cycles=4, max_steps=3, allow_invalid=True))
    names = draw(st.permutations(POOL))[: draw(st.integers(1, 6))]
    flag_pair = st.fixed_dictionaries({"enabled": st.booleans(), "bolForce": st.booleans()})
    flag_call = st.tuples(st.sampled_from(["enabled", "bolForce"]), st.booleans()).map(list)
    stack = []
    for nm in names:
        stack.append({
            "name": nm,
            "index": draw(st.one_of(st.none(), st.none(), st.integers(0, 6))),
            "enabled": draw(_biased(6)),
            "bolForce": draw(_biased(3)),
            "reverseAtEOL": draw(_biased(3)),
            "deferred": draw(_biased(2)),
            "hasFunction": draw(_biased(5)),
            "coupled": draw(_biased(5)),
            "tol": draw(st.sampled_from([1e-6, 1e-4, 1e-3, 0.05, 0.5, 2.0])),
            "valueKind": draw(st.sampled_from(VALUE_KINDS + ["float", "int"])),
            # change of the coupled value per coupled interaction, in tolerances: increasing, decreasing, oscillating, none
            "factors": draw(st.lists(st.sampled_from([0.0, 0.0, 0.3, -0.3, 0.6, -0.6, 0.6, 3.0, -3.0, 8.0, -8.0]), min_size=1, max_size=5)),
            # vectors of shape[0] entries / shape[0] x shape[1] tables; which entries a coupled interaction moves
            "shape": [draw(st.integers(2, 6)), draw(st.integers(1, 4))],
            "spread": draw(st.sampled_from(["one", "all", "all", "rows", "rows", "cols"])),
            # the two flags can also be set on the object itself, before or after it is added, and the object may have
            # been attached with other flags before ("enabled"/"bolForce" above are the addInterface arguments)
            # deliberate shapes that separate the documented norms from their neighbours: one entry in each of >= 4 rows
            # (max of rows < tol < L2 of rows), a whole row / a whole vector (every entry < tol < L2 of the entries)
            "profile": draw(st.sampled_from(["free", "free", "free", "free", "free", "row-split", "row-split", "entry-split", "vector-split"])),
            "reuse": draw(st.one_of(st.none(), st.none(), st.none(), st.none(), st.none(), flag_pair)),
            "pre": draw(st.one_of(st.just([]), st.just([]), st.just([]), st.lists(flag_call, min_size=1, max_size=2))),
            "post": draw(st.one_of(st.just([]), st.just([]), st.lists(flag_call, min_size=1, max_size=2))),
        })
    for e in stack:
        profile = e.pop("profile")
        if profile == "free":
            continue
        e["factors"] = [f if abs(f) in (0.0, 0.6) else (0.6 if f > 0 else -0.6) for f in e["factors"]] + [3.0]
        e["shape"] = [max(e["shape"][0], 4), e["shape"][1]]
        if profile == "row-split":
            e["valueKind"], e["spread"] = "list2d", "rows"
        elif profile == "entry-split":
            e["valueKind"], e["spread"], e["shape"] = "list2d", "cols", [e["shape"][0], max(e["shape"][1], 3)]
        else:
            e["valueKind"], e["spread"] = ("list" if e["valueKind"] in ("float", "list", "list2d") else "ndarray"), "all"
    restart = draw(_biased(4))
    case = {
        "excluded": list(hist["excluded"]),
        "history": hist["h"],
        "invalid": hist["invalid"],
        "stack": stack,
        "deferredExtra": draw(_biased(1)),
        "deferredCycle": draw(st.integers(0, 5)),
        "halt": draw(st.one_of(st.none(), st.fixed_dictionaries({"by": st.integers(0, 5), "cycle": st.integers(0, 4)}))),
        "coupling": {
            "on": draw(st.booleans()),
            "maxIters": draw(st.integers(1, 5)),
            "skip": draw(st.lists(st.integers(0, 4), max_size=2, unique=True)),
            "dbAt": draw(st.integers(0, 5)),
        },
        "start": {
            "cycle": draw(st.integers(0, 3)) if restart else 0,
            "node": draw(st.integers(0, 3)) if restart else 0,
            "via": draw(st.sampled_from(["preset", "bol"])),
        },
        "direct": draw(st.lists(st.fixed_dictionaries({
            "event": st.sampled_from(["BOL", "BOC", "EveryNode", "EOC", "EOL"]),
            "excluded": st.lists(st.integers(0, 6), max_size=3, unique=True),
            "cycle": st.integers(0, 5),
            "node": st.integers(0, 4),
        }), max_size=3)),
    }
    return _avoid_known_halt(case)


def _avoid_known_halt(case):
    """Candidate defect trace/BOC/halt-skips-rest-of-stack: let the last BOC-active interface be the halting one."""
    if case["halt"] is None or not EXCLUDE_KNOWN["trace/BOC/halt-skips-rest-of-stack"]:
        return case
    norm = normalise(case)
    halt = norm["cfg"]["halt"]
    if halt is None:
        return case
    active = sm.select(sm.build_stack(norm["cfg"]["stack"]), "BOC", norm["cfg"]["deferredNames"], norm["cfg"]["deferredCycle"],
                       halt["cycle"])
    if halt["by"] in active and halt["by"] != active[-1]:
        case["halt"] = {"by": norm["order"].index(active[-1]), "cycle": halt["cycle"]}
        case["excluded"].append("trace/BOC/halt-skips-rest-of-stack")
    return case


# ------------------------------------------------------------------------------------------------
# case -> configuration shared by the model and the harness (pure python)


def normalise(case):
    h = case["history"]
    invalid = None
    hist = None
    try:
        hist = sm.resolve_history(h)
    except sm.InvalidHistory as exc:
        invalid = exc.reason
    cp = dict(case["coupling"])
    entries = []
    for e in case["stack"]:
        e = dict(e)
        e["function"] = ("fn_" + e["name"]) if e["hasFunction"] else None
        if "factors" not in e:  # older cases: a script of converged / not converged flags
            e["factors"] = [0.0 if ok else 2.0 for ok in e["script"]]
        # addInterface arguments, and the flags the interface finally has (what the reference scheduler works with)
        e["addEnabled"], e["addBolForce"] = e["enabled"], e["bolForce"]
        if e["addEnabled"] and not sm.flags_before_add(e):
            e["addEnabled"] = False  # (an object disabled beforehand is never attached with enabled=True, see final_flags)
        e["enabled"], e["bolForce"] = sm.final_flags(e)
        entries.append(e)
    if cp["on"] and not any(e["name"] == "database" for e in entries):
        e = entries[cp["dbAt"] % len(entries)]
        e["name"] = "database"
        e["function"] = "fn_database" if e["hasFunction"] else None
    for e in entries:
        e["coupled"] = bool(cp["on"] and e["function"] and e["coupled"])
    stack = sm.build_stack(entries)
    deferred = [e["name"] for e in stack if e["deferred"]]
    if case["deferredExtra"]:
        deferred.append("notInTheStack")
    dcycle = case["deferredCycle"]
    # restart point
    start = {"cycle": 0, "node": 0, "via": case["start"]["via"], "owner": None}
    if hist is not None:
        start["cycle"] = case["start"]["cycle"] % hist["nCycles"]
        start["node"] = case["start"]["node"] % (len(hist["steps"][start["cycle"]]) + 1)
    for e in stack:
        if (e["enabled"] or e["bolForce"]) and e["name"] not in deferred:
            start["owner"] = e["name"]
            break
    if start["owner"] is None:
        start["via"] = "preset"
    # halt
    halt = None
    if case["halt"] is not None and invalid is None:  # (a halt could end an invalid run before the input is looked at)
        halt = {"by": stack[case["halt"]["by"] % len(stack)]["name"], "cycle": case["halt"]["cycle"]}
    direct = []
    for d in case["direct"]:
        ex = []
        for k in d["excluded"]:
            ex.append(stack[k]["name"] if k < len(stack) else "notInTheStack")
        direct.append({"event": d["event"], "excluded": ex, "cycle": d["cycle"], "node": d["node"]})
    cfg = {
        "stack": entries, "deferredNames": deferred, "deferredCycle": dcycle, "halt": halt,
        "coupling": {"on": cp["on"], "maxIters": cp["maxIters"], "skip": list(cp["skip"])},
        "power": POWER, "start": start, "haltStopsEvent": False,
    }
    return {"cfg": cfg, "history": h, "hist": hist, "invalid": invalid, "direct": direct,
            "order": [e["name"] for e in stack]}


def expected_segments(norm):
    """[(events, left_open pairs, halt flag or None)] : the main run, then one segment per direct call."""
    sched = sm.Scheduler(norm["cfg"], norm["hist"])
    main = list(sched.run())
    segs = [(main, sched.left_open, None)]
    for d in norm["direct"]:
        n0 = len(sched.events)
        left_open, halt = set(), None
        if d["event"] == "BOL":
            left_open = sched.bol(excluded=d["excluded"], reference_cycle=sched.state["cycle"])
        elif d["event"] == "BOC":
            halt = sched.boc(d["cycle"])
        elif d["event"] == "EveryNode":
            sched.every_node(d["cycle"], d["node"], excluded=d["excluded"])
        elif d["event"] == "EOC":
            sched.eoc(d["cycle"], excluded=d["excluded"])
        else:
            sched.eol(excluded=d["excluded"])
        segs.append((sched.events[n0:], left_open, halt))
    return segs, sched


# ------------------------------------------------------------------------------------------------
# armi side


def armi_history_settings(h):
    if h["style"] == "simple":
        s = {k: h[k] for k in ("nCycles", "burnSteps", "cycleLength", "availabilityFactor")}
        for k in ("cycleLengths", "availabilityFactors", "powerFractions"):
            s[k] = h[k]
        return s
    return {"nCycles": h["nCycles"], "cycles": [dict(c) for c in h["cycles"]]}


def _armi_value(kind, value):
    """The reference model's coupled value in the type the interface hands to its TightCoupler."""
    import numpy as np

    if kind == "ndarray":
        return np.array(value)
    if kind == "list":
        return list(value)
    if kind == "list2d":
        return [list(row) for row in value]
    return value


def make_settings(extra):
    """A default Settings object with quiet logging and ``extra`` assigned (cs[key] = value validates like input)."""
    from armi.settings import caseSettings

    cs = caseSettings.Settings()
    new = {"verbosity": "error", "branchVerbosity": "error", "moduleVerbosity": {}}
    new.update(extra)
    for k, v in new.items():
        cs[k] = v
    return cs


_PROCESS = {}
_R_PARAMS = ("cycle", "timeNode", "cycleLength", "availabilityFactor", "stepLength", "capacityFactor", "time")
_CORE_PARAMS = ("power", "coupledIteration")


def fresh_settings_and_reactor(settings):
    """Settings for this case and the (passive) one-assembly reactor of this process with its time state reset.

    The reactor is only the carrier of the time state the operator writes; it is built once per process and the
    parameters an operator run touches are put back to their initial values before every case.
    """
    from vp.gen import reactor as rg

    if not _PROCESS:
        _cs0, _bp, r = rg.build(REACTOR_SPEC, settings={"power": POWER})
        _PROCESS["r"] = r
        _PROCESS["init"] = ({k: r.p[k] for k in _R_PARAMS}, {k: r.core.p[k] for k in _CORE_PARAMS})
    r = _PROCESS["r"]
    rp, cp = _PROCESS["init"]
    for k, v in rp.items():
        r.p[k] = v
    for k, v in cp.items():
        r.core.p[k] = v
    r.o = None
    return make_settings(settings), r


def make_operator(cs, r):
    """A standard Operator attached to ``r``; the per-operator fast-path directory it creates under /tmp is removed."""
    import shutil

    from armi import context
    from armi.operators.operator import Operator

    saved = (context._FAST_PATH, context._FAST_PATH_IS_TEMPORARY)
    try:
        o = Operator(cs)
    finally:
        created = context.getFastPath()
        context._FAST_PATH, context._FAST_PATH_IS_TEMPORARY = saved
        if created != saved[0]:
            shutil.rmtree(created, ignore_errors=True)
    o.r = r
    r.o = o
    return o


def make_recorders(r, cs, norm, trace):
    """One recording Interface subclass instance per stack entry (in the order of the addInterface calls)."""
    from armi import interfaces

    cfg = norm["cfg"]
    start, halt = cfg["start"], cfg["halt"]

    class Recorder(interfaces.Interface):
        name = None
        function = None
        entry = None

        def __init__(self, r, cs):
            interfaces.Interface.__init__(self, r, cs)
            self.value = sm.coupling_initial(self.entry["valueKind"], self.entry.get("shape", (2, 2)))
            self.calls = 0

        def _rec(self, ev, *args):
            p, cp = self.r.p, self.r.core.p
            trace.append({
                "ev": ev, "name": self.name, "args": list(args), "cycle": p.cycle, "node": p.timeNode,
                "cycleLength": p.cycleLength, "availability": p.availabilityFactor, "stepLength": p.stepLength,
                "power": cp.power, "capacityFactor": p.capacityFactor, "coupledIteration": cp.coupledIteration,
            })

        def interactBOL(self):
            self._rec("BOL")
            if start["via"] == "bol" and start["owner"] == self.name:
                self.r.p.cycle = start["cycle"]
                self.r.p.timeNode = start["node"]

        def interactBOC(self, cycle=None):
            self._rec("BOC", cycle)
            if halt is not None and halt["by"] == self.name and halt["cycle"] == cycle:
                return True
            return None

        def interactEveryNode(self, cycle, node):
            self._rec("EveryNode", cycle, node)

        def interactEOC(self, cycle=None):
            self._rec("EOC", cycle)

        def interactEOL(self):
            self._rec("EOL")

        def interactCoupled(self, iteration):
            self._rec("Coupled", iteration)
            if self.entry["coupled"]:
                e = self.entry
                factor = e["factors"][self.calls % len(e["factors"])]
                self.calls += 1
                self.value = sm.coupling_advance(e["valueKind"], self.value, sm.coupling_step(e["valueKind"], factor, e["tol"]),
                                                 e.get("spread", "all"))

        def getTightCouplingValue(self):
            return _armi_value(self.entry["valueKind"], self.value)

        def writeDBEveryNode(self):
            self._rec("writeDB")

    out = []
    for e in cfg["stack"]:
        klass = type("Rec_" + e["name"], (Recorder,), {"name": e["name"], "function": e["function"], "entry": e})
        out.append((klass(r, cs), e))
    return out


# ------------------------------------------------------------------------------------------------
# comparison


def _groups(events):
    out = []
    for e in events:
        key = (e["ev"], tuple(e["args"]))
        if out and out[-1][0] == key:
            out[-1][1].append(e)
        else:
            out.append((key, [e]))
    return out


_EXACT = ("cycle", "node", "coupledIteration")
_FLOAT = ("cycleLength", "availability", "stepLength", "power", "capacityFactor")


def compare_segment(out, tag, expected, actual, left_open, halt_cfg):
    """Compare one segment; returns True when equal.  Signatures name the failing clause."""
    opened = [e for e in actual if (e["ev"], e["name"]) in left_open]
    if opened:
        out.label("obs:deferred-interface-got-BOL-after-activation-cycle")
    actual = [e for e in actual if (e["ev"], e["name"]) not in left_open]
    expected = [e for e in expected if (e["ev"], e["name"]) not in left_open]
    ge, ga = _groups(expected), _groups(actual)
    for k in range(max(len(ge), len(ga))):
        ke = ge[k][0] if k < len(ge) else ("END", ())
        ka = ga[k][0] if k < len(ga) else ("END", ())
        if ke != ka:
            if ke[0] == ka[0]:
                sig = "%s/%s/args" % (tag, ke[0])
            else:
                sig = "%s/sequence/expected-%s-got-%s" % (tag, ke[0], ka[0])
            out.fail(sig, "hook call #%d: expected %s%s, the operator made %s%s" % (k, ke[0], list(ke[1]), ka[0], list(ka[1])))
            return False
        ne = [e["name"] for e in ge[k][1]]
        na = [e["name"] for e in ga[k][1]]
        if ne != na:
            ev = ke[0]
            if (ev == "BOC" and halt_cfg and halt_cfg["cycle"] == ke[1][0] and halt_cfg["by"] in ne
                    and na == ne[: ne.index(halt_cfg["by"]) + 1]):
                sig = "trace/BOC/halt-skips-rest-of-stack"
            elif sorted(ne) == sorted(na):
                sig = "%s/%s/order" % (tag, ev)
            elif len(set(na)) != len(na):
                sig = "%s/%s/called-twice" % (tag, ev)
            else:
                sig = "%s/%s/selection" % (tag, ev)
            out.fail(sig, "%s%s: expected interfaces %s, called %s" % (ev, list(ke[1]), ne, na))
            return False
    for e, a in zip(expected, actual):
        for f in _EXACT + _FLOAT:
            if f not in e:
                continue
            good = (a[f] == e[f]) if f in _EXACT else (a[f] is not None and _close(a[f], e[f]))
            if not good:
                # only the first difference: later ones are its consequences
                out.fail("state/%s/%s" % (e["ev"], f),
                         "%s %s%s: reactor state %s = %r, expected %r" % (e["name"], e["ev"], e["args"], f, a[f], e[f]))
                return False
    return True


# ------------------------------------------------------------------------------------------------
# part 1: whole runs


def _zero_division_signature(h):
    if h["style"] == "detailed":
        if any(c.get("burn steps") == 0 for c in h["cycles"]):
            return "history/detailed-burn-steps-zero"
        if any(c.get("availability factor") == 0 for c in h["cycles"]):
            return "history/detailed-availability-zero"
    return None


def check_history_functions(out, cs, hist, tag="history"):
    """armi.utils history functions against the resolved reference history."""
    from armi import utils

    steps = utils.getStepLengths(cs)
    n = hist["nCycles"]
    if n == 1 and hist["steps"] == [[]]:
        good = steps in ([[]], [])
    else:
        good = len(steps) == n and all(_close_list(a, b) for a, b in zip(steps, hist["steps"]))
    out.check(good, tag + "/stepLengths", lambda: "getStepLengths %r, expected %r" % (steps, hist["steps"]))
    cl = utils.getCycleLengths(cs)
    out.check(_close_list(cl, hist["cycleLengths"]), tag + "/cycleLengths",
              lambda: "getCycleLengths %r, expected %r" % (cl, hist["cycleLengths"]))
    av = utils.getAvailabilityFactors(cs)
    out.check(_close_list(av, hist["availability"]), tag + "/availabilityFactors",
              lambda: "getAvailabilityFactors %r, expected %r" % (av, hist["availability"]))
    pf = utils.getPowerFractions(cs)
    out.check(len(pf) == n and all(_close_list(a, b) for a, b in zip(pf, hist["powerFractions"])), tag + "/powerFractions",
              lambda: "getPowerFractions %r, expected %r" % (pf, hist["powerFractions"]))
    if good:
        for c in range(len(steps)):
            if steps[c]:
                out.check(_close(sum(steps[c]), av[c] * cl[c]), tag + "/steps-sum-to-availability-x-length",
                          lambda: "cycle %d: sum %r, availability %r x length %r" % (c, sum(steps[c]), av[c], cl[c]))
    return good


def run_execute(case):
    out = Out()
    norm = normalise(case)
    cfg, h = norm["cfg"], norm["history"]
    out.label(*["excluded:" + x for x in case.get("excluded", [])])
    out.label("style:" + h["style"])
    # the generator's claim and the model's verdict must agree (harness self-check)
    assert norm["invalid"] == case["invalid"], (norm["invalid"], case["invalid"])
    settings = armi_history_settings(h)
    settings.update({
        "power": POWER,
        "tightCoupling": cfg["coupling"]["on"],
        "tightCouplingMaxNumIters": cfg["coupling"]["maxIters"],
        "cyclesSkipTightCouplingInteraction": cfg["coupling"]["skip"],
        "tightCouplingSettings": {e["function"]: {"parameter": "keff", "convergence": e["tol"]}
                                  for e in cfg["stack"] if e["coupled"]},
        "deferredInterfaceNames": cfg["deferredNames"],
        "deferredInterfacesCycle": cfg["deferredCycle"],
        "startCycle": cfg["start"]["cycle"],
        "startNode": cfg["start"]["node"],
    })
    cs, r = fresh_settings_and_reactor(settings)
    trace = []

    def prepare():
        o = make_operator(cs, r)
        recs = make_recorders(r, cs, norm, trace)
        for rec, e in recs:
            if e.get("reuse"):
                o.addInterface(rec, enabled=e["reuse"]["enabled"], bolForce=e["reuse"]["bolForce"])
                o.removeInterface(rec)
            for method, flag in e.get("pre", []):
                getattr(rec, method)(flag)
            o.addInterface(rec, index=e["index"], reverseAtEOL=e["reverseAtEOL"], enabled=e["addEnabled"],
                           bolForce=e["addBolForce"])
        for rec, e in recs:
            for method, flag in e.get("post", []):
                getattr(rec, method)(flag)
        if cfg["start"]["via"] == "preset":
            r.p.cycle = cfg["start"]["cycle"]
            r.p.timeNode = cfg["start"]["node"]
        return o

    # ---- configurations documented as invalid must be refused (when the operator is built or when it runs)
    if norm["invalid"] is not None:
        out.label("invalid:" + norm["invalid"])
        try:
            prepare().operate()
        except ValueError:
            out.rejected = True
            return out
        out.fail("invalid/%s/not-rejected" % norm["invalid"].split(":")[0],
                 "the run completed with %d hook calls; history input %r" % (len(trace), h))
        return out

    hist = norm["hist"]
    try:
        check_history_functions(out, cs, hist)
    except ZeroDivisionError as exc:
        sig = _zero_division_signature(h)
        if sig is None:
            raise
        out.fail(sig, "%s for the accepted input %r" % (exc, h))
        return out

    o = prepare()
    got_order = [i.name for i in o.getInterfaces()]
    out.check(got_order == norm["order"], "stack/order-after-addInterface",
              lambda: "stack %s, expected %s" % (got_order, norm["order"]))
    byname = {e["name"]: e for e in cfg["stack"]}
    for i in o.getInterfaces():
        e = byname.get(i.name)
        if e is None:
            continue
        got = (bool(i.enabled()), bool(i.bolForce()))
        if not out.check(got == (e["enabled"], e["bolForce"]), "stack/enabled-bolForce-flags",
                         lambda: "%s: (enabled, bolForce) = %s after reuse=%r pre=%r addInterface(enabled=%r, bolForce=%r) post=%r; "
                                 "the documented calls give %s" % (i.name, got, e.get("reuse"), e.get("pre", []), e["addEnabled"],
                                                                  e["addBolForce"], e.get("post", []), (e["enabled"], e["bolForce"]))):
            return out  # the trace would only repeat this

    segs, sched = expected_segments(norm)
    o.operate()
    bounds = [(0, len(trace))]
    rets = [None]
    for d in norm["direct"]:
        n0 = len(trace)
        ret = None
        if d["event"] == "BOL":
            o.interactAllBOL(excludedInterfaceNames=d["excluded"])
        elif d["event"] == "BOC":
            ret = bool(o.interactAllBOC(d["cycle"]))
        elif d["event"] == "EveryNode":
            o.interactAllEveryNode(d["cycle"], d["node"], excludedInterfaceNames=d["excluded"])
        elif d["event"] == "EOC":
            o.interactAllEOC(d["cycle"], excludedInterfaceNames=d["excluded"])
        else:
            o.interactAllEOL(excludedInterfaceNames=d["excluded"])
        bounds.append((n0, len(trace)))
        rets.append(ret)

    all_ok = True
    for k, ((lo, hi), (exp, left_open, halt_exp)) in enumerate(zip(bounds, segs)):
        tag = "trace" if k == 0 else "direct"
        all_ok = compare_segment(out, tag, exp, trace[lo:hi], left_open, cfg["halt"])
        if all_ok and halt_exp is not None:
            all_ok = out.check(rets[k] == halt_exp, "direct/BOC/halt-return-value",
                               lambda: "interactAllBOC(%d) returned %r, expected %r" % (norm["direct"][k - 1]["cycle"], rets[k], halt_exp))
        if not all_ok:
            break  # what follows a difference is its consequence
    main_ok = all_ok
    if not all_ok:
        return out

    # ---- active-interface selection asked directly
    probes = [("Coupled", (), 0)]
    for d in norm["direct"]:
        probes.append((d["event"], tuple(d["excluded"]), d["cycle"]))
        probes.append(("EOL" if d["event"] != "EOL" else "EveryNode", tuple(d["excluded"]), d["cycle"]))
    for ev, ex, cyc in probes:
        got = [i.name for i in o.getActiveInterfaces(ev, excludedInterfaceNames=ex, cycle=cyc)]
        want = sm.select(sched.stack, ev, cfg["deferredNames"], cfg["deferredCycle"], cyc, ex)
        if ev == "BOL":
            opened = set(cfg["deferredNames"]) if r.p.cycle >= cfg["deferredCycle"] else set()
            got = [n for n in got if n not in opened]
            want = [n for n in want if n not in opened]
        out.check(got == want, "select/%s" % ev,
                  lambda: "getActiveInterfaces(%r, excluded=%r, cycle=%d) = %s, expected %s" % (ev, ex, cyc, got, want))

    # ---- the operator's resolved history
    nsteps = [len(s) for s in hist["steps"]]
    out.check(list(o.burnSteps) == nsteps, "operator/burnSteps", lambda: "o.burnSteps %r expected %r" % (o.burnSteps, nsteps))
    out.check(_close_list(o.cycleLengths, hist["cycleLengths"]), "operator/cycleLengths", lambda: "%r" % (o.cycleLengths,))
    out.check(_close_list(o.availabilityFactors, hist["availability"]), "operator/availabilityFactors", lambda: "%r" % (o.availabilityFactors,))
    out.check(len(o.stepLengths) == len(nsteps) and all(_close_list(a, b) for a, b in zip(o.stepLengths, hist["steps"])),
              "operator/stepLengths", lambda: "%r" % (o.stepLengths,))
    out.check(len(o.powerFractions) == len(nsteps) and all(_close_list(a, b) for a, b in zip(o.powerFractions, hist["powerFractions"])),
              "operator/powerFractions", lambda: "%r" % (o.powerFractions,))

    # ---- classification
    main = segs[0][0]
    cycles_run = list(sched.cycles_run)
    flags_nondefault = any((not e["enabled"]) or e["bolForce"] or e["reverseAtEOL"] or e["deferred"] or e["index"] is not None
                           for e in cfg["stack"])
    coupled_calls = [e for e in main if e["ev"] == "Coupled"]
    out.nontrivial = main_ok and len(cycles_run) >= 2 and (flags_nondefault or bool(coupled_calls))
    out.label("cycles-run:%d" % min(len(cycles_run), 4), "stack:%d" % len(cfg["stack"]))
    if cfg["start"]["cycle"] or cfg["start"]["node"]:
        out.label("restart:" + cfg["start"]["via"], "restart:mid-cycle" if cfg["start"]["node"] else "restart:at-BOC")
        if cfg["start"]["node"] == nsteps[cfg["start"]["cycle"]] and cfg["start"]["node"]:
            out.label("restart:at-last-node")
    if any(n == 0 for n in nsteps):
        out.label("zero-step-cycle")
    if len(set(nsteps)) > 1:
        out.label("unequal-steps")
    halted = cfg["halt"] and any(e["ev"] == "BOC" and e["name"] == cfg["halt"]["by"] and e["args"][0] == cfg["halt"]["cycle"] for e in main)
    if halted:
        out.label("halted", "halted:first-cycle" if cfg["halt"]["cycle"] == cfg["start"]["cycle"] else "halted:later-cycle")
    if cfg["coupling"]["on"]:
        out.label("coupling:on")
        iters = {}
        for e in coupled_calls:
            key = (e["cycle"], e["node"])
            iters[key] = max(iters.get(key, 0), e["args"][0] + 1)
        if any(v == cfg["coupling"]["maxIters"] for v in iters.values()):
            out.label("coupling:cap-reached")
        if any(1 < v < cfg["coupling"]["maxIters"] for v in iters.values()):
            out.label("coupling:converged-after-several")
        if any(v == 1 for v in iters.values()):
            out.label("coupling:converged-first")
        if sum(1 for e in cfg["stack"] if e["coupled"] and e["enabled"]) >= 2:
            out.label("coupling:two-couplers")
        if any(c in cfg["coupling"]["skip"] for c in cycles_run):
            out.label("coupling:cycle-skipped")
        out.label(*["coupling:" + n for n in sorted(sched.notes)])
    names_in = set(norm["order"])
    if any(n in names_in for n in cfg["deferredNames"]):
        out.label("deferred")
        if any(c < cfg["deferredCycle"] for c in cycles_run) and any(c >= cfg["deferredCycle"] for c in cycles_run):
            out.label("deferred:activated-mid-run")
    if sum(1 for e in cfg["stack"] if e["reverseAtEOL"] and e["enabled"]) >= 2:
        out.label("eol:two-reversed")
    if any((not e["enabled"]) and e["bolForce"] for e in cfg["stack"]):
        out.label("bolForce-on-disabled")
    for e in cfg["stack"]:
        if e.get("reuse"):
            out.label("flags:object-reused")
        if e.get("pre"):
            out.label("flags:set-before-add")
        if e.get("post"):
            out.label("flags:set-after-add")
        if e["addEnabled"] and e["addBolForce"] and not e["enabled"] and e["bolForce"]:
            out.label("flags:added-enabled-forced-then-disabled")
        if (not e["enabled"]) and (not e["bolForce"]) and any(m == "bolForce" and f for m, f in e.get("pre", [])) \
                or (not e["enabled"] and not e["bolForce"] and e.get("reuse") and e["reuse"]["bolForce"]):
            out.label("flags:stale-bolForce-cleared-by-add")
    if any(d["excluded"] for d in norm["direct"]):
        out.label("direct:excluded")
    return out


# ------------------------------------------------------------------------------------------------
# part 2/3: node and step numbering


def numbering_checks(out, cs, hist):
    from armi import utils

    bs = [len(s) for s in hist["steps"]]
    got_bs = utils.getBurnSteps(cs)
    if bs == [0] and got_bs == []:
        got_bs = [0]
    if not out.check(list(got_bs) == bs, "numbering/getBurnSteps", lambda: "getBurnSteps %r expected %r" % (got_bs, bs)):
        return 0
    out.check(utils.getNodesPerCycle(cs) == [b + 1 for b in bs], "numbering/getNodesPerCycle", lambda: "%r" % (utils.getNodesPerCycle(cs),))
    out.check(utils.getMaxBurnSteps(cs) == max(bs), "numbering/getMaxBurnSteps", lambda: "%r" % (utils.getMaxBurnSteps(cs),))
    out.check(bool(utils.hasBurnup(cs)) == (sum(bs) > 0), "numbering/hasBurnup", lambda: "burn steps %r" % (bs,))
    nodes = sm.visit_order(bs)
    for k, (c, n) in enumerate(nodes):
        cum = utils.getCumulativeNodeNum(c, n, cs)
        out.check(cum == k, "numbering/getCumulativeNodeNum",
                  lambda: "burn steps %r: node (%d, %d) is visit #%d, getCumulativeNodeNum gives %r" % (bs, c, n, k, cum))
        back = utils.getCycleNodeFromCumulativeNode(k, cs)
        out.check(tuple(back) == (c, n), "numbering/getCycleNodeFromCumulativeNode",
                  lambda: "burn steps %r: visit #%d is (%d, %d), got %r" % (bs, k, c, n, back))
        if k == 0:
            try:
                utils.getPreviousTimeNode(c, n, cs)
                out.fail("numbering/previous-of-first-node", "getPreviousTimeNode(0, 0) did not raise")
            except ValueError:
                pass
        else:
            prev = utils.getPreviousTimeNode(c, n, cs)
            out.check(tuple(prev) == nodes[k - 1], "numbering/getPreviousTimeNode",
                      lambda: "burn steps %r: before (%d, %d) comes %r, got %r" % (bs, c, n, nodes[k - 1], prev))
    steps = sm.step_order(bs)
    for k, (c, n) in enumerate(steps):
        got = utils.getCycleNodeFromCumulativeStep(k + 1, cs)
        out.check(tuple(got) == (c, n), "numbering/getCycleNodeFromCumulativeStep",
                  lambda: "burn steps %r: step #%d starts at (%d, %d), got %r" % (bs, k + 1, c, n, got))
    for bad, fn in ((-1, utils.getCycleNodeFromCumulativeNode), (0, utils.getCycleNodeFromCumulativeStep)):
        try:
            fn(bad, cs)
            out.fail("numbering/out-of-range-accepted", "%s(%d) did not raise" % (fn.__name__, bad))
        except ValueError:
            pass
    return len(nodes) + len(steps)


def numbering_strategy(tier):
    return history_strategy(max_cycles=8, max_steps=6, allow_invalid=False).map(
        lambda d: {"history": d["h"], "excluded": d["excluded"]})


def numbering_execute(case):
    out = Out()
    h = case["history"]
    out.label(*["excluded:" + x for x in case.get("excluded", [])])
    out.label("style:" + h["style"])
    hist = sm.resolve_history(h)
    cs = make_settings(armi_history_settings(h))
    try:
        good = check_history_functions(out, cs, hist)
    except ZeroDivisionError as exc:
        sig = _zero_division_signature(h)
        if sig is None:
            raise
        out.fail(sig, "%s for the accepted input %r" % (exc, h))
        return out
    bs = [len(s) for s in hist["steps"]]
    out.evals = max(1, numbering_checks(out, cs, hist)) if good else 1
    out.nontrivial = hist["nCycles"] >= 2 and sum(bs) > 0
    if any(b == 0 for b in bs):
        out.label("zero-step-cycle")
    if len(set(bs)) > 1:
        out.label("unequal-steps")
    if any(isinstance(x, str) for c in (h.get("cycles") or [h]) for k in c for x in (c[k] if isinstance(c[k], list) else [])):
        out.label("repeat-syntax")
    return out


_ENUM = {"quick": (4, 3), "thorough": (5, 4)}


def numbering_enum(tier):
    import itertools

    ncyc, nstep = _ENUM[tier]
    cases = []
    for n in range(1, ncyc + 1):
        for vec in itertools.product(range(nstep + 1), repeat=n):
            cases.append({"steps": list(vec)})
    return cases


def numbering_enum_execute(case):
    out = Out()
    cycles = []
    for c, b in enumerate(case["steps"]):
        kind = (c + b) % 3
        if kind == 0 or b == 0:
            cycles.append({"step days": [float(k + 1) for k in range(b)]})
        elif kind == 1:
            cycles.append({"cumulative days": [float(2 * (k + 1)) for k in range(b)]})
        else:
            cycles.append({"burn steps": b, "cycle length": 30.0, "availability factor": 0.5})
    h = {"style": "detailed", "nCycles": len(cycles), "cycles": cycles}
    hist = sm.resolve_history(h)
    cs = make_settings(armi_history_settings(h))
    good = check_history_functions(out, cs, hist)
    n = numbering_checks(out, cs, hist) if good else 0
    out.evals = max(1, n)
    out.nontrivial_count = n if len(case["steps"]) >= 2 else 0
    return out


PARTS = [
    Part("run", run_execute, strategy=run_strategy, budget={"quick": 800, "thorough": 30000}, procs={"quick": 8, "thorough": 16},
         rule="Hypothesis: cycle history (simple or detailed input, repeat syntax, zero-step cycles, 1/8 documented-invalid), restart "
              "point (preset or set by the first BOL hook), 1-6 recording interfaces (insert index, enabled/bolForce via addInterface "
              "arguments and/or calls on the object before/after adding and on re-added objects, reverseAtEOL, "
              "deferred, function + stock TightCoupler on a generated value sequence (scalar/list/2-D/ndarray, rising, falling, oscillating; tolerance generated)), deferral cycle, BOC halt, tight coupling (cap, skipped cycles), "
              "then up to 3 direct interactAll* calls with exclusion lists; non-trivial = trace equal AND >= 2 cycles run AND a "
              "non-default interface attribute or coupling iterations; oracle: event list of the reference scheduler, exact "
              "(floats rel 1e-10); invalid configurations must raise ValueError"),
    Part("numbering", numbering_execute, strategy=numbering_strategy, budget={"quick": 2500, "thorough": 150000},
         procs={"quick": 8, "thorough": 16},
         rule="Hypothesis: valid histories up to 8 cycles x 6 steps in both input styles; every node and step of the history: "
              "getCumulativeNodeNum / getCycleNodeFromCumulativeNode / getCycleNodeFromCumulativeStep / getPreviousTimeNode are mutually "
              "inverse and follow visit order; step/cycle lengths, availabilities, power fractions equal the reference resolution; "
              "sum(steps) = availability x length; non-trivial = >= 2 cycles with at least one step"),
    Part("numbering_enum", numbering_enum_execute, enumerate=numbering_enum, exhaustive=True, procs={"quick": 4, "thorough": 16},
         rule="every vector of burn steps per cycle (detailed input, the three step styles alternating); same oracle as 'numbering'; "
              "non-trivial = >= 2 cycles",
         bound=lambda t: "cycles <= %d, burn steps per cycle <= %d" % _ENUM[t]),
]
