"""C01 - the reactor model tree stays a well-formed tree under any edit history.

A case is a *program*: a tree kind, a small description of the initial forest, the set of enabled operation
kinds (swarm testing) and a list of 1..40 operation records.  Object references in the records are integers
taken modulo the number of currently valid targets, so every program is executable.  The interpreter applies
each operation to armi and to a tiny reference model (child lists + parent ids + detached flags) and, after
EVERY step, compares the whole forest with the model and runs a bundle of traversal queries with generated
arguments against a naive walk of the model.
"""
import os
import re

from hypothesis import strategies as st

from vp.runner import Out, Part

PROPERTY = "C01"
LEVEL = "exploration"
ASSUMPTIONS = [
    "trusted accessors: .parent, .name, .p.flags (decoded bit by bit through Flags.fields()), .p.type, "
    ".spatialLocator.i/j/k/.grid, .spatialGrid.armiObject; iteration (list(node)) is what is compared with the model",
    "Composite.append/extend are not generated (they deliberately do not set parent); add() of an object that still has "
    "a parent and remove() of a non-child are caller errors and are not generated",
    "Core-level edits use Core.add / Core.removeAssembly (and SpentFuelPool.add/remove) with their preconditions respected "
    "(core inside a Reactor, location free, name unique, assembly has at least one block); assemblies always get their "
    "AxialGrid before add; children of a generic composite that owns a grid are given a locator in that grid by the harness, "
    "as Assembly.add/Core.add do for their children",
    "deep traversals are judged as: every descendant exactly once and siblings in child order (the order between "
    "different branches is not promised); generation queries, direct-children queries and iterComponents as exact lists",
    "sort(): the result must be a permutation at every level; the exact stable (k, j, i) order is asserted only for generic "
    "composites, whose locators the harness controls",
    "hasFlags reference implementation: set algebra on flag names, written from the docstring of ArmiObject.hasFlags",
    "getAncestor* are expected to consider the object itself first (distance 0), which Composite._getReactionRates and "
    "Database.load rely on",
]

# a known defect shape is kept out of the search by construction (see replays/C01/defect_*.json)
SIG_EXCORE = "c01/copy/reactor-excore-not-relinked"
EXCLUDE_KNOWN = {SIG_EXCORE: False}  # repaired in /repo (fix: commit dcd1993), searched again; a replay case may carry "noexclude": true to reproduce the defect
if os.environ.get("VP_C01_NOEXCLUDE"):  # debugging aid: search the excluded shape again (e.g. on a repaired tree)
    EXCLUDE_KNOWN[SIG_EXCORE] = False

KINDS = ["generic", "block", "assembly", "core"]
OPS = {
    "generic": ["add", "insert", "remove", "removeAll", "setChildren", "sort", "readd", "deepcopy", "pickle", "reject"],
    "block": ["add", "remove", "removeAll", "setChildren", "sort", "pinGrid", "rotate", "replaceBlock", "readd", "deepcopy", "pickle", "reject"],
    "assembly": ["add", "insert", "remove", "removeAll", "setChildren", "sort", "reestablish", "adjust", "pinGrid", "rotate", "replaceBlock", "readd",
                 "deepcopy", "pickle", "reject"],
    "core": ["add", "insert", "remove", "removeAll", "setChildren", "sort", "reestablish", "adjust", "pinGrid", "rotate", "replaceBlock", "coreAdd",
             "coreRemove", "readd", "deepcopy", "pickle", "reject"],
}
STRUCTURAL = {"adjust", "add", "insert", "remove", "removeAll", "setChildren", "replaceBlock", "coreAdd", "coreRemove", "readd"}
MAX_DEPTH = 4  # generic trees: deepest node is 4 levels below its root
NODE_CAP = 170  # total objects tracked in one program
FLAG_POOL = ["FUEL", "CLAD", "DUCT", "CONTROL", "INNER", "DRIVER", "SHIELD", "B"]
BLOCK_TYPES = ["fuel", "plenum", "inner fuel", "reflector", "control", "driver fuel", "shield"]
ASSEM_TYPES = ["fuel", "control", "inner fuel", "radial shield", "driver fuel"]
GEN_TYPES = ["fuel", "clad", "duct", "control", "inner fuel", "driver fuel", "shield", "plain"]
CORE_CELLS = [(0, 0), (1, 0), (0, 1), (-1, 1), (-1, 0), (0, -1), (1, -1), (2, 0), (1, 1), (0, 2), (-1, 2), (-2, 2),
              (-2, 1), (-2, 0), (-1, -1), (0, -2), (1, -2), (2, -2), (2, -1)]
BIG = 10**6
# before armi detached the cells of a removed pin's location (fix 64b8dd4) a re-added pin shared its cells with the lattice it
# had left and such locations could not be judged; kept as a switch for running against older trees
SHARED_CELL_EXEMPTION = bool(os.environ.get("VP_C01_SHARED_CELLS"))
_IDS = re.compile(r"(id:| -- )\d+")


# ----------------------------------------------------------------------------------------------------
# strategy


def _op_record(enabled):
    return st.fixed_dictionaries(
        {
            "op": st.sampled_from(enabled),
            "t": st.integers(0, 999),
            "a": st.integers(0, BIG),
            "b": st.integers(0, 999),
            "c": st.integers(0, 999),
            "ijk": st.lists(st.integers(0, 2), min_size=3, max_size=3),
            "f": st.booleans(),
            "q": st.lists(st.integers(0, BIG), min_size=6, max_size=6),
        }
    )


@st.composite
def _program(draw, kinds):
    kind = draw(st.sampled_from(kinds))
    allops = OPS[kind]
    if draw(st.integers(0, 3)) == 0:
        enabled = list(allops)
    else:
        enabled = sorted(draw(st.lists(st.sampled_from(allops), min_size=1, max_size=len(allops), unique=True)))
    n = draw(st.integers(1, 40))
    ops = draw(st.lists(_op_record(enabled), min_size=n, max_size=40))
    init = {
        "geom": draw(st.sampled_from(["hex", "hex", "cart"])) if kind in ("block", "assembly") else "hex",
        "sizes": draw(st.lists(st.integers(0, BIG), min_size=1, max_size=8)),
        "track": draw(st.booleans()),
        "sfp": draw(st.integers(0, 4)) > 0,
    }
    return {"kind": kind, "init": init, "enabled": enabled, "ops": ops}


def program_strategy(tier):
    return _program(KINDS)


# ----------------------------------------------------------------------------------------------------
# armi access (imported lazily, once per worker)

_A = None


class _Armi:
    def __init__(self):
        import copy
        import pickle

        from armi.reactor import assemblies, blocks, blueprints, components, composites, geometry, grids, reactors
        from armi.reactor.components.component import _DimensionLink
        from armi.reactor.flags import Flags
        from armi.reactor.spentFuelPool import SpentFuelPool

        from vp.model import c01_nodes

        self.copy, self.pickle = copy, pickle
        self.assemblies, self.blocks, self.blueprints, self.components = assemblies, blocks, blueprints, components
        self.composites, self.geometry, self.grids, self.reactors = composites, geometry, grids, reactors
        self.Flags, self.SpentFuelPool, self.Gen = Flags, SpentFuelPool, c01_nodes.GenComposite
        self.DimensionLink = _DimensionLink
        self.flagbits = sorted((name, int(val)) for name, val in Flags.fields().items())
        self.classes = {
            "G": c01_nodes.GenComposite, "C": components.Component, "B": blocks.Block, "A": assemblies.Assembly,
            "K": reactors.Core, "S": SpentFuelPool, "R": reactors.Reactor,
        }


def _armi():
    global _A
    if _A is None:
        _A = _Armi()
    return _A


# ----------------------------------------------------------------------------------------------------
# reference model


class Node:
    __slots__ = ("nid", "obj", "cls", "geom", "children", "parent", "detached", "copied", "locs", "last", "tempgrid")

    def __init__(self, nid, obj, cls, geom):
        self.nid, self.obj, self.cls, self.geom = nid, obj, cls, geom
        self.children = []  # node ids, in child order
        self.parent = None  # node id
        self.detached = False  # taken out of a parent by remove/removeAll/setChildren/removeAssembly
        self.copied = False  # belongs to a tree produced by deepcopy / pickle
        self.locs = {}  # Core only: (i, j) -> assembly node id
        self.last = None  # id of the parent it was last removed from
        self.tempgrid = False  # component handed over by replaceBlockWithBlock: may sit on the temporary copy's pin grid

    def __repr__(self):
        return "#%d%s" % (self.nid, self.cls)


def _hexdist(i, j):
    return max(abs(i), abs(j), abs(i + j))


class Stop(Exception):
    """Raised after a violation that makes the model unable to follow armi any further."""


def ref_flags(A, obj):
    """Flag names of an object, decoded from the integer value of ``p.flags`` (no use of hasFlags)."""
    f = obj.p.flags
    if f is None:
        return frozenset()
    v = int(f)
    return frozenset(name for name, bit in A.flagbits if v & bit)


def ref_has_flags(flagset, spec, exact):
    """hasFlags as its docstring describes it.  ``spec``: None, a candidate (set of names) or a list of candidates."""
    if spec is None:
        return not exact  # "None matches all objects if exact is False, or no objects if exact is True"
    if isinstance(spec, list):
        return any(ref_has_flags(flagset, cand, exact) for cand in spec)  # "Return True if any of candidates match"
    if not flagset:
        return False  # "If no flags exist in the object then False is returned"
    if exact:
        return flagset == spec  # "the object flags and candidates must match exactly"
    return spec <= flagset  # "must have at least the flags contained in a candidate ... extra flags are permitted"


class Interp:
    def __init__(self, case, out):
        self.A = _armi()
        self.case, self.out = case, out
        self.nodes = []
        self.by_id = {}
        self.serial = 0
        self.next_num = 1
        self.step = -1
        self.edits = 0
        self.nt_readd = False
        self.nt_copy = False
        self.opname = "init"

    # ---- bookkeeping -----------------------------------------------------------------------------
    def fail(self, sig, msg):
        msg = _IDS.sub(lambda m: m.group(1) + "*", msg)  # object ids out of armi's reprs: messages stay reproducible
        self.out.fail("c01/" + sig, "step %d (%s): %s" % (self.step, self.opname, msg))

    def gate(self):
        """One root cause, one signature: stop at the first query group that disagrees."""
        if self.out.violations:
            raise Stop()

    def new_node(self, obj, cls, geom=None):
        n = Node(len(self.nodes), obj, cls, geom)
        self.nodes.append(n)
        self.by_id[id(obj)] = n
        return n

    def kids(self, n):
        return [self.nodes[c] for c in n.children]

    def par(self, n):
        return None if n.parent is None else self.nodes[n.parent]

    def subtree(self, n):
        res = [n]
        for c in self.kids(n):
            res.extend(self.subtree(c))
        return res

    def root(self, n):
        while n.parent is not None:
            n = self.nodes[n.parent]
        return n

    def depth(self, n):
        d = 0
        while n.parent is not None:
            n = self.nodes[n.parent]
            d += 1
        return d

    def height(self, n):
        return 0 if not n.children else 1 + max(self.height(c) for c in self.kids(n))

    def chain(self, n):
        res = [n]
        while n.parent is not None:
            n = self.nodes[n.parent]
            res.append(n)
        return res

    def in_reactor(self, n):
        p = self.par(n)
        return p is not None and p.cls == "R"

    def link(self, p, c, index=None):
        c.parent = p.nid
        c.detached = False
        if index is None:
            p.children.append(c.nid)
        else:
            p.children.insert(index, c.nid)

    def unlink(self, c):
        p = self.par(c)
        p.children.remove(c.nid)
        c.parent = None
        c.last = p.nid
        c.detached = True
        if p.cls == "K":
            for key in [k for k, v in p.locs.items() if v == c.nid]:
                del p.locs[key]

    # ---- builders (every object is registered in the model as it is made) -------------------------------
    def make_generic(self, n):
        A = self.A
        self.serial += 1
        o = A.Gen("g%d" % self.serial)
        typ = GEN_TYPES[n % 8]
        mode = (n // 8) % 3
        o.p.type = typ
        if mode == 1:
            o.setType(typ)  # flags derived from the type name
        elif mode == 2:
            x = n // 24
            names = set()
            for _ in range(1 + x % 3):
                x //= 3
                names.add(FLAG_POOL[x % len(FLAG_POOL)])
                x //= len(FLAG_POOL)
            o.setType(typ, flags=self.flags_of(names))
        g = (n // 3) % 4
        if g == 1:
            o.spatialGrid = A.grids.CartesianGrid.fromRectangle(1.0, 1.0, armiObject=o)
        elif g == 2:
            o.spatialGrid = A.grids.HexGrid.fromPitch(1.0, armiObject=o)
        elif g == 3:
            o.spatialGrid = A.grids.AxialGrid.fromNCells(4, armiObject=o)
        return self.new_node(o, "G")

    def make_component(self, n, parent=None, falsy_ok=False):
        C = self.A.components
        T = {"Tinput": 25.0, "Thot": 400.0}
        m = n % 12 if falsy_ok else n % 8
        if m >= 8:
            # NullComponent is the one falsy class of the composite model (__bool__ is False); it has no area, so no
            # caller puts it into a Block (Block.remove/removeAll compute volume fractions): generic parents only
            self.serial += 1
            o = C.NullComponent("null%d" % self.serial, "Void", **T)
            self.out.label("falsy-node")
            return self.new_node(o, "C", "null")
        if m == 0:
            o = C.Circle("fuel", "UZr", od=0.76, id=0.0, mult=7.0, **T)
        elif m == 1:
            o = C.Circle("clad", "HT9", od=0.80, id=0.77, mult=7.0, **T)
        elif m == 2:
            o = C.Helix("wire", "HT9", od=0.1, id=0.0, mult=7.0, axialPitch=30.0, helixDiameter=0.9, **T)
        elif m == 3:
            o = C.Hexagon("duct", "HT9", op=16.0, ip=15.3, mult=1.0, **T)
        elif m == 4:
            sib = {}
            if parent is not None and parent.cls == "B":
                for c in self.kids(parent):
                    if c.obj.name in ("fuel", "clad") and c.obj.name not in sib:
                        sib[c.obj.name] = c.obj
            if len(sib) == 2:  # dimensions linked to the siblings, as blueprints do
                o = C.Circle("bond", "Sodium", od="clad.id", id="fuel.od", mult=7.0, components=sib, **T)
            else:
                o = C.Circle("bond", "Sodium", od=0.77, id=0.76, mult=7.0, **T)
        elif m == 5:
            o = C.Hexagon("intercoolant", "Sodium", op=16.5, ip=16.0, mult=1.0, **T)
        elif m == 6:
            o = C.Circle("inner fuel", "UZr", od=0.5, id=0.0, mult=1.0, **T)
        else:
            o = C.Square("control", "HT9", widthOuter=3.0, widthInner=2.0, mult=1.0, **T)
        return self.new_node(o, "C")

    _BLOCK_TEMPLATES = {
        "hex": [[0, 1, 2, 3], [3], [0, 1, 3], [], [0, 1, 4, 3, 5]],
        "cart": [[0, 1, 7], [7], [0, 1, 4, 7], [], [6, 7]],
    }

    def make_block(self, n, geom):
        A = self.A
        # "inner fuel"/"driver fuel" carry a strict superset of the flags of "fuel" (exact vs inexact flag queries)
        tname = BLOCK_TYPES[n % len(BLOCK_TYPES)]
        cls = A.blocks.HexBlock if geom == "hex" else A.blocks.CartesianBlock
        self.serial += 1
        o = cls("%s%d" % (tname, self.serial), height=5.0 + (n % 3))
        o.setType(tname)
        b = self.new_node(o, "B", geom)
        for m in self._BLOCK_TEMPLATES[geom][(n // len(BLOCK_TYPES)) % 5]:
            c = self.make_component(m, b)
            o.add(c.obj)
            self.link(b, c)
        return b

    def make_assembly(self, n, geom):
        A = self.A
        cls = A.assemblies.HexAssembly if geom == "hex" else A.assemblies.CartesianAssembly
        typ = ASSEM_TYPES[n % len(ASSEM_TYPES)]
        o = cls(typ, assemNum=self.next_num)
        self.next_num += 1
        nb = 1 + (n // len(ASSEM_TYPES)) % 3
        o.spatialGrid = A.grids.AxialGrid.fromNCells(nb)
        o.spatialGrid.armiObject = o
        a = self.new_node(o, "A", geom)
        for i in range(nb):
            b = self.make_block(n // 15 + 5 * i, geom)
            o.add(b.obj)
            self.link(a, b)
        return a

    def make_reactor(self, init):
        A = self.A
        ro = A.reactors.Reactor("R", A.blueprints.Blueprints())
        r = self.new_node(ro, "R")
        ko = A.reactors.Core("Core")
        ro.add(ko)
        g = A.grids.HexGrid.fromPitch(16.5, symmetry="full")
        g.geomType = A.geometry.HEX
        g.armiObject = ko
        ko.spatialGrid = g
        ko.spatialLocator = A.grids.CoordinateLocation(0.0, 0.0, 0.0, None)
        ko._trackAssems = bool(init["track"])
        k = self.new_node(ko, "K")
        self.link(r, k)
        if init["sfp"]:
            so = A.SpentFuelPool("Spent Fuel Pool")
            so.spatialGrid = A.grids.CartesianGrid.fromRectangle(20.0, 20.0, numRings=3, armiObject=so)
            ro.add(so)
            so.spatialLocator = A.grids.CoordinateLocation(500.0, 0.0, 0.0, None)
            s = self.new_node(so, "S")
            self.link(r, s)
        sizes = init["sizes"]
        for idx, n in enumerate(sizes[:4]):
            a = self.make_assembly(n, "hex")
            self.core_add(k, a, idx * 5 + n)
        return r

    def flags_of(self, names):
        F = self.A.Flags
        val = None
        for nm in sorted(names):
            val = F[nm] if val is None else (val | F[nm])
        return val

    def build_initial(self):
        kind, init = self.case["kind"], self.case["init"]
        sizes = init["sizes"]
        if kind == "generic":
            self.make_generic(sizes[0])
            for n in sizes[1:]:
                parents = [p for p in self.nodes if p.cls == "G" and self.depth(p) < MAX_DEPTH]
                p = parents[n % len(parents)]
                c = self.make_component(n // 7, falsy_ok=True) if n % 4 == 0 else self.make_generic(n // 7)
                self.do_add(p, c, [n % 3, (n // 3) % 3, (n // 9) % 3])
        elif kind == "block":
            self.make_block(sizes[0], init["geom"])
            self.make_block(sizes[-1] // 3, init["geom"])
        elif kind == "assembly":
            self.make_assembly(sizes[0], init["geom"])
            self.make_assembly(sizes[-1] // 5, init["geom"])
        else:
            self.make_reactor(init)

    # ---- primitive edits (armi + model) ----------------------------------------------------------------
    def locate(self, p, c, ijk):
        """Generic parent with a grid: give the child a locator in that grid (what Assembly.add/Core.add do)."""
        g = p.obj.spatialGrid
        if p.cls == "G" and g is not None:
            if isinstance(g, self.A.grids.AxialGrid):
                c.obj.spatialLocator = g[0, 0, ijk[2]]
            else:
                c.obj.spatialLocator = g[ijk[0], ijk[1], ijk[2]]

    def free_cells(self, k):
        return [cell for cell in CORE_CELLS if cell not in k.locs]


    def core_add(self, k, a, pick):
        cells = self.free_cells(k)
        i, j = cells[pick % len(cells)]
        k.obj.add(a.obj, k.obj.spatialGrid[i, j, 0])
        self.link(k, a)
        k.locs[(i, j)] = a.nid

    def unique_name(self, p, a):
        """An assembly entering a reactor needs a name that is unique there (callers: makeUnique/renumber); the
        harness keeps assembly names unique among everything it tracks (copies start with the original's name)."""
        clash = any(x.cls == "A" and x is not a and x.obj.getName() == a.obj.getName() for x in self.nodes)
        if p.cls == "K":
            # Core.add refuses a name that its by-name table maps to another object; the table also keeps assemblies that
            # were discharged with trackAssems on (also when there is no SFP to receive them), so ask the core itself
            clash = clash or p.obj.assembliesByName.get(a.obj.getName(), a.obj) is not a.obj
        if clash:
            a.obj.renumber(self.next_num)
            self.next_num += 1
            self.out.label("renumbered")

    def do_add(self, p, c, ijk, pick=0):
        if p.cls == "K":
            self.unique_name(p, c)
            self.core_add(p, c, pick)
            return
        if p.cls == "S":
            self.unique_name(p, c)
        p.obj.add(c.obj)
        self.link(p, c)
        self.locate(p, c, ijk)

    def do_insert(self, p, index, c, ijk):
        p.obj.insert(index, c.obj)
        self.link(p, c, index)
        self.locate(p, c, ijk)

    def accepts(self, p, c):
        """May ``c`` (a root) become a child of ``p``?  (types, depth bound, Core/SFP preconditions)."""
        if p.cls == "G":
            return c.cls in ("G", "C") and self.depth(p) + 1 + self.height(c) <= MAX_DEPTH
        if p.cls == "B":
            return c.cls == "C" and c.geom != "null"
        if p.cls == "A":
            return c.cls == "B" and c.geom == p.geom
        if p.cls == "K":
            return c.cls == "A" and c.geom == "hex" and self.in_reactor(p) and len(c.children) >= 1 and bool(self.free_cells(p))
        if p.cls == "S":
            return c.cls == "A" and self.in_reactor(p) and len(p.children) < 20
        return False

    def new_child_for(self, p, n):
        if p.cls == "G":
            return self.make_component(n // 3, p, falsy_ok=True) if n % 3 == 0 else self.make_generic(n // 3)
        if p.cls == "B":
            return self.make_component(n, p)
        if p.cls == "A":
            return self.make_block(n, p.geom)
        return self.make_assembly(n, "hex")

    def room(self, extra=12):
        return len(self.nodes) + extra <= NODE_CAP

    def pick(self, cands, t):
        return cands[t % len(cands)] if cands else None

    # ---- operations ----------------------------------------------------------------------------------
    def op_add(self, r):
        cands = [p for p in self.nodes if (p.cls == "G" and self.depth(p) < MAX_DEPTH) or p.cls in ("B", "A")
                 or (p.cls == "S" and self.in_reactor(p) and len(p.children) < 20)]
        p = self.pick(cands, r["t"])
        if p is None or not self.room():
            return False
        c = self.new_child_for(p, r["a"])
        self.do_add(p, c, r["ijk"])
        return True

    def op_coreAdd(self, r):
        cands = [p for p in self.nodes if p.cls == "K" and self.in_reactor(p) and self.free_cells(p)]
        p = self.pick(cands, r["t"])
        if p is None or not self.room():
            return False
        a = self.make_assembly(r["a"], "hex")
        self.do_add(p, a, r["ijk"], pick=r["b"])
        return True

    def op_insert(self, r):
        cands = [p for p in self.nodes if (p.cls == "G" and self.depth(p) < MAX_DEPTH) or p.cls == "A"]
        p = self.pick(cands, r["t"])
        if p is None or not self.room():
            return False
        c = self.new_child_for(p, r["a"])
        self.do_insert(p, r["b"] % (len(p.children) + 1), c, r["ijk"])
        return True

    def op_remove(self, r):
        cands = [c for c in self.nodes if c.parent is not None and self.par(c).cls in ("G", "B", "A", "S")]
        c = self.pick(cands, r["t"])
        if c is None:
            return False
        p = self.par(c)
        if p.cls == "B" and r["f"]:
            p.obj.remove(c.obj, recomputeAreaFractions=False)
        else:
            p.obj.remove(c.obj)
        self.unlink(c)
        return True

    def op_removeAll(self, r):
        cands = [p for p in self.nodes if p.cls in ("G", "B", "A", "S")]
        p = self.pick(cands, r["t"])
        if p is None:
            return False
        if p.cls == "B" and r["f"]:
            p.obj.removeAll(recomputeAreaFractions=False)
        else:
            p.obj.removeAll()
        for c in self.kids(p):
            self.unlink(c)
        return True

    def op_adjust(self, r):
        """Assembly.adjustResolution(refA): blocks that line up with the reference are kept, a taller block is taken out
        and replaced by deep copies of itself.  The reference is built so that every block is kept or split in 2 or 4
        equal parts (binary fractions: the heights add up exactly)."""
        A = self.A
        a = self.pick([p for p in self.nodes if p.cls == "A" and p.children], r["t"])
        if a is None:
            return False
        kids = self.kids(a)
        plan, x = [], r["a"]
        for _b in kids:
            plan.append((1, 2, 1, 4)[x % 4])
            x //= 4
        extra = sum(k * (1 + len(self.subtree(b))) for b, k in zip(kids, plan)) + 1
        if not self.room(extra):
            return False
        cls = A.assemblies.HexAssembly if a.geom == "hex" else A.assemblies.CartesianAssembly
        bcls = A.blocks.HexBlock if a.geom == "hex" else A.blocks.CartesianBlock
        ro = cls("reflector", assemNum=self.next_num)
        self.next_num += 1
        ro.spatialGrid = A.grids.AxialGrid.fromNCells(sum(plan))
        ro.spatialGrid.armiObject = ro
        ref = self.new_node(ro, "A", a.geom)
        for b, k in zip(kids, plan):
            for _ in range(k):
                self.serial += 1
                bo = bcls("ref%d" % self.serial, height=b.obj.getHeight() / k)
                bo.setType("reflector")
                ro.add(bo)
                self.link(ref, self.new_node(bo, "B", a.geom))
        a.obj.adjustResolution(ro)
        for b in kids:
            self.unlink(b)
        got = list(a.obj)
        if len(got) != sum(plan):
            self.fail("adjust/block-count", "%r has %d blocks after adjustResolution, the reference has %d" % (a.obj, len(got), sum(plan)))
            raise Stop()
        self.pre_ids = set(self.by_id)
        self.pre_shared = self.shared_cells(self.nodes)
        idx = 0
        for b, k in zip(kids, plan):
            if k == 1:
                if got[idx] is not b.obj:
                    self.fail("adjust/aligned-block-not-kept", "block %d of %r is %r, the aligned block %r should have been kept" % (idx, a.obj, got[idx], b.obj))
                    raise Stop()
                self.link(a, b)
            else:
                for j in range(k):
                    m = self.adopt(b, got[idx + j], "adjustResolution", {}, check_name=False)
                    self.link(a, m)
                self.out.label("adjust:split")
            idx += k
        if self.out.violations:
            raise Stop()
        return True

    def op_setChildren(self, r):
        cands = [p for p in self.nodes if p.cls in ("G", "B", "A") and (p.cls != "G" or self.depth(p) < MAX_DEPTH)]
        p = self.pick(cands, r["t"])
        if p is None or not self.room(30):
            return False
        old = self.kids(p)
        keep = [c for idx, c in enumerate(old) if (r["a"] >> idx) & 1]
        if keep:
            rot = r["b"] % len(keep)
            keep = keep[rot:] + keep[:rot]
        new = [self.new_child_for(p, r["a"] // 7 + 11 * i) for i in range(r["c"] % 3)]
        items = keep + new
        if r["f"]:
            items.reverse()
        p.obj.setChildren([c.obj for c in items])
        for c in old:
            self.unlink(c)
        for i, c in enumerate(items):
            self.link(p, c)
            self.locate(p, c, [(r["ijk"][0] + i) % 3, r["ijk"][1], (r["ijk"][2] + i) % 3])
        return True

    def sortable(self, n):
        """Siblings that mix Components with other composites have no consistent order (ArmiObject.__lt__ says
        'most objects, under most circumstances'); such subtrees are not sorted."""
        for x in self.subtree(n):
            kinds = {c.cls == "C" for c in self.kids(x)}
            if len(kinds) > 1:
                return False
            if len(x.children) > 1 and any(c.geom == "null" for c in self.kids(x)):
                return False  # a NullComponent has no bounding circle to compare with
        return True

    def op_sort(self, r):
        cands = [p for p in self.nodes if p.cls != "C" and self.sortable(p)]
        p = self.pick(cands, r["t"])
        if p is None:
            return False
        before = {x.nid: [(c.nid, self.sort_key(c)) for c in self.kids(x)] for x in self.subtree(p)}
        p.obj.sort()
        for x in self.subtree(p):
            got = list(x.obj)
            exp_ids = sorted(id(c.obj) for c in self.kids(x))
            if sorted(id(o) for o in got) != exp_ids:
                self.fail("sort/not-a-permutation", "children of %r after sort: %r, before: %r" % (x.obj, got, [c.obj for c in self.kids(x)]))
                raise Stop()
            if x.cls == "G" and all(c.cls == "G" for c in self.kids(x)):
                want = [nid for nid, _k in sorted(before[x.nid], key=lambda e: e[1])]  # stable
                if [self.by_id[id(o)].nid for o in got] != want:
                    self.fail("sort/generic-order", "children of %r sorted as %r, stable (k,j,i) order is %r"
                              % (x.obj, got, [self.nodes[i].obj for i in want]))
            x.children = [self.by_id[id(o)].nid for o in got]
        return True

    def sort_key(self, c):
        loc = c.obj.spatialLocator
        if loc is None or isinstance(loc, self.A.grids.CoordinateLocation):
            return (0, 0, 0)
        return (int(loc.k), int(loc.j), int(loc.i))

    def op_reestablish(self, r):
        p = self.pick([p for p in self.nodes if p.cls == "A"], r["t"])
        if p is None:
            return False
        p.obj.reestablishBlockOrder()
        return True

    def pin_grid(self, b):
        """HexBlock.autoCreateSpatialGrids (blueprints call it on new blocks): pins get one MultiIndexLocation, the
        others a CoordinateLocation in the new grid; 'Raises ValueError' for blocks that are not simple."""
        try:
            b.obj.autoCreateSpatialGrids()
        except ValueError:
            self.out.label("pinGrid:refused")
            return
        self.out.label("pinGrid:made")

    def op_pinGrid(self, r):
        b = self.pick([p for p in self.nodes if p.cls == "B" and p.geom == "hex" and p.obj.spatialGrid is None], r["t"])
        if b is None:
            return False
        self.pin_grid(b)
        return True

    def rotatable(self, n):
        """HexGrid.rotateIndex documents a TypeError for a location of another, inconsistent grid: only blocks whose
        children sit on the block's own pin grid (or on none) are rotated.  (replaceBlockWithBlock hands over components
        that sit on the temporary copy's grid, a removed pin keeps the cells of the grid it left.)"""
        multi = self.A.grids.MultiIndexLocation
        for b in ([n] if n.cls == "B" else self.kids(n)):
            g = b.obj.spatialGrid
            for c in self.kids(b):
                loc = c.obj.spatialLocator
                if loc is None:
                    continue
                if loc.grid is not None and loc.grid is not g:
                    return False
                if isinstance(loc, multi) and any(cell.grid is not loc.grid or cell.grid is not g for cell in loc):
                    return False
        return True

    def op_rotate(self, r):
        """HexBlock.rotate / HexAssembly.rotate by a multiple of 60 degrees (rebuilds the children's locations)."""
        import math

        n = self.pick([p for p in self.nodes if p.cls in ("A", "B") and p.geom == "hex" and self.rotatable(p)], r["t"])
        if n is None:
            return False
        n.obj.rotate((1 + r["a"] % 5) * math.pi / 3.0)
        if any(isinstance(c.obj.spatialLocator, self.A.grids.MultiIndexLocation) and c.obj.spatialLocator.grid is not None
               for x in self.subtree(n) if x.cls == "B" for c in self.kids(x)):
            self.out.label("rotate:pin-lattice")
        return True

    def op_replaceBlock(self, r):
        b = self.pick([p for p in self.nodes if p.cls == "B"], r["t"])
        if b is None or not self.room(20):
            return False
        rep = self.make_block(r["a"] if r["c"] % 3 else 0, b.geom)  # (0 = the pin block)
        if r["f"] and b.geom == "hex":
            self.pin_grid(rep)
        old = self.kids(b)
        b.obj.replaceBlockWithBlock(rep.obj)
        for c in old:
            self.unlink(c)
        got = list(b.obj)
        want = self.kids(rep)
        if len(got) != len(want) or any(type(g) is not type(w.obj) or g.name != w.obj.name for g, w in zip(got, want)):
            self.fail("replace/children-differ-from-replacement", "block has %r, replacement has %r" % (got, [w.obj for w in want]))
            raise Stop()
        self.pre_ids = set(self.by_id)
        self.pre_shared = self.shared_cells(self.nodes)
        for g in got:
            if id(g) in self.by_id:
                self.fail("replace/shares-node", "%r of the replaced block is an object that already existed" % (g,))
                raise Stop()
            self.check_links(g, "replaceBlockWithBlock")  # the new components are copies of the replacement's
            c = self.new_node(g, "C")
            c.tempgrid = True
            self.link(b, c)
        return True

    def op_coreRemove(self, r):
        cands = [a for a in self.nodes if a.cls == "A" and a.parent is not None and self.par(a).cls == "K" and self.in_reactor(self.par(a))]
        a = self.pick(cands, r["t"])
        if a is None:
            return False
        k = self.par(a)
        rr = self.par(k)
        sfp = [s for s in self.kids(rr) if s.cls == "S"]
        discharge = bool(r["f"])
        k.obj.removeAssembly(a.obj, discharge=discharge)
        self.unlink(a)
        if discharge and k.obj._trackAssems and sfp:
            self.link(sfp[0], a)  # "Discharge the assembly, including adding it to the SFP"
            self.out.label("sfp-discharge")
        return True

    def op_readd(self, r):
        roots = [c for c in self.nodes if c.parent is None and c.cls in ("G", "C", "B", "A")]
        det = [c for c in roots if c.detached]
        order = det if (det and r["c"] % 4) else roots
        if not order:
            return False
        start = r["t"] % len(order)
        for off in range(len(order)):
            c = order[(start + off) % len(order)]
            inside = {x.nid for x in self.subtree(c)}
            parents = [p for p in self.nodes if p.nid not in inside and self.accepts(p, c)]
            if not parents:
                continue
            p = parents[r["a"] % len(parents)]
            was_detached = c.detached
            if r["f"] and p.cls in ("G", "A"):
                self.do_insert(p, r["b"] % (len(p.children) + 1), c, r["ijk"])
            else:
                self.do_add(p, c, r["ijk"], pick=r["b"])
            if was_detached:
                self.nt_readd = True
                self.out.label("readd-of-removed:" + ("same-parent" if c.last == p.nid else "other-parent"))
            return True
        return False

    def op_copy(self, r, how):
        n = self.pick(self.nodes, r["t"])
        if r["c"] % 3 == 0:
            n = self.root(n)  # the whole tree
        elif r["c"] % 3 == 1:
            while not n.children and n.parent is not None:
                n = self.par(n)  # an inner node
        if len(self.nodes) + len(self.subtree(n)) > NODE_CAP:
            return False
        A = self.A
        if how == "deepcopy" and n.cls == "R" and n.obj.excore and EXCLUDE_KNOWN.get(SIG_EXCORE) and not self.case.get("noexclude"):
            self.out.label("excluded:" + SIG_EXCORE)
            how = "pickle"
        if how == "deepcopy":
            o2 = A.copy.deepcopy(n.obj)
        else:
            proto = (2, 4, A.pickle.HIGHEST_PROTOCOL)[r["a"] % 3]
            o2 = A.pickle.loads(A.pickle.dumps(n.obj, proto))
        self.out.label("copy:%s:%s" % (how, n.cls))
        mapping = {}
        self.pre_ids = set(self.by_id)
        self.pre_shared = self.shared_cells(self.nodes)
        m = self.adopt(n, o2, how, mapping)
        if o2.parent is not None:
            self.fail("copy/root-has-parent", "%s of %r has parent %r" % (how, n.obj, o2.parent))
        loc2 = o2.spatialLocator
        if loc2 is not None and loc2.grid is not None:
            # LocationBase.__getstate__: "Used in pickling and deepcopy, this detaches the grid" (the parent's grid is not
            # part of the copied subtree)
            self.fail("copy/root-locator-attached", "%s of %r: the copy's own locator %r has grid %r" % (how, n.obj, loc2, loc2.grid))
        for old, new in mapping.items():
            src = self.nodes[old]
            if src.cls == "K":
                self.nodes[new].locs = {cell: mapping[a] for cell, a in src.locs.items()}
            if src.cls == "R":
                self.check_reactor_links(src, self.nodes[new], mapping, how)
        if self.out.violations:
            raise Stop()  # one defect, one signature: do not also report the copy through the forest invariant
        if self.edits >= 2 and len(self.subtree(m)) >= 3:
            self.nt_copy = True
        return True

    def check_reactor_links(self, src, dst, mapping, how):
        core = [c for c in self.kids(dst) if c.cls == "K"]
        if core and dst.obj.core is not core[0].obj:
            self.fail("copy/reactor-core-not-relinked", "%s of a Reactor: copy.core is %r, its Core child is %r" % (how, dst.obj.core, core[0].obj))
        for key in sorted(src.obj.excore.keys()):
            orig = self.by_id.get(id(src.obj.excore[key]))
            if orig is None or orig.nid not in mapping:
                continue
            want = self.nodes[mapping[orig.nid]].obj
            got = dst.obj.excore.get(key)
            if got is not want:
                self.fail(SIG_EXCORE[4:], "%s of a Reactor: copy.excore.get(%r) is %r, expected its child %r"
                          % (how, key, got, want))

    def adopt(self, n, o2, how, mapping, check_name=True):
        """Walk the original (model) and the copy (armi) in parallel; register the copy in the model."""
        o = n.obj
        if type(o2) is not type(o):
            self.fail("copy/type-differs", "%s of %r is a %s" % (how, o, type(o2).__name__))
            raise Stop()
        if id(o2) in self.by_id:
            self.fail("copy/shares-node", "%s of %r contains the existing object %r" % (how, self.root(n).obj, o2))
            raise Stop()
        kids2 = list(o2)
        if len(kids2) != len(n.children):
            self.fail("copy/child-count-differs", "%s of %r has %d children, original %d" % (how, o, len(kids2), len(n.children)))
            raise Stop()
        renamed = how == "deepcopy" and n.cls in ("R", "K")  # Reactor/Core.__deepcopy__ append "-copy" on purpose
        if check_name and o2.name != (o.name + "-copy" if renamed else o.name):
            self.fail("copy/name-differs", "%s of %r is named %r" % (how, o, o2.name))
        m = self.new_node(o2, n.cls, n.geom)
        m.copied = True
        mapping[n.nid] = m.nid
        g, g2 = o.spatialGrid, o2.spatialGrid
        if (g is None) != (g2 is None):
            self.fail("copy/grid-presence-differs", "%s of %r: spatialGrid %r, original %r" % (how, o, g2, g))
        elif g is not None:
            if g2 is g:
                self.fail("copy/grid-shared", "%s of %r shares the spatialGrid with the original" % (how, o))
            if type(g2) is not type(g):
                self.fail("copy/grid-type-differs", "%s of %r: grid %r, original %r" % (how, o, g2, g))
            if g2.armiObject is not o2:
                self.fail("copy/grid-owner-not-copy", "%s of %r: copy.spatialGrid.armiObject is %r" % (how, o, g2.armiObject))
        for c, c2 in zip(self.kids(n), kids2):
            cm = self.adopt(c, c2, how, mapping)
            self.link(m, cm)
            if c2.parent is not o2:
                self.fail("copy/child-parent-not-copy", "%s of %r: child %r has parent %r" % (how, o, c2, c2.parent))
            l, l2 = c.obj.spatialLocator, c2.spatialLocator
            if type(l2) is not type(l) or self.loc_indices(l) != self.loc_indices(l2):
                self.fail("copy/locator-changed", "%s of %r: child %r locator %r, original %r" % (how, o, c2, l2, l))
            elif l is not None:
                if g is not None and l.grid is g and l2.grid is not g2:
                    self.fail("copy/child-locator-not-in-copy-grid", "%s of %r: locator of child %r has grid %r" % (how, o, c2, l2.grid))
                elif l2.grid is not None and l2.grid is not g2:
                    self.fail("copy/child-locator-foreign-grid", "%s of %r: locator of child %r has grid %r" % (how, o, c2, l2.grid))
                elif isinstance(l2, self.A.grids.MultiIndexLocation) and all(cell.grid is l.grid for cell in l) \
                        and not any(id(cell) in self.pre_shared for cell in l) and any(cell.grid is not l2.grid for cell in l2):
                    # "grids at the new owner": every cell of a multi-cell location follows the location, as in the original
                    # (MultiIndexLocation.detachedCopy keeps the cells of the grid it left: such a location is not judged)
                    self.fail("copy/multi-location-cell-not-in-copy-grid", "%s of %r: child %r sits on %r but its cells on %r"
                              % (how, o, c2, l2.grid, sorted({repr(cell.grid) for cell in l2})))
        if n.cls == "C":
            self.check_links(o2, how)
        return m

    def loc_indices(self, loc):
        if loc is None:
            return None
        if isinstance(loc, self.A.grids.MultiIndexLocation):
            return [(x.i, x.j, x.k) for x in loc]
        return (loc.i, loc.j, loc.k)

    def check_links(self, comp, how):
        """A copied component whose dimension is linked to another component must not point into an existing tree."""
        for dim in comp.DIMENSION_NAMES:
            val = comp.p[dim]
            if isinstance(val, self.A.DimensionLink) and id(val[0]) in self.pre_ids:
                self.fail("copy/linked-dimension-points-at-original", "%s: %r.%s is linked to the original %r" % (how, comp, dim, val[0]))

    def op_reject(self, r):
        """Documented refusals leave the tree as it was: adding/inserting a child twice (RuntimeError), a block of the
        wrong geometry into an assembly (TypeError)."""
        variant = r["a"] % 3
        if variant == 2:
            p = self.pick([p for p in self.nodes if p.cls == "A"], r["t"])
            if p is None or not self.room():
                return False
            wrong = self.make_block(r["b"], "cart" if p.geom == "hex" else "hex")
            try:
                if r["f"]:
                    p.obj.insert(r["c"] % (len(p.children) + 1), wrong.obj)
                else:
                    p.obj.add(wrong.obj)
            except TypeError:
                self.out.label("reject:wrong-block-type")
                return True
            self.fail("reject/wrong-block-type-accepted", "%r accepted %r" % (p.obj, wrong.obj))
            raise Stop()
        cands = [p for p in self.nodes if p.children and p.cls in ("G", "B", "A", "S")]
        p = self.pick(cands, r["t"])
        if p is None:
            return False
        c = self.kids(p)[r["b"] % len(p.children)]
        try:
            if variant == 1 and p.cls in ("G", "A"):
                p.obj.insert(r["c"] % (len(p.children) + 1), c.obj)
            else:
                p.obj.add(c.obj)
        except RuntimeError:
            self.out.label("reject:duplicate-child")
            return True
        self.fail("reject/duplicate-child-accepted", "%r accepted its own child %r a second time" % (p.obj, c.obj))
        raise Stop()

    # ---- invariant -------------------------------------------------------------------------------------
    def shared_cells(self, nodes):
        """ids of location cells that occur in multi-cell locations under more than one parent.  A removed pin keeps
        the very cell objects of the lattice it left (MultiIndexLocation.detachedCopy); after it is re-added elsewhere
        and the tree is pickled, whichever grid is restored last owns those cells.  Such locations are not judged."""
        multi = self.A.grids.MultiIndexLocation
        owner, shared = {}, set()
        if not SHARED_CELL_EXEMPTION:
            return shared
        for n in nodes:
            loc = n.obj.spatialLocator
            if isinstance(loc, multi):
                key = n.parent if n.parent is not None else -1 - n.nid
                for cell in loc:
                    if owner.setdefault(id(cell), key) != key:
                        shared.add(id(cell))
        # ... and the lattice it left keeps them in its own registry: its __setstate__ claims them back
        for n in nodes:
            g = n.obj.spatialGrid
            if g is not None and n.cls == "B":
                for _ijk, cell in g.items():
                    owner[("grid", id(cell))] = g
        for n in nodes:
            loc = n.obj.spatialLocator
            if isinstance(loc, multi):
                for cell in loc:
                    if owner.get(("grid", id(cell)), loc.grid) is not loc.grid:
                        shared.add(id(cell))
        return shared

    def check_all(self):
        shared = self.shared_cells(self.nodes)
        registered = {}
        for n in self.nodes:
            g = n.obj.spatialGrid
            if g is not None and n.cls == "B":
                for _ijk, cell in g.items():
                    registered[id(cell)] = g
        for n in self.nodes:
            o = n.obj
            got = list(o)
            exp = [self.nodes[c].obj for c in n.children]
            if len(got) != len(exp) or any(a is not b for a, b in zip(got, exp)):
                self.fail("tree/child-list-differs", "children of %r are %r, model says %r" % (o, got, exp))
                raise Stop()
            if len(set(id(x) for x in got)) != len(got):
                self.fail("tree/duplicate-child", "%r lists a child twice: %r" % (o, got))
            if len(o) != len(exp):
                self.fail("tree/len-differs", "len(%r) = %d, %d children" % (o, len(o), len(exp)))
            for c in got:
                if c.parent is not o:
                    self.fail("tree/child-parent-not-node", "%r is a child of %r but its parent is %r" % (c, o, c.parent))
            if n.parent is None and o.parent is not None:
                self.fail("tree/detached-has-parent" if n.detached else "tree/root-has-parent",
                          "%r is in no child list but has parent %r" % (o, o.parent))
            loc = o.spatialLocator
            if n.detached and (loc is None or loc.grid is not None):
                self.fail("tree/detached-locator-attached", "%r was removed; its locator %r still has grid %r" % (o, loc, getattr(loc, "grid", None)))
            elif n.detached and isinstance(loc, self.A.grids.MultiIndexLocation):
                # "a detached location": every cell of a multi-cell location is detached too, and is a cell of its own
                # (not one of the cell objects that a pin lattice keeps in its registry)
                bad = [cell for cell in loc if cell.grid is not None or id(cell) in registered]
                if bad:
                    g0 = bad[0].grid if bad[0].grid is not None else registered[id(bad[0])]
                    self.fail("tree/detached-location-cells-attached", "%r was removed; %d of the %d cells of its location still belong to a grid (the %s of %r)"
                              % (o, len(bad), len(loc), type(g0).__name__, g0.armiObject))
            g = o.spatialGrid
            if g is not None and g.armiObject is not o:
                self.fail("tree/grid-owner", "%r.spatialGrid.armiObject is %r" % (o, g.armiObject))
            if n.parent is not None and loc is not None and loc.grid is not None and not n.detached and isinstance(loc, self.A.grids.MultiIndexLocation):
                if any(cell.grid is not loc.grid for cell in loc) and not any(id(cell) in shared for cell in loc):
                    self.fail("tree/multi-location-cell-grid", "%r: cells of its multi-cell location belong to %r, the location to %r"
                              % (o, [cell.grid for cell in loc][:2], loc.grid))
            if n.parent is not None and loc is not None and loc.grid is not None and loc.grid is not self.par(n).obj.spatialGrid and not n.tempgrid:
                self.fail("tree/locator-foreign-grid", "locator of %r belongs to the grid of %r, parent is %r" % (o, loc.grid.armiObject, o.parent))
        if self.out.violations:
            raise Stop()

    # ---- traversal queries -----------------------------------------------------------------------------
    def naive_gen(self, n, g):
        if g == 1:
            return self.kids(n)
        res = []
        for c in self.kids(n):
            res.extend(self.naive_gen(c, g - 1))
        return res

    def naive_components(self, n, spec, exact):
        if n.cls == "C":
            return [n] if ref_has_flags(ref_flags(self.A, n.obj), spec, exact) else []
        res = []
        for c in self.kids(n):
            res.extend(self.naive_components(c, spec, exact))
        return res

    def check_exact(self, got, want_nodes, sig, what):
        want = [w.obj for w in want_nodes]
        if len(got) != len(want) or any(a is not b for a, b in zip(got, want)):
            self.fail(sig, "%s returned %r, naive walk gives %r" % (what, got, want))
            return False
        return True

    def check_deep(self, got, top, keep, sig, what):
        """Every descendant of ``top`` passing ``keep`` exactly once; siblings in child order."""
        desc = [x for x in self.subtree(top)[1:] if keep(x.obj)]
        ids = [id(o) for o in got]
        if len(set(ids)) != len(ids):
            self.fail(sig + "-duplicates", "%s returned an object twice: %r" % (what, got))
            return
        if set(ids) != {id(x.obj) for x in desc}:
            self.fail(sig + "-set-differs", "%s returned %r, descendants are %r" % (what, got, [x.obj for x in desc]))
            return
        pos = {i: k for k, i in enumerate(ids)}
        for x in self.subtree(top):
            order = [pos[id(c.obj)] for c in self.kids(x) if id(c.obj) in pos]
            if order != sorted(order):
                self.fail(sig + "-sibling-order", "%s: children of %r come out of child order: %r" % (what, x.obj, got))
                return

    def strip_materials(self, got, sig, what):
        """[c0, c1, m1, ...] -> [c0, c1, ...]; the material follows its component."""
        res = []
        i = 0
        while i < len(got):
            x = got[i]
            if id(x) not in self.by_id:
                self.fail(sig, "%s: %r is neither a descendant nor the material of the preceding one: %r" % (what, x, got))
                return None
            res.append(x)
            mat = getattr(x, "material", None)
            if mat is not None:
                if i + 1 >= len(got) or got[i + 1] is not mat:
                    self.fail(sig, "%s: %r is not followed by its material: %r" % (what, x, got))
                    return None
                i += 1
            i += 1
        return res

    def decode_spec(self, x):
        """-> (model spec, armi spec, exact)"""
        form = x % 4
        exact = bool((x // 4) % 2)
        x //= 8
        if form == 0:
            return None, None, exact
        cands = []
        for _ in range(form):
            names = set()
            size = 1 + x % 2
            x //= 2
            for _i in range(size):
                names.add(FLAG_POOL[x % len(FLAG_POOL)])
                x //= len(FLAG_POOL)
            cands.append(frozenset(names))
        if form == 1 and x % 2 == 0:
            return cands[0], self.flags_of(cands[0]), exact
        return cands, [self.flags_of(c) for c in cands], exact

    def spec_text(self, spec, exact):
        def one(c):
            return "|".join(sorted(c))

        txt = "None" if spec is None else ("[%s]" % ", ".join(one(c) for c in spec) if isinstance(spec, list) else one(spec))
        return "%s, exact=%s" % (txt, exact)

    def expect_one(self, call, items, sig, what):
        """0 matches -> None, 1 -> the object, more -> ValueError (getComponent / getComponentByName)."""
        try:
            got = call()
        except ValueError:
            if len(items) <= 1:
                raise
            return
        if len(items) > 1:
            self.fail(sig, "%s: %d objects match but %r was returned instead of ValueError" % (what, len(items), got))
        elif got is not (items[0].obj if items else None):
            self.fail(sig, "%s gives %r, naive walk gives %r" % (what, got, [x.obj for x in items]))

    def class_queries(self, n, mspec, aspec, exact, stext, tname, wantc, sw, keep, pred, pname):
        """The flag/type filtering wrappers of Composite, Assembly and Core, against the same naive walk."""
        A = self.A
        o = n.obj
        kids = self.kids(n)
        flags = lambda x: ref_flags(A, x.obj)  # noqa: E731
        wrap = lambda x: True if mspec is None else ref_has_flags(flags(x), mspec, exact)  # noqa: E731  (None = no filter)
        loose = lambda x: ref_has_flags(flags(x), mspec, False)  # noqa: E731
        # -- any composite: component wrappers
        self.expect_one(lambda: o.getComponent(aspec, exact=exact, quiet=bool(sw & 32)), wantc, "query/getComponent", "getComponent(%s) of %r" % (stext, o))
        got = o.getNumComponents(aspec, exact)
        want = sum(int(c.obj.getDimension("mult")) for c in wantc)
        if got != want:
            self.fail("query/getNumComponents", "getNumComponents(%s) of %r is %r, the matching components %r have %r" % (stext, o, got, [c.obj for c in wantc], want))
        if isinstance(mspec, list):
            want = all(self.naive_components(n, cand, exact) for cand in mspec)
            if bool(o.hasComponents(aspec, exact)) != want:
                self.fail("query/hasComponents", "hasComponents(%s) of %r is %s" % (stext, o, not want))
        allc = self.naive_components(n, None, False)
        if o.getComponentNames() != {c.obj.name for c in allc}:
            self.fail("query/getComponentNames", "getComponentNames() of %r is %r, components are %r" % (o, o.getComponentNames(), [c.obj for c in allc]))
        circle = A.components.Circle
        self.check_exact(o.getComponentsOfShape(circle), [c for c in allc if isinstance(c.obj, circle)], "query/getComponentsOfShape", "getComponentsOfShape(Circle) of %r" % (o,))
        if allc:
            cname = allc[len(stext) % len(allc)].obj.name
            self.expect_one(lambda: o.getComponentByName(cname), [c for c in allc if c.obj.name == cname], "query/getComponentByName", "getComponentByName(%r) of %r" % (cname, o))
        bools = [loose(c) for c in kids]
        if list(o.doChildrenHaveFlags(aspec)) != bools or bool(o.containsAtLeastOneChildWithFlags(aspec)) != any(bools) \
                or bool(o.containsOnlyChildrenWithFlags(aspec)) != all(bools):
            self.fail("query/childrenHaveFlags", "doChildrenHaveFlags/containsAtLeastOne/containsOnly(%s) of %r disagree with the children's flags %r"
                      % (stext, o, [sorted(flags(c)) for c in kids]))
        got = list(o.doChildrenHaveFlags(aspec, deep=True))  # order of a deep walk is not promised: one entry per descendant
        want = [loose(x) for x in self.subtree(n)[1:]]
        if sorted(got) != sorted(want):
            self.fail("query/childrenHaveFlags-deep", "doChildrenHaveFlags(%s, deep=True) of %r gives %d entries (%d True), the %d descendants have %d matches"
                      % (stext, o, len(got), sum(got), len(want), sum(want)))
        if n.cls != "R":
            self.check_exact(list(o.iterChildrenOfType(tname)), [c for c in kids if c.obj.p.type == tname], "query/getChildrenOfType", "iterChildrenOfType(%r) of %r" % (tname, o))
        self.gate()
        if n.cls == "A":
            want = [c for c in kids if wrap(c)]
            self.check_exact(o.getBlocks(aspec, exact), want, "query/assembly-getBlocks", "Assembly.getBlocks(%s) of %r" % (stext, o))
            self.check_exact(list(o.iterBlocks(aspec, exact)), want, "query/assembly-getBlocks", "Assembly.iterBlocks(%s) of %r" % (stext, o))
            got = o.getFirstBlock(aspec, exact)
            if got is not (want[0].obj if want else None):
                self.fail("query/assembly-getFirstBlock", "Assembly.getFirstBlock(%s) of %r gives %r, naive walk %r" % (stext, o, got, [c.obj for c in want]))
            bot, top = bool(sw & 64), bool(sw & 128) and not (sw & 64)
            pairs = list(o.getBlocksAndZ(aspec, returnBottomZ=bot, returnTopZ=top))
            zs, z0 = [], 0.0
            for c in kids:
                z1 = z0 + c.obj.getHeight()
                if loose(c):
                    zs.append(z0 if bot else z1 if top else (z0 + z1) / 2.0)
                z0 = z1
            if self.check_exact([b for b, _z in pairs], [c for c in kids if loose(c)], "query/assembly-getBlocksAndZ", "Assembly.getBlocksAndZ(%s) of %r" % (stext, o)):
                if [z for _b, z in pairs] != zs:
                    self.fail("query/assembly-getBlocksAndZ", "Assembly.getBlocksAndZ(%s, bottom=%s, top=%s) of %r: z %r, stacked heights give %r" % (stext, bot, top, o, [z for _b, z in pairs], zs))
            want = 0.0
            for c in kids:
                if loose(c):
                    want += c.obj.getHeight()
            if o.getTotalHeight(aspec) != want or o.getHeight(aspec) != want:
                self.fail("query/assembly-getTotalHeight", "getTotalHeight(%s) of %r is %r, matching blocks add up to %r" % (stext, o, o.getTotalHeight(aspec), want))
            if o.countBlocksWithFlags(aspec) != sum(1 for c in kids if loose(c)):
                self.fail("query/assembly-countBlocksWithFlags", "Assembly.countBlocksWithFlags(%s) of %r is %r" % (stext, o, o.countBlocksWithFlags(aspec)))
            typed = [c for c in kids if c.obj.p.type == tname]
            got = o.getFirstBlockByType(tname)
            if got is not (typed[0].obj if typed else None):
                self.fail("query/assembly-getFirstBlockByType", "getFirstBlockByType(%r) of %r gives %r" % (tname, o, got))
        elif n.cls == "K":
            blocks = self.naive_gen(n, 2)
            self.check_exact(list(o.iterBlocks(aspec, exact)), [b for b in blocks if wrap(b)], "query/core-iterBlocks", "Core.iterBlocks(%s) of %r" % (stext, o))
            hit = [b for b in blocks if ref_has_flags(flags(b), mspec, exact)]
            got = o.getFirstBlock(aspec, exact)
            if got is not (hit[0].obj if hit else None):
                self.fail("query/core-getFirstBlock", "Core.getFirstBlock(%s) of %r gives %r, naive walk %r" % (stext, o, got, [b.obj for b in hit[:3]]))
            # getAssemblies/getBlocks return the assemblies in location order: compared as sets, each once
            inc_sfp, inc_all, inc_bol = bool(sw & 2), bool(sw & 4), bool(sw & 8)
            kw = {"includeSFP": inc_sfp, "includeAll": inc_all, "includeBolAssems": inc_bol}  # (the blueprints hold no assemblies)
            if sw & 16:
                kw["sortKey"] = lambda a: a.getName()
            pool = []
            if (inc_sfp or inc_all) and self.in_reactor(n):
                pool = [a for sfp in self.kids(self.par(n)) if sfp.cls == "S" for a in self.kids(sfp)]
                if pool:
                    self.out.label("query:core+pool")
            ktext = "includeSFP=%s, includeAll=%s, includeBolAssems=%s, sortKey=%s" % (inc_sfp, inc_all, inc_bol, bool(sw & 16))
            got = o.getAssemblies(typeSpec=aspec, exact=exact, **kw)
            want = [a for a in kids + pool if wrap(a)]
            if sorted(id(x) for x in got) != sorted(id(a.obj) for a in want):
                self.fail("query/core-getAssemblies", "Core.getAssemblies(%s, %s) of %r returned %r, core%s children matching are %r"
                          % (stext, ktext, o, got, " and pool" if pool else "", [a.obj for a in want]))
            got = o.getBlocks(aspec, **kw)
            want = [b for a in kids + pool for b in self.kids(a) if loose(b)]
            if sorted(id(x) for x in got) != sorted(id(b.obj) for b in want):
                self.fail("query/core-getBlocks", "Core.getBlocks(%s, %s) of %r returned %r, naive walk %r" % (stext, ktext, o, got, [b.obj for b in want]))
            # block type and assembly type filters together (the assembly filter goes through getAssemblies)
            got = o.getBlocks(None, typeSpec=aspec, exact=exact, **kw)
            want = [b for a in kids + pool if wrap(a) for b in self.kids(a)]
            if sorted(id(x) for x in got) != sorted(id(b.obj) for b in want):
                self.fail("query/core-getBlocks", "Core.getBlocks(None, typeSpec=%s, %s) of %r returned %r, naive walk %r" % (stext, ktext, o, got, [b.obj for b in want]))
            self.check_exact(o.getAssembliesOfType(aspec, exactMatch=exact), [a for a in kids if ref_has_flags(flags(a), mspec, exact)],
                             "query/core-getAssembliesOfType", "Core.getAssembliesOfType(%s) of %r" % (stext, o))
            self.check_exact(list(o.iterBlocks(aspec, exact, predicate=pred)), [b for b in blocks if wrap(b) and keep(b.obj)], "query/core-iterBlocks",
                             "Core.iterBlocks(%s, predicate=%s) of %r" % (stext, pname, o))
            if self.in_reactor(n):  # ring queries need the assemblies' place in the core grid
                ring = 1 + (sw >> 10) % 3
                excl = [a for idx, a in enumerate(kids) if (sw >> 9) & 1 and idx % 2 == 0]
                cell = {nid: c for c, nid in n.locs.items()}
                want = [a for a in kids if a not in excl and 1 + _hexdist(*cell[a.nid]) == ring and wrap(a)]
                got = o.getAssembliesInRing(ring, typeSpec=aspec, exactType=exact, exclusions=[a.obj for a in excl] or None)
                self.check_exact(got, want, "query/core-getAssembliesInRing", "Core.getAssembliesInRing(%d, %s, %d exclusions) of %r" % (ring, stext, len(excl), o))
            sel = [a for a in kids if mspec is None or loose(a)]  # assemTypeSpec goes through getAssemblies(typeSpec), inexact
            want = max([len(a.children) for a in sel] or [0])
            if o.countBlocksWithFlags(None, assemTypeSpec=aspec) != want:
                self.fail("query/core-countBlocksWithFlags", "Core.countBlocksWithFlags(None, assemTypeSpec=%s) of %r is %r, expected %r"
                          % (stext, o, o.countBlocksWithFlags(None, assemTypeSpec=aspec), want))
            if mspec is not None:
                hit = [a for a in kids if ref_has_flags(flags(a), mspec, exact)]
                got = o.getFirstAssembly(aspec, exact)
                if got is not (hit[0].obj if hit else None):
                    self.fail("query/core-getFirstAssembly", "Core.getFirstAssembly(%s) of %r gives %r, naive walk %r" % (stext, o, got, [a.obj for a in hit[:3]]))
            want = max([sum(1 for b in self.kids(a) if loose(b)) for a in kids] or [0])
            if o.countBlocksWithFlags(aspec) != want:
                self.fail("query/core-countBlocksWithFlags", "Core.countBlocksWithFlags(%s) of %r is %r, expected %r" % (stext, o, o.countBlocksWithFlags(aspec), want))

    def queries(self, q):
        A = self.A
        n = self.nodes[q[0] % len(self.nodes)]
        o = n.obj
        kids = self.kids(n)
        # -- direct children, all spellings
        self.check_exact(o.getChildren(), kids, "query/getChildren", "getChildren()")
        self.gate()
        self.check_exact(list(o.iterChildren()), kids, "query/iterChildren", "iterChildren()")
        self.check_exact([o[i] for i in range(len(o))], kids, "query/getitem", "node[i]")
        for c in kids[:3]:
            if c.obj not in o:
                self.fail("query/contains", "%r in %r is False" % (c.obj, o))
        other = self.nodes[q[5] % len(self.nodes)]
        if (other.obj in o) != (other.parent == n.nid):
            self.fail("query/contains", "%r in %r is %s" % (other.obj, o, other.obj in o))
        self.gate()
        # -- predicate family
        with_types = n.cls != "R"  # Core/SFP/Reactor objects have no ``type`` parameter
        types = sorted({x.obj.p.type for x in self.subtree(n)[1:]} | {"nope"}) if with_types else ["nope"]
        tname = types[q[4] % len(types)]
        fuel = A.Flags.FUEL
        preds = [
            ("None", None),
            ("has children", lambda x: len(x) > 0),
            ("is Component", lambda x: isinstance(x, A.components.Component)),
            ("FUEL bit set", lambda x: bool(x.p.flags) and int(x.p.flags) & int(fuel) != 0),
            ("odd name length", lambda x: len(x.name) % 2 == 1),
            ("never", lambda x: False),
        ]
        if with_types:
            preds.append(("type == %r" % tname, lambda x: x.p.type == tname))
        pname, pred = preds[q[2] % len(preds)]
        keep = pred or (lambda x: True)
        deep = bool(q[1] % 2)
        gen = 1 + (q[1] // 2) % 4
        mats = bool((q[1] // 8) % 2)
        # -- deep
        what = "getChildren(deep=True, includeMaterials=%s, predicate=%s) of %r" % (mats, pname, o)
        got = o.getChildren(deep=True, includeMaterials=mats, predicate=pred)
        if not mats:
            it = list(o.iterChildren(deep=True, predicate=pred))
            if len(it) != len(got) or any(a is not b for a, b in zip(it, got)):
                self.fail("query/iter-vs-get-deep", "%s: iterChildren gives %r, getChildren %r" % (what, it, got))
        else:
            got = self.strip_materials(got, "query/materials-deep", what)
        if got is not None:
            self.check_deep(got, n, keep, "query/deep", what)
        self.gate()
        # -- one generation
        what = "getChildren(generationNum=%d, includeMaterials=%s, predicate=%s) of %r" % (gen, mats, pname, o)
        got = o.getChildren(generationNum=gen, includeMaterials=mats, predicate=pred)
        if mats:
            got = self.strip_materials(got, "query/materials-generation", what)
        if got is not None:
            self.check_exact(got, [x for x in self.naive_gen(n, gen) if keep(x.obj)], "query/generation", what)
        it = list(o.iterChildren(generationNum=gen, predicate=pred))
        self.check_exact(it, [x for x in self.naive_gen(n, gen) if keep(x.obj)], "query/generation", "iterChildren(generationNum=%d, predicate=%s) of %r" % (gen, pname, o))
        self.gate()
        # -- flags
        mspec, aspec, exact = self.decode_spec(q[3])
        stext = self.spec_text(mspec, exact)
        want = ref_has_flags(ref_flags(A, o), mspec, exact)
        if bool(o.hasFlags(aspec, exact=exact)) != want:
            self.fail("query/hasFlags", "%r with flags %s: hasFlags(%s) is %s" % (o, sorted(ref_flags(A, o)), stext, not want))
        self.gate()
        wantkids = [c for c in kids if ref_has_flags(ref_flags(A, c.obj), mspec, exact)]
        self.check_exact(o.getChildrenWithFlags(aspec, exactMatch=exact), wantkids, "query/getChildrenWithFlags", "getChildrenWithFlags(%s) of %r" % (stext, o))
        self.check_exact(list(o.iterChildrenWithFlags(aspec, exactMatch=exact)), wantkids, "query/getChildrenWithFlags", "iterChildrenWithFlags(%s) of %r" % (stext, o))
        if with_types:
            wantkids = [c for c in kids if c.obj.p.type == tname]
            self.check_exact(o.getChildrenOfType(tname), wantkids, "query/getChildrenOfType", "getChildrenOfType(%r) of %r" % (tname, o))
        self.gate()
        # -- leaf components
        wantc = self.naive_components(n, mspec, exact)
        self.check_exact(o.getComponents(aspec, exact), wantc, "query/getComponents", "getComponents(%s) of %r" % (stext, o))
        self.check_exact(list(o.iterComponents(aspec, exact)), wantc, "query/getComponents", "iterComponents(%s) of %r" % (stext, o))
        self.gate()
        self.class_queries(n, mspec, aspec, exact, stext, tname, wantc, q[4] // 16, keep, pred, pname)
        for k in self.nodes:  # the Core-level wrappers (include* switches, pool) on every core, every step
            if k.cls == "K" and k is not n:
                self.class_queries(k, mspec, aspec, exact, stext, tname, self.naive_components(k, mspec, exact), q[4] // 16, keep, pred, pname)
        self.gate()
        # -- ancestors
        chain = self.chain(n)
        target = other
        fn_kind = q[5] // 7 % 4
        if fn_kind == 0:
            fname, fn, hit = "is %r" % (target.obj,), (lambda x: x is target.obj), (lambda m: m is target)
        elif fn_kind == 1:
            cls = "GCBAKSR"[q[5] // 28 % 7]
            klass = A.classes[cls]
            fname, fn, hit = "isinstance %s" % klass.__name__, (lambda x: isinstance(x, klass)), (lambda m: m.cls == cls)
        elif fn_kind == 2:
            fname, fn, hit = "never", (lambda x: False), (lambda m: False)
        else:
            fname, fn, hit = "has children", (lambda x: len(x) > 0), (lambda m: bool(m.children))
        exp = next(((m, d) for d, m in enumerate(chain) if hit(m)), None)
        got = o.getAncestor(fn)
        if got is not (exp[0].obj if exp else None):
            self.fail("query/getAncestor", "getAncestor(%s) of %r gives %r, parent chain gives %r" % (fname, o, got, exp and exp[0].obj))
        got = o.getAncestorAndDistance(fn)
        if (got is None) != (exp is None) or (exp is not None and (got[0] is not exp[0].obj or got[1] != exp[1])):
            self.fail("query/getAncestorAndDistance", "getAncestorAndDistance(%s) of %r gives %r, parent chain gives %r"
                      % (fname, o, got, exp and (exp[0].obj, exp[1])))
        exp = next((m for m in chain if ref_has_flags(ref_flags(A, m.obj), mspec, exact)), None)
        got = o.getAncestorWithFlags(aspec, exactMatch=exact)
        if got is not (exp.obj if exp else None):
            self.fail("query/getAncestorWithFlags", "getAncestorWithFlags(%s) of %r gives %r, parent chain gives %r" % (stext, o, got, exp and exp.obj))
        self.gate()
        # -- whole trees: every root, all descendants and all leaf components
        for rt in self.nodes:
            if rt.parent is None and rt.children:
                self.check_deep(rt.obj.getChildren(deep=True), rt, lambda x: True, "query/deep", "getChildren(deep=True) of root %r" % (rt.obj,))
                self.check_exact(rt.obj.getComponents(), self.naive_components(rt, None, False), "query/getComponents", "getComponents() of root %r" % (rt.obj,))
        if self.out.violations:
            raise Stop()

    # ---- driver ----------------------------------------------------------------------------------------
    def run(self):
        out = self.out
        self.build_initial()
        self.check_all()
        self.queries([0, 1, 0, 0, 0, 0])
        enabled = set(self.case["enabled"])
        done = 0
        for self.step, r in enumerate(self.case["ops"]):
            op = r["op"]
            if op not in enabled:  # (hand-edited replay files)
                continue
            self.opname = op
            touched_copy = any(n.copied for n in self.nodes)
            if op in ("deepcopy", "pickle"):
                ok = self.op_copy(r, op)
            else:
                ok = getattr(self, "op_" + op)(r)
            if ok:
                done += 1
                out.label("op:" + op)
                if op in STRUCTURAL:
                    self.edits += 1
                    if touched_copy:
                        out.label("edit-after-copy")
            else:
                out.label("skip:" + op)
            self.check_all()
            self.queries(r["q"])
        out.label("executed:%s" % ("0" if done == 0 else "1-5" if done <= 5 else "6-15" if done <= 15 else "16-40"))
        out.label("nodes:%s" % ("<10" if len(self.nodes) < 10 else "10-39" if len(self.nodes) < 40 else "40-99" if len(self.nodes) < 100 else "100+"))


def execute(case):
    out = Out()
    out.label("kind:" + case["kind"])
    it = Interp(case, out)
    try:
        it.run()
    except Stop:
        pass
    out.nontrivial = len(it.nodes) >= 3 and (it.nt_readd or it.nt_copy)
    if it.nt_readd:
        out.label("nt:remove-readd")
    if it.nt_copy:
        out.label("nt:copy-after-2-edits")
    return out


PARTS = [
    Part(
        "programs",
        execute,
        strategy=program_strategy,
        budget={"quick": 1500, "thorough": 60000},
        procs={"quick": 8, "thorough": 16},
        rule="Hypothesis: programs of 1..40 edit operations (random subset of enabled kinds per program, targets = integers "
             "modulo the currently valid objects) over four forests: generic composites (depth <= 4, with/without grids, "
             "component leaves), hex/Cartesian blocks of components, hex/Cartesian assemblies of blocks, a Reactor with a hex "
             "Core of assemblies and a spent fuel pool.  After every step: every child list / parent pointer / detached "
             "locator / grid owner against the reference model, and getChildren/iterChildren (deep, generation 1..4, "
             "predicates, materials), flag, type, component and ancestor queries against a naive walk; copies and "
             "unpickled subtrees are walked in parallel with their originals and then join the forest.  Non-trivial = "
             ">= 3 objects and (a removed object re-added under a parent, or a copy/pickle after >= 2 structural edits).",
    ),
]
