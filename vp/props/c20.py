"""C20 - XS groups partition the blocks; representative blocks are true averages.

Three parts:

* ``labels``      complete enumeration of all one- and two-letter XS type labels over the admissible alphabet
                  (``_ALLOWABLE_XS_TYPE_LIST`` = A-Z a-z): label -> number -> label and injectivity; the
                  environment-group letter <-> number map as well.
* ``collections`` generated sets of 1-12 blocks x representation option x valid-block-type filter; the
                  representative block is compared with numpy weighted means computed from a plain-data snapshot
                  of the member blocks.
* ``grouping``    a generated core + ``CrossSectionGroupManager``: ``makeCrossSectionGroups`` partitions the core
                  by micro suffix with environment groups given by the burnup / temperature boundaries, and
                  ``createRepresentativeBlocks`` gives the same representatives as the oracle without touching
                  the core.
"""
import math

from hypothesis import strategies as st

from vp.runner import Out, Part

PROPERTY = "C20"
LEVEL = "exploration"
ASSUMPTIONS = [
    "component volume, area, mass and the per-component number-density dictionaries reported by armi are trusted "
    "(they are the subject of C02/C03); block volume is re-derived as the sum of component volumes divided by armi's "
    "own symmetry factor (full-core and third-core layouts incl. the centre block, factor 3)",
    "weighted means recomputed with numpy in float64 are compared with rel 1e-10 (all terms non-negative, <= 24 members)",
    "admissible XS type alphabet = crossSectionGroupManager._ALLOWABLE_XS_TYPE_LIST (A-Z, a-z; "
    "getNextAvailableXsTypes hands out lower-case types itself); digits named in doc/user/inputs.rst are refused by "
    "getXSTypeLabelFromNumber with a documented ValueError and are not asserted",
    "for an even number of candidates either middle member is accepted as 'the median' (armi takes the upper one)",
    "blocks are built from blueprint text (reactors.factory) and then edited through the public setters "
    "(setTemperature / temperatureInC, setNumberDensity, b.p.<param>)",
    "manager level: envGroup/envGroupNum of core blocks are allowed to change (documented refresh of environment "
    "groups and re-homing of unrepresented groups); everything else must stay",
]

# known candidate defects on the unchanged tree; the generators avoid these shapes by construction while True
EXCLUDE_KNOWN = {
    # all three were repaired in /repo (fix: commits 81362b1, 62a826e, 31b6123): the shapes are searched again
    "labels/number-to-label-assumes-two-2digit-codes-above-Z": False,
    "avg/burnup-includes-ineligible-members": False,
    "uncaught/AttributeError/armi/physics/neutronics/crossSectionGroupManager.py:_makeRepresentativeBlock": False,
}
SIG_LABEL = "labels/number-to-label-assumes-two-2digit-codes-above-Z"
SIG_BURNUP = "avg/burnup-includes-ineligible-members"
SIG_MEDIAN_LFP = "uncaught/AttributeError/armi/physics/neutronics/crossSectionGroupManager.py:_makeRepresentativeBlock"

REL = 1e-10
UPPER = "ABCDEFGHIJKLMNOPQRSTUVWXYZ"
LOWER = "abcdefghijklmnopqrstuvwxyz"
ALPHABET = UPPER + LOWER
TRACE = 1.0e-50  # armi.utils.units.TRACE_NUMBER_DENSITY (documented trace value), checked against armi in execute


def _close(a, b, rel=REL):
    a = float(a)
    b = float(b)
    return abs(a - b) <= rel * max(abs(a), abs(b)) + 1e-300


# ================================================================================================
# part 1: labels


def labels_enum(tier):
    ex = bool(EXCLUDE_KNOWN.get(SIG_LABEL))
    cases = [{"kind": "single", "first": "", "excludeKnown": ex}]
    for ch in ALPHABET:
        cases.append({"kind": "double", "first": ch, "excludeKnown": ex})
    cases.append({"kind": "all-numbers", "first": "", "excludeKnown": ex})
    cases.append({"kind": "env", "first": "", "excludeKnown": ex})
    return cases


def _label_shape_known(label):
    """The reproduced defect: any number > ord('Z') is split as two 2-digit codes."""
    if len(label) == 1:
        return label in LOWER
    return ord(label[0]) >= 100  # first code has three digits (d..z)


def labels_execute(case):
    from armi.physics.neutronics import crossSectionGroupManager as xsgm
    from armi.reactor import blocks

    out = Out()
    kind = case["kind"]
    admissible = list(xsgm._ALLOWABLE_XS_TYPE_LIST)
    out.check(sorted(admissible) == sorted(ALPHABET), "labels/alphabet-changed",
              lambda: "the admissible alphabet is %r, the enumeration assumes A-Z a-z" % "".join(admissible))
    if kind == "env":
        # environment group letter <-> number (blockParameters setters): 52 letters, 0..51
        p = blocks.HexBlock("c20env").p
        out.evals = 52
        out.nontrivial_count = 52
        seen = {}
        for want, ch in enumerate(ALPHABET):
            p.envGroup = ch
            num = p.envGroupNum
            out.check(num == want, "env/letter-to-number", lambda: "envGroup %r -> envGroupNum %r, expected %d" % (ch, num, want))
            out.check(num not in seen, "env/letter-to-number-collision", lambda: "%r and %r share %r" % (ch, seen.get(num), num))
            seen[num] = ch
            p.envGroup = "A"
            p.envGroupNum = want
            back = p.envGroup
            out.check(back == ch, "env/number-to-letter", lambda: "envGroupNum %d -> envGroup %r, expected %r" % (want, back, ch))
        return out
    if kind == "all-numbers":
        # distinct labels give distinct numbers, over the whole one- and two-letter domain at once
        labels = list(ALPHABET) + [a + b for a in ALPHABET for b in ALPHABET]
        out.evals = len(labels)
        out.nontrivial_count = len(labels)
        seen = {}
        for lab in labels:
            n = xsgm.getXSTypeNumberFromLabel(lab)
            out.check(isinstance(n, int), "labels/number-type", lambda: "%r -> %r" % (lab, n))
            if n in seen:
                out.fail("labels/number-collision", "labels %r and %r both map to %r" % (seen[n], lab, n))
            seen[n] = lab
        return out
    labels = list(ALPHABET) if kind == "single" else [case["first"] + b for b in ALPHABET]
    out.evals = len(labels)
    out.nontrivial_count = len(labels)
    p = blocks.HexBlock("c20lab").p
    nexcl = 0
    for lab in labels:
        want = int("".join("%02d" % ord(ch) for ch in lab))
        n = xsgm.getXSTypeNumberFromLabel(lab)
        out.check(n == want, "labels/label-to-number", lambda: "%r -> %r, expected the concatenated character codes %d" % (lab, n, want))
        p.xsType = lab
        out.check(p.xsTypeNum == n and p.xsType == lab, "labels/param-xsType-sets-number",
                  lambda: "b.p.xsType=%r gives xsTypeNum %r" % (lab, p.xsTypeNum))
        if case["excludeKnown"] and _label_shape_known(lab):
            nexcl += 1
            continue
        sig = SIG_LABEL if _label_shape_known(lab) else "labels/roundtrip"
        try:
            back = xsgm.getXSTypeLabelFromNumber(n)
        except ValueError as exc:
            out.fail(sig, "label %r -> %d -> ValueError(%s)" % (lab, n, exc))
            continue
        out.check(back == lab, sig, lambda: "label %r -> number %d -> label %r" % (lab, n, back))
        p.xsType = "A"
        try:
            p.xsTypeNum = n
            pback = p.xsType
        except ValueError:
            pback = None
        out.check(pback == lab, sig if sig == SIG_LABEL else "labels/param-xsTypeNum-sets-label",
                  lambda: "b.p.xsTypeNum=%d gives xsType %r, expected %r" % (n, pback, lab))
    if nexcl:
        out.labels.extend(["excluded:" + SIG_LABEL] * nexcl)
    return out


# ================================================================================================
# shared: blueprint text for a list of single-block assemblies in a full hex core

DESIGNS = ["igniter fuel", "feed fuel", "radial reflector", "control"]
FAMILY = {"igniter fuel": "fuel", "feed fuel": "fuel", "radial reflector": "reflector", "control": "control"}
CELLS = [(0, 0), (1, 0), (0, 1), (-1, 1), (-1, 0), (0, -1), (1, -1), (2, 0), (1, 1), (0, 2), (-1, 2), (-2, 2), (-2, 1),
         (-2, 0), (-1, -1), (0, -2), (1, -2), (2, -2), (2, -1)]
FILTERS = [None, ["fuel"], ["igniter fuel"], ["feed fuel"], ["reflector"], ["fuel", "reflector"], ["control"],
           ["igniter fuel", "control"], ["radial reflector", "feed fuel"]]


def _r(x, n=4):
    return round(float(x), n)


def _block_text(name, design, s, pitch=10.0):
    c = "        coolant: {shape: DerivedShape, material: Sodium, Tinput: 450.0, Thot: 450.0}\n"
    d = ("        duct: {shape: Hexagon, material: HT9, Tinput: 25.0, Thot: 450.0, ip: 9.0, mult: 1.0, op: 9.5}\n"
         "        intercoolant: {shape: Hexagon, material: Sodium, Tinput: 450.0, Thot: 450.0, ip: duct.op, mult: 1.0, op: %r}\n" % _r(pitch))
    t = "    %s: &%s\n" % (design, name)
    if FAMILY[design] == "fuel":
        t += "        fuel: {shape: Circle, material: UZr, Tinput: 25.0, Thot: 600.0, id: 0.0, od: %r, mult: 19}\n" % _r(0.7 * s)
        t += "        bond: {shape: Circle, material: Sodium, Tinput: 450.0, Thot: 450.0, id: fuel.od, od: clad.id, mult: fuel.mult}\n"
        t += "        clad: {shape: Circle, material: HT9, Tinput: 25.0, Thot: 470.0, id: %r, od: %r, mult: fuel.mult}\n" % (_r(0.8 * s), _r(0.9 * s))
        t += "        gap: {shape: Circle, material: Void, Tinput: 450.0, Thot: 450.0, id: clad.od, od: %r, mult: fuel.mult}\n" % _r(0.92 * s)
        t += ("        wire: {shape: Helix, material: HT9, Tinput: 25.0, Thot: 450.0, axialPitch: 30.0, helixDiameter: %r, id: 0.0, "
              "od: %r, mult: fuel.mult}\n" % (_r(1.0 * s), _r(0.1 * s)))
    elif FAMILY[design] == "reflector":
        t += "        reflector: {shape: Circle, material: HT9, Tinput: 25.0, Thot: 450.0, id: 0.0, od: %r, mult: 19}\n" % _r(1.5 * s)
    else:
        t += "        control: {shape: Circle, material: B4C, Tinput: 25.0, Thot: 500.0, id: 0.0, od: %r, mult: 19}\n" % _r(1.0 * s)
        t += "        gap: {shape: Circle, material: Void, Tinput: 450.0, Thot: 450.0, id: control.od, od: clad.id, mult: control.mult}\n"
        t += "        clad: {shape: Circle, material: HT9, Tinput: 25.0, Thot: 450.0, id: %r, od: %r, mult: control.mult}\n" % (_r(1.1 * s), _r(1.2 * s))
    return t + c + d


# third-core layout: centre first (cut in three, symmetry factor 3), then cells of the modelled third incl. the ones
# on the 0-degree line (2,-1), (4,-2), which stay whole; armi drops assemblies on the 120-degree line at construction,
# so half blocks (factor 2) cannot be built this way
THIRD_CELLS = [(0, 0), (2, -1), (1, 0), (1, 1), (0, 1), (2, 0), (3, -1), (0, 2), (1, 2), (2, 1), (3, 0), (4, -2)]


def render(blocks, layout="full"):
    """Blueprint text: block i is the only block of assembly ``A<i>`` placed at cell i of the layout."""
    cells = {"full": CELLS, "third": THIRD_CELLS}[layout]
    L = ["blocks:\n"]
    for i, b in enumerate(blocks):
        L.append(_block_text("blk%d" % i, DESIGNS[b["design"]], b["scale"], b.get("pitch", 10.0)))
    L.append("assemblies:\n")
    for i, b in enumerate(blocks):
        L.append("    assem%d:\n        specifier: A%d\n        blocks: [*blk%d]\n        height: [%r]\n        axial mesh points: [1]\n"
                 % (i, i, i, _r(b["height"], 3)))
        if FAMILY[DESIGNS[b["design"]]] == "fuel":
            L.append("        material modifications:\n            U235_wt_frac: [%r]\n            ZR_wt_frac: [%r]\n" % (_r(b["enrich"]), _r(b["zr"])))
        L.append("        xs types: [%s]\n" % b.get("bpXs", "A"))
    L.append("systems:\n    core:\n        grid name: core\n        origin: {x: 0.0, y: 0.0, z: 0.0}\n")
    L.append("grids:\n    core:\n        geom: hex\n        symmetry: %s\n        grid contents:\n" % ("full" if layout == "full" else "third periodic"))
    for i in range(len(blocks)):
        L.append("            [%d,%d]: A%d\n" % (cells[i][0], cells[i][1], i))
    return "".join(L)


_CS_CACHE = {}  # per worker process


def build(blocks, settings=None, layout="full"):
    """(cs, bp, reactor, [core block of spec i])"""
    from armi.reactor import blueprints, reactors

    from vp import env

    if "base" not in _CS_CACHE:
        _CS_CACHE["base"] = env.quiet_settings({"inputHeightsConsideredHot": True, "detailedAxialExpansion": True})
    cs = _CS_CACHE["base"]
    if settings:
        cs = cs.modified(newSettings=settings)  # the manager edits the cross-section settings: private copy
    bp = blueprints.Blueprints.load(render(blocks, layout))
    r = reactors.factory(cs, bp)
    byspec = {}
    for a in r.core:
        byspec[a.getType()] = a
    out = []
    for i in range(len(blocks)):
        a = byspec["assem%d" % i]
        out.append(a[0])
    return cs, bp, r, out


def resolve_like(blocks):
    """Composition fields of a block with ``like`` = k are those of block k % i (so that members can agree)."""
    res = []
    for i, b in enumerate(blocks):
        b = dict(b)
        if i > 0 and b.get("like") is not None:
            src = res[b["like"] % i]
            for key in ("design", "scale", "enrich", "zr", "temps", "expand", "edits", "adds"):
                b[key] = src[key]
        res.append(b)
    return res


def apply_state(b, spec):
    """Edit a freshly built block through the public setters."""
    comps = list(b)
    for k, c in enumerate(comps):
        t = spec["temps"][k % len(spec["temps"])]
        if spec["expand"][k % len(spec["expand"])]:
            c.setTemperature(t)
        else:
            c.temperatureInC = t
    for e in spec["edits"]:
        c = comps[e["c"] % len(comps)]
        nucs = sorted(c.getNuclides())
        if not nucs:
            continue
        nuc = nucs[e["n"] % len(nucs)]
        c.setNumberDensity(nuc, c.getNumberDensity(nuc) * e["f"])
    for e in spec["adds"]:
        c = comps[e["c"] % len(comps)]
        c.setNumberDensity(e["nuc"], e["v"])
    # child order: reactors.factory sorts every block; components taken out and put back (as block converters do) end
    # up at the end of the child list, so the children are no longer in sorted order
    for k in spec.get("reorder", []):
        c = list(b)[k % len(b)]
        b.remove(c)
        b.add(c)
    b.p.percentBu = spec["bu"]
    b.p.massHmBOL = b.getHMMass() * spec["hm"]
    b.p.flux = spec["flux"]
    b.p.gasReleaseFraction = spec.get("gas", 0.0)


# ---- plain-data snapshots ------------------------------------------------------------------------


def _norm(v):
    import numpy as np

    if isinstance(v, np.ndarray):
        return ("nd", v.shape, v.tolist())
    if isinstance(v, np.generic):
        return v.item()
    if isinstance(v, dict):
        return ("dict", sorted((str(k), _norm(x)) for k, x in v.items()))
    if isinstance(v, (list, tuple)):
        return ("seq", [_norm(x) for x in v])
    if isinstance(v, (int, float, str, bool)) or v is None:
        return v
    return ("obj", type(v).__name__, str(v))


def _params(obj, skip=()):
    d = {}
    for pd in obj.p.paramDefs:
        if pd.name in skip:
            continue
        try:
            d[pd.name] = _norm(obj.p[pd.name])
        except Exception as exc:  # noqa: BLE001  (unset parameters without default)
            d[pd.name] = ("unset", type(exc).__name__)
    return d


def observe(b, skip=()):
    """Everything observable about a block that creating representatives must leave alone."""
    lfp = b.getLumpedFissionProductCollection()
    o = {
        "name": b.getName(),
        "type": b.getType(),
        "flags": str(b.p.flags),
        "parent": id(b.parent),
        "nchildren": len(b),
        "params": _params(b, skip),
        "lfp_id": id(lfp) if lfp is not None else None,
        "lfp": None if lfp is None else sorted((k, sorted((str(n), float(y)) for n, y in v.items())) for k, v in lfp.items()),
        "comps": [],
    }
    for c in b:
        o["comps"].append({
            "id": id(c),
            "name": c.getName(),
            "T": c.temperatureInC,
            "Tin": c.inputTemperatureInC,
            "params": _params(c),
            "vol": c.getVolume(),
            "nd": sorted((k, float(v)) for k, v in c.p.numberDensities.items()),
        })
    return o


def _diff(a, b, path=""):
    if type(a) is not type(b):
        return "%s: %r -> %r" % (path, a, b)
    if isinstance(a, dict):
        for k in sorted(set(a) | set(b), key=str):
            if k not in a or k not in b:
                return "%s.%s appeared/disappeared" % (path, k)
            d = _diff(a[k], b[k], "%s.%s" % (path, k))
            if d:
                return d
        return None
    if isinstance(a, (list, tuple)):
        if len(a) != len(b):
            return "%s: length %d -> %d" % (path, len(a), len(b))
        for i, (x, y) in enumerate(zip(a, b)):
            d = _diff(x, y, "%s[%d]" % (path, i))
            if d:
                return d
        return None
    if a != b and not (isinstance(a, float) and a != a and b != b):
        return "%s: %r -> %r" % (path, a, b)
    return None


def measure(b):
    """Numbers the oracle needs from one member block."""
    comps = []
    # blocks cut by the symmetry lines of a third-core model (centre: 3, both-edge models: 2) count with the part
    # of their volume that is inside the model (Block.getVolume); armi's own factor is trusted
    sf = float(b.getSymmetryFactor())
    for c in b:
        comps.append({
            "name": c.getName(),
            "vol": float(c.getVolume()) / sf,
            "rawvol": float(c.getVolume()),
            "area": float(c.getArea()),
            "mass": float(c.getMass()),
            "T": float(c.temperatureInC),
            "nd": {k: float(v) for k, v in c.p.numberDensities.items()},
        })
    return {
        "name": b.getName(),
        "words": set(b.getType().split()),
        "family": FAMILY.get(b.getType()),
        "height": float(b.getHeight()),
        "sf": sf,
        "vol": sum(c["vol"] for c in comps),
        "bu": float(b.p.percentBu),
        "hm": float(b.p.massHmBOL),
        "flux": float(b.p.flux),
        "comps": comps,
    }


def eligible(m, filt):
    """validBlockTypes: a member is eligible when it carries all the flags (type words) of one entry."""
    if not filt:
        return True
    return any(set(f.split()) <= m["words"] for f in filt)


class Expect:
    """numpy reference for one collection (members = measure() records of the eligible members only)."""

    def __init__(self, members, nuclides, fluxWeighted):
        import numpy as np

        self.np = np
        self.m = members
        self.nuclides = list(nuclides)
        par = np.array([x["flux"] for x in members]) if fluxWeighted else np.zeros(len(members))
        self.allzero = not par.any()
        self.mixed = bool(par.any() and not par.all())
        par = np.where(par == 0.0, 1.0, par)
        self.par = par
        self.vol = np.array([x["vol"] for x in members])
        self.w = par * self.vol
        self.wn = self.w / self.w.sum()

    def block_density(self, m):
        np = self.np
        res = np.zeros(len(self.nuclides))
        for i, nuc in enumerate(self.nuclides):
            res[i] = sum(c["nd"].get(nuc, 0.0) * c["vol"] for c in m["comps"])
        return res / m["vol"]

    def block_densities(self):
        return self.np.array([self.block_density(m) for m in self.m])  # members x nuclides

    def avg_block(self):
        return self.wn.dot(self.block_densities())

    def comp_table(self, cname):
        np = self.np
        rows = []
        for m in self.m:
            c = [x for x in m["comps"] if x["name"] == cname][0]
            rows.append([c["nd"].get(n, 0.0) for n in self.nuclides])
        return np.array(rows)

    def avg_comp(self, cname):
        return self.wn.dot(self.comp_table(cname))

    def comp_temp(self, cname):
        np = self.np
        u = self.w / np.array([m["height"] for m in self.m])
        u = u / u.sum()
        cs = [[x for x in m["comps"] if x["name"] == cname][0] for m in self.m]
        mass = np.array([c["mass"] for c in cs])
        T = np.array([c["T"] for c in cs])
        den = float((u * mass).sum())
        if den == 0.0:
            return float(T.mean()), T
        return float((u * mass * T).sum() / den), T

    def nuc_temps(self, members=None, weights=None):
        """T = sum w_b n v T / sum w_b n v with zero-density-but-listed nuclides counted as trace."""
        np = self.np
        members = self.m if members is None else members
        weights = self.w if weights is None else weights
        nvt = np.zeros(len(self.nuclides))
        nv = np.zeros(len(self.nuclides))
        tmin = np.full(len(self.nuclides), np.inf)
        tmax = np.full(len(self.nuclides), -np.inf)
        for m, w in zip(members, weights):
            for c in m["comps"]:
                for i, nuc in enumerate(self.nuclides):
                    if nuc in c["nd"]:
                        n = c["nd"][nuc] or TRACE
                        nv[i] += w * n * c["vol"]
                        nvt[i] += w * n * c["vol"] * c["T"]
                        tmin[i] = min(tmin[i], c["T"])
                        tmax[i] = max(tmax[i], c["T"])
        return nvt, nv, tmin, tmax

    def burnup(self):
        np = self.np
        w = np.array([m["hm"] for m in self.m]) * self.par
        bu = np.array([m["bu"] for m in self.m])
        if w.sum() == 0.0:
            return None, w, bu
        return float((w * bu).sum() / w.sum()), w, bu

    def median_keys(self):
        return [(m["bu"] * w, m["name"]) for m, w in zip(self.m, self.w)]


def check_nuc_temps(out, ex, got, prefix, members=None, weights=None):
    nvt, nv, tmin, tmax = ex.nuc_temps(members, weights)
    bad = None
    for i, nuc in enumerate(ex.nuclides):
        if nuc not in got:
            bad = bad or ("missing", nuc, None, None)
            continue
        if nv[i] == 0.0:
            continue
        want = nvt[i] / nv[i]
        if not _close(got[nuc], want):
            bad = bad or ("value", nuc, float(got[nuc]), float(want))
        if not (tmin[i] - 1e-9 <= got[nuc] <= tmax[i] + 1e-9):
            out.fail(prefix + "/nuclide-temperature-outside-member-range",
                     "%s: %r not in [%r, %r]" % (nuc, float(got[nuc]), tmin[i], tmax[i]))
            break
        if tmin[i] == tmax[i] and not _close(got[nuc], tmin[i]):
            out.fail(prefix + "/nuclide-temperature-common-value", "%s: all members at %r, average %r" % (nuc, tmin[i], float(got[nuc])))
            break
    out.check(bad is None, prefix + "/nuclide-temperature-not-weighted-mean",
              lambda: "%s nuclide %s: got %r, sum(w n v T)/sum(w n v) over the eligible members = %r" % bad)


# ================================================================================================
# part 2: collections

NUC_ADD = ["FE56", "NA23", "U235", "PU239", "AM242M"]


def _block_strategy(with_xs=False):
    temps = st.lists(st.one_of(st.sampled_from([300.0, 450.0, 600.0]), st.floats(100.0, 800.0).map(lambda x: round(x, 2))),
                     min_size=8, max_size=8)
    d = {
        "design": st.sampled_from([0, 0, 0, 1, 1, 2, 3]),
        "scale": st.sampled_from([0.8, 0.9, 1.0, 1.1]),
        "height": st.one_of(st.sampled_from([10.0, 25.0]), st.floats(5.0, 200.0).map(lambda x: round(x, 3))),
        "enrich": st.floats(0.02, 0.3).map(lambda x: round(x, 4)),
        "zr": st.floats(0.03, 0.12).map(lambda x: round(x, 4)),
        "temps": temps,
        "expand": st.lists(st.booleans(), min_size=8, max_size=8),
        "edits": st.lists(st.fixed_dictionaries({"c": st.integers(0, 7), "n": st.integers(0, 40),
                                                 "f": st.one_of(st.sampled_from([0.0, 0.5, 2.0]), st.floats(0.1, 5.0))}), max_size=4),
        "adds": st.lists(st.fixed_dictionaries({"c": st.integers(0, 7), "nuc": st.sampled_from(NUC_ADD),
                                                "v": st.sampled_from([0.0, 1e-15, 1e-7, 1e-4, 2e-3])}), max_size=2),
        "like": st.one_of(st.none(), st.none(), st.integers(0, 11)),
        "bu": st.one_of(st.sampled_from([0.0, 3.0, 10.0, 30.0]), st.floats(0.0, 100.0).map(lambda x: round(x, 4)),
                        st.floats(0.0, 20.0).map(lambda x: round(x, 3))),
        "hm": st.sampled_from([1.0, 1.0, 0.5, 1.7, 0.0]),
        "flux": st.one_of(st.sampled_from([1.0, 1e14]), st.floats(1e8, 1e16)),
        "fluxZero": st.booleans(),
        "gas": st.sampled_from([0.0, 0.25, 1.0]),
        "reorder": st.one_of(st.just([]), st.lists(st.integers(0, 7), min_size=1, max_size=3)),
    }
    if with_xs:
        d["xs"] = st.sampled_from(["A", "A", "A", "B", "B", "Z", "a", "a", "c", "z"])
        d["xs2"] = st.sampled_from(["AA", "ZZ", "Ad", "BC", "zz", "aB"])
        d["env"] = st.sampled_from(["A", "A", "B", "D", "Z", "b"])
        d["fuelT"] = st.one_of(st.none(), st.sampled_from([300.0, 400.0, 500.0, 790.0, 790.0]), st.floats(150.0, 750.0).map(lambda x: round(x, 1)))
    return st.fixed_dictionaries(d)


def _block_lists(elem):
    """1-12 blocks with the sizes spread out (Hypothesis alone prefers very short lists)."""
    return st.sampled_from([1, 2, 3, 3, 4, 5, 6, 8, 12]).flatmap(lambda n: st.lists(elem, min_size=n, max_size=n))


def _pick_filter(case, blocks):
    """Index modulo the filters that leave at least one eligible member (None always does)."""
    ok = []
    for f in FILTERS:
        if f is None or any(any(set(x.split()) <= set(DESIGNS[b["design"]].split()) for x in f) for b in blocks):
            ok.append(f)
    return ok[case["filter"] % len(ok)]


def _avoid_known_collections(case):
    """Generator-side exclusion of the reproduced defects (EXCLUDE_KNOWN); counted through case['excluded']."""
    case = dict(case)
    excluded = []
    blocks = resolve_like(case["blocks"])
    filt = _pick_filter(case, blocks)
    if EXCLUDE_KNOWN.get(SIG_MEDIAN_LFP) and case["rep"] == "Median" and case["lfp"]:
        case["lfp"] = 0
        excluded.append(SIG_MEDIAN_LFP)
    if EXCLUDE_KNOWN.get(SIG_BURNUP) and case["rep"] != "Median":
        newblocks = []
        hit = False
        for raw, b in zip(case["blocks"], blocks):
            words = set(DESIGNS[b["design"]].split())
            elig = (not filt) or any(set(f.split()) <= words for f in filt)
            if not elig and raw["hm"] != 0.0:
                raw = dict(raw)
                raw["hm"] = 0.0
                hit = True
            newblocks.append(raw)
        if hit:
            case["blocks"] = newblocks
            excluded.append(SIG_BURNUP)
    case["excluded"] = excluded
    return case


def collections_strategy(tier):
    base = st.fixed_dictionaries({
        "blocks": _block_lists(_block_strategy()),
        "rep": st.sampled_from(["Average", "FluxWeightedAverage", "Median", "FluxWeightedAverage", "Average", "Cylinder", "Median"]),
        "byComponent": st.booleans(),
        "filter": st.integers(0, len(FILTERS) - 1),
        "fluxMode": st.sampled_from(["positive", "zero-ineligible", "mixed", "zero", "positive", "mixed", "zero-ineligible"]),
        "lfp": st.sampled_from([0, 1, 2]),
        "xsType": st.sampled_from(["A", "B", "Z", "a", "k", "z", "AA", "Ad", "ZZ", "zz"]),
        "envGroup": st.sampled_from(["A", "A", "B", "Z", "a", "z"]),
        "scaleBy": st.sampled_from([2.0, 0.5, 1e-3, 3.7, 1e6]),
        "layout": st.sampled_from(["full", "third", "third"]),
        # one block pitch per core: the blueprints refuse assemblies of different area in one core (InputError), so
        # members of different area arise from the symmetry cuts of the third-core layouts
        "pitch": st.sampled_from([10.0, 10.0, 9.7, 11.0, 12.5]),
    })
    return base.map(_avoid_known_collections)


def _make_collection(rep, nuclides, filt, byComponent):
    from armi.physics.neutronics import crossSectionGroupManager as xsgm

    cls = {
        "Median": xsgm.MedianBlockCollection,
        "Average": xsgm.AverageBlockCollection,
        "FluxWeightedAverage": xsgm.FluxWeightedAverageBlockCollection,
        "Cylinder": xsgm.CylindricalComponentsAverageBlockCollection,
    }[rep]
    return cls(nuclides, validBlockTypes=filt, averageByComponent=byComponent)


def _rep_block_densities(rep, nuclides):
    return [float(x) for x in rep.getNuclideNumberDensities(nuclides)]


def check_average(out, ex, rep, coll, kind, byComp, prefix="avg"):
    """Representative of an (Flux)Average collection against the reference ``ex`` (eligible members only)."""
    import numpy as np

    nuclides = ex.nuclides
    if byComp:
        names = [c["name"] for c in ex.m[0]["comps"]]
        rc = {c.getName(): c for c in rep}
        out.check(sorted(rc) == sorted(names), prefix + "/component-set", lambda: "representative components %s" % sorted(rc))
        for cname in names:
            if cname not in rc:
                continue
            want = ex.avg_comp(cname)
            tab = ex.comp_table(cname)
            got = np.array([rc[cname].p.numberDensities.get(n, 0.0) for n in nuclides])
            bad = [i for i in range(len(nuclides)) if not _close(got[i], want[i])]
            out.check(not bad, prefix + "/component-density-not-weighted-mean",
                      lambda: "component %s nuclide %s: got %r, weighted mean %r (weights %s)" % (cname, nuclides[bad[0]], got[bad[0]], want[bad[0]], ex.wn.tolist()))
            lo, hi = tab.min(axis=0), tab.max(axis=0)
            rng = [i for i in range(len(nuclides)) if not (lo[i] * (1 - 1e-9) <= got[i] <= hi[i] * (1 + 1e-9))]
            out.check(not rng, prefix + "/component-density-outside-member-range",
                      lambda: "component %s nuclide %s: %r not in [%r, %r]" % (cname, nuclides[rng[0]], got[rng[0]], lo[rng[0]], hi[rng[0]]))
            same = [i for i in range(len(nuclides)) if lo[i] == hi[i] and not _close(got[i], lo[i])]
            out.check(not same, prefix + "/component-density-common-value",
                      lambda: "component %s nuclide %s: members agree on %r, representative has %r" % (cname, nuclides[same[0]], lo[same[0]], got[same[0]]))
            extra = [n for n, v in rc[cname].p.numberDensities.items() if n not in nuclides and v]
            out.check(not extra, prefix + "/component-extra-nuclides", lambda: "component %s keeps %s" % (cname, extra))
            wantT, T = ex.comp_temp(cname)
            gotT = float(rc[cname].temperatureInC)
            out.check(_close(gotT, wantT), prefix + "/component-temperature-not-weighted-mean",
                      lambda: "component %s: temperature %r, documented mass- and block-weighted mean %r" % (cname, gotT, wantT))
            out.check(T.min() - 1e-9 <= gotT <= T.max() + 1e-9, prefix + "/component-temperature-outside-member-range",
                      lambda: "component %s: %r not in [%r, %r]" % (cname, gotT, T.min(), T.max()))
    else:
        want = ex.avg_block()
        tab = ex.block_densities()
        got = np.array(_rep_block_densities(rep, nuclides))
        bad = [i for i in range(len(nuclides)) if not _close(got[i], want[i])]
        out.check(not bad, prefix + "/block-density-not-weighted-mean",
                  lambda: "nuclide %s: representative %r, weighted mean over eligible members %r (normalised weights %s)"
                  % (nuclides[bad[0]], got[bad[0]], want[bad[0]], ex.wn.tolist()))
        lo, hi = tab.min(axis=0), tab.max(axis=0)
        rng = [i for i in range(len(nuclides)) if not (lo[i] * (1 - 1e-9) <= got[i] <= hi[i] * (1 + 1e-9))]
        out.check(not rng, prefix + "/block-density-outside-member-range",
                  lambda: "nuclide %s: %r not in [%r, %r]" % (nuclides[rng[0]], got[rng[0]], lo[rng[0]], hi[rng[0]]))
        same = [i for i in range(len(nuclides)) if _close(lo[i], hi[i], 1e-13) and not _close(got[i], lo[i])]
        out.check(not same, prefix + "/block-density-common-value",
                  lambda: "nuclide %s: members agree on %r, representative has %r" % (nuclides[same[0]], lo[same[0]], got[same[0]]))
    check_nuc_temps(out, ex, coll.avgNucTemperatures, prefix)


def check_template(out, cand, rep, prefix):
    """The representative is a re-filled copy of an eligible member: same type, components and component volumes."""
    words = set(rep.getType().split())
    names = sorted(c.getName() for c in rep)
    vols = {c.getName(): float(c.getVolume()) for c in rep}
    ok = any(m["words"] == words and sorted(c["name"] for c in m["comps"]) == names
             and all(_close(vols[c["name"]], c["rawvol"], 1e-9) for c in m["comps"]) for m in cand)
    out.check(ok, prefix + "/representative-not-shaped-like-an-eligible-member",
              lambda: "representative of type %r (components %s) matches no eligible member %s" % (rep.getType(), names, [m["name"] for m in cand]))


def check_burnup(out, ex_all, elig_mask, rep, prefix="avg"):
    """Burnup = heavy-metal-weighted mean over the eligible members."""
    np = ex_all.np
    w_all = np.array([m["hm"] for m in ex_all.m]) * ex_all.par
    bu_all = np.array([m["bu"] for m in ex_all.m])
    mask = np.array(elig_mask)
    w = w_all[mask]
    bu = bu_all[mask]
    got = float(rep.p.percentBu)
    if w.sum() == 0.0:
        out.label("burnup:no-heavy-metal")
        return
    want = float((w * bu).sum() / w.sum())
    if not _close(got, want):
        leak = w_all[~mask].sum() > 0
        allwant = float((w_all * bu_all).sum() / w_all.sum())
        if leak and _close(got, allwant):
            out.fail(SIG_BURNUP, "representative burnup %r is the heavy-metal-weighted mean over ALL members (%r); over the "
                     "eligible members only it is %r" % (got, allwant, want))
        else:
            out.fail(prefix + "/burnup-not-hm-weighted-mean", "representative burnup %r, heavy-metal-weighted mean over eligible members %r "
                     "(weights %s burnups %s)" % (got, want, w.tolist(), bu.tolist()))
        return
    pos = bu[w > 0]
    out.check(pos.min() - 1e-9 <= got <= pos.max() + 1e-9, prefix + "/burnup-outside-member-range",
              lambda: "%r not in [%r, %r]" % (got, pos.min(), pos.max()))


def check_deep_copy(out, rep, members, prefix):
    ids = set()
    nds = set()
    for b in members:
        ids.add(id(b))
        for c in b:
            ids.add(id(c))
            nds.add(id(c.p.numberDensities))
            ids.add(id(c.p))
        ids.add(id(b.p))
    mine = [id(rep), id(rep.p)] + [id(c) for c in rep] + [id(c.p) for c in rep]
    out.check(not (set(mine) & ids) and not ({id(c.p.numberDensities) for c in rep} & nds), prefix + "/representative-shares-state-with-member",
              "representative block shares a block/component/parameter object with a member")
    out.check(all(c.parent is rep for c in rep), prefix + "/representative-children-parent", "component parent is not the representative")


CYL_KEY_NUCS = {"PU239", "U238", "U235", "U234", "FE56", "NA23", "O16"}


def _cyl_consistent(cand):
    """Documented precondition of the 1-D cylinder collection: same components (number, multiplicity) and the same
    subset of the key nuclides in matching components."""
    if len({m["family"] for m in cand}) > 1:
        return False
    for cname in [c["name"] for c in cand[0]["comps"]]:  # matched by name: the child order of a block is arbitrary
        if len({frozenset(set([x for x in m["comps"] if x["name"] == cname][0]["nd"]) & CYL_KEY_NUCS) for m in cand}) > 1:
            return False
    return True


def collections_execute(case):
    import copy

    from armi.physics.neutronics.fissionProductModel.tests import test_lumpedFissionProduct
    from armi.utils import units

    out = Out()
    out.check(units.TRACE_NUMBER_DENSITY == TRACE, "harness/trace-constant", "armi's trace number density is no longer %r" % TRACE)
    for sig in case.get("excluded", []):
        out.label("excluded:" + sig)
    specs = resolve_like(case["blocks"])
    kind = case["rep"]
    filt = _pick_filter(case, specs)
    byComp = bool(case["byComponent"]) and kind in ("Average", "FluxWeightedAverage")
    fluxW = kind == "FluxWeightedAverage"
    # flux values per mode: all positive / all zero / mixed among the eligible members (first eligible zero, second
    # positive, the others by their own flag) / zero only on ineligible members (must not matter)
    elig_idx = [i for i, s in enumerate(specs) if not filt or any(set(f.split()) <= set(DESIGNS[s["design"]].split()) for f in filt)]
    for i, s in enumerate(specs):
        if case["fluxMode"] == "zero":
            s["flux"] = 0.0
        elif case["fluxMode"] == "mixed" and len(elig_idx) >= 2:
            if i == elig_idx[0] or (s["fluxZero"] and i != elig_idx[1]):
                s["flux"] = 0.0
        elif case["fluxMode"] == "zero-ineligible" and i not in elig_idx:
            s["flux"] = 0.0
    xs = case["xsType"]
    env_ = case["envGroup"] if len(xs) == 1 else "A"
    for s in specs:
        s["bpXs"] = xs

    layout = case.get("layout", "full")
    for s in specs:
        s["pitch"] = case.get("pitch", 10.0)
    cs, bp, r, blocks = build(specs, layout=layout)
    nuclides = list(bp.allNuclidesInProblem)
    shared = test_lumpedFissionProduct.getDummyLFPFile().createLFPsFromFile() if case["lfp"] == 1 else None
    for b, s in zip(blocks, specs):
        apply_state(b, s)
        b.p.envGroup = env_
        if case["lfp"] == 1:
            b.setLumpedFissionProducts(shared)
        elif case["lfp"] == 2:
            b.setLumpedFissionProducts(test_lumpedFissionProduct.getDummyLFPFile().createLFPsFromFile())
    meas = [measure(b) for b in blocks]
    mask = [eligible(m, filt) for m in meas]
    cand = [m for m, e in zip(meas, mask) if e]
    candBlocks = [b for b, e in zip(blocks, mask) if e]
    ex = Expect(cand, nuclides, fluxW)
    ex_all = Expect(meas, nuclides, fluxW)

    families = {m["family"] for m in cand}
    distinct = len({tuple(sorted((c["name"], tuple(sorted(c["nd"].items()))) for c in m["comps"])) for m in cand})
    out.nontrivial = len(cand) >= 3 and distinct >= 3 and len({round(w, 12) for w in ex.wn}) >= 2
    out.label("rep:" + kind + ("/byComponent" if byComp else ""), "filter:" + ("none" if not filt else "+".join(filt)),
              "members:%s" % ("1" if len(meas) == 1 else "2-4" if len(meas) <= 4 else "5-12"),
              "ineligible-members" if len(cand) < len(meas) else "all-eligible",
              "families:%d" % len(families), "lfp:%d" % case["lfp"])
    out.label("layout:" + layout)
    if len({round(m["vol"] / m["height"], 9) for m in cand}) >= 2:
        out.label("eligible-members-differ-in-area")
    if any(m["sf"] != 1.0 for m in cand):
        out.label("symmetry-factor:" + "+".join(sorted({"%g" % m["sf"] for m in cand if m["sf"] != 1.0})))
    if fluxW:
        out.label("flux:" + ("mixed" if ex.mixed else "allzero" if ex.allzero else "positive"))
        if not ex.mixed and ex_all.mixed:
            out.label("flux:zero-on-ineligible-only")
    if len(xs) == 2:
        out.label("xs:two-letter")
    elif xs in LOWER:
        out.label("xs:lower-case")

    coll = _make_collection(kind, nuclides, filt, bool(case["byComponent"]))
    coll.extend(blocks)
    got_c = coll.getCandidateBlocks()
    out.check([id(b) for b in got_c] == [id(b) for b in candBlocks], "coll/candidate-blocks",
              lambda: "candidates %s, expected the members of type %s: %s" % ([b.getName() for b in got_c], filt, [b.getName() for b in candBlocks]))
    before = [observe(b) for b in blocks]

    def unchanged(tag):
        for b, o in zip(blocks, before):
            d = _diff(o, observe(b))
            if d:
                out.fail("coll/source-block-changed", "%s: block %s %s" % (tag, b.getName(), d))
                return
        out.check([id(b) for b in coll] == [id(b) for b in blocks], "coll/membership-changed", "collection members changed by " + tag)

    # ---- documented refusals
    if fluxW and ex.mixed:
        try:
            coll.createRepresentativeBlock()
            out.fail("coll/mixed-zero-nonzero-weights-accepted", "candidate flux values %s did not raise" % [m["flux"] for m in cand])
        except ValueError:
            out.rejected = True
        unchanged("refused mixed weights")
        return out
    if kind == "Cylinder" and not _cyl_consistent(cand):
        # documented: components must align in number, multiplicity and the listed key nuclides, else ValueError
        try:
            coll.createRepresentativeBlock()
            out.fail("cyl/inconsistent-components-accepted", "families %s homogenised without error" % sorted(families))
        except ValueError:
            out.rejected = True
        unchanged("refused inconsistent components")
        return out

    rep = coll.createRepresentativeBlock()
    unchanged("createRepresentativeBlock")
    check_deep_copy(out, rep, blocks, "coll")
    out.check(rep.getMicroSuffix() == (xs + env_ if len(xs) == 1 else xs), "coll/representative-suffix",
              lambda: "suffix %r" % rep.getMicroSuffix())

    if kind == "Median":
        keys = ex.median_keys()
        order = sorted(range(len(keys)), key=lambda i: keys[i])
        n = len(order)
        mids = {order[n // 2]} if n % 2 else {order[n // 2 - 1], order[n // 2]}
        midvals = [keys[i][0] for i in mids]
        byname = {m["name"]: i for i, m in enumerate(cand)}
        who = byname.get(rep.getName())
        out.label("median:%s" % ("odd" if n % 2 else "even"))
        if not out.check(who is not None, "median/not-a-member", lambda: "representative %r is not a copy of an eligible member" % rep.getName()):
            return out
        out.check(any(keys[who][0] == v for v in midvals), "median/not-the-median-member",
                  lambda: "copy of %s with weighted burnup %r; sorted weighted burnups %s" % (rep.getName(), keys[who][0], [keys[i][0] for i in order]))
        src = candBlocks[who]
        a = observe(src)
        b = observe(rep)
        for o in (a, b):
            o.pop("parent")
            o.pop("lfp_id")
            o["params"].pop("serialNum", None)  # a copy is a new object with its own serial number
            for c in o["comps"]:
                c.pop("id")
                c["params"].pop("serialNum", None)
        d = _diff(a, b)
        out.check(d is None, "median/copy-differs-from-member", lambda: "copy of %s differs: %s" % (src.getName(), d))
        # nuclide temperatures: those of the median block alone
        check_nuc_temps(out, ex, coll.avgNucTemperatures, "median", members=[cand[who]], weights=[1.0])
        return out

    if kind == "Cylinder":
        check_cylinder(out, ex, cand, rep)
        check_nuc_temps(out, ex, coll.avgNucTemperatures, "cyl")
        check_burnup(out, ex_all, mask, rep, "cyl")
        return out

    # ---- Average / FluxWeightedAverage
    performBy = byComp and len(families) == 1
    if byComp:
        out.label("byComponent:" + ("performed" if performBy else "fallback-dissimilar"))
        if performBy and [id(c) for c in candBlocks[0]] != [id(c) for c in sorted(candBlocks[0])]:
            out.label("byComponent:first-candidate-children-unsorted")
    check_template(out, cand, rep, "avg")
    check_average(out, ex, rep, coll, kind, performBy)
    check_burnup(out, ex_all, mask, rep)

    def same_as(rep2, coll2, sig, what):
        if performBy:
            rc1 = {c.getName(): c for c in rep}
            rc2 = {c.getName(): c for c in rep2}
            if not out.check(sorted(rc1) == sorted(rc2), sig, lambda: "%s: components %s -> %s" % (what, sorted(rc1), sorted(rc2))):
                return
            for cname in rc1:
                g1 = [rc1[cname].p.numberDensities.get(n, 0.0) for n in nuclides]
                g2 = [rc2[cname].p.numberDensities.get(n, 0.0) for n in nuclides]
                bad = [i for i in range(len(nuclides)) if not _close(g1[i], g2[i])]
                out.check(not bad and _close(rc1[cname].temperatureInC, rc2[cname].temperatureInC), sig,
                          lambda: "%s: component %s changes (%s)" % (what, cname, nuclides[bad[0]] if bad else "temperature"))
        else:
            g1 = _rep_block_densities(rep, nuclides)
            g2 = _rep_block_densities(rep2, nuclides)
            bad = [i for i in range(len(nuclides)) if not _close(g1[i], g2[i])]
            out.check(not bad, sig, lambda: "%s: nuclide %s %r -> %r" % (what, nuclides[bad[0]], g1[bad[0]], g2[bad[0]]))
        t1, t2 = coll.avgNucTemperatures, coll2.avgNucTemperatures
        bad = [n for n in nuclides if not _close(t1[n], t2[n])]
        out.check(not bad, sig, lambda: "%s: temperature of %s %r -> %r" % (what, bad[0], float(t1[bad[0]]), float(t2[bad[0]])))

    # invariance: duplicating every member (a free copy of a block cut by a symmetry line is a whole block, not a twin)
    if all(m["sf"] == 1.0 for m in meas):
        dup = _make_collection(kind, nuclides, filt, bool(case["byComponent"]))
        for b in blocks:
            dup.append(b)
            twin = copy.deepcopy(b)
            twin.name = b.getName() + "x"
            dup.append(twin)
        rep2 = dup.createRepresentativeBlock()
        same_as(rep2, dup, "avg/changes-when-every-member-is-duplicated", "duplicating every member")
        out.check(_close(rep.p.percentBu, rep2.p.percentBu), "avg/changes-when-every-member-is-duplicated",
                  lambda: "burnup %r -> %r" % (rep.p.percentBu, rep2.p.percentBu))
    # invariance: only the eligible members
    if len(cand) < len(meas):
        only = _make_collection(kind, nuclides, filt, bool(case["byComponent"]))
        only.extend(candBlocks)
        rep3 = only.createRepresentativeBlock()
        same_as(rep3, only, "avg/depends-on-ineligible-members", "dropping the ineligible members")
    # invariance: rescaling all weights
    if fluxW and not ex.allzero:
        k = case["scaleBy"]
        old = [b.p.flux for b in blocks]
        for b in blocks:
            b.p.flux = b.p.flux * k
        sc = _make_collection(kind, nuclides, filt, bool(case["byComponent"]))
        sc.extend(blocks)
        rep4 = sc.createRepresentativeBlock()
        same_as(rep4, sc, "avg/changes-when-all-weights-are-rescaled", "multiplying every flux by %r" % k)
        out.check(_close(rep.p.percentBu, rep4.p.percentBu), "avg/changes-when-all-weights-are-rescaled",
                  lambda: "burnup %r -> %r" % (rep.p.percentBu, rep4.p.percentBu))
        for b, f in zip(blocks, old):
            b.p.flux = f
    unchanged("further representatives")
    return out


# ================================================================================================
# part 3: grouping by the manager


def _avoid_known_grouping(case):
    case = dict(case)
    excluded = []
    if EXCLUDE_KNOWN.get(SIG_MEDIAN_LFP) and case["lfp"] and (case["rep"] == "Median" or any(c["rep"] == "Median" for c in case["control"])):
        case["lfp"] = 0
        excluded.append(SIG_MEDIAN_LFP)
    # ineligible members (by the filter of their xs type) get massHmBOL = 0 in execute while the defect is excluded
    case["zeroHmIneligible"] = bool(EXCLUDE_KNOWN.get(SIG_BURNUP))
    case["excluded"] = excluded
    if any(c["geometry"] == "1D cylinder" for c in case["control"]):
        # the 1-D cylinder collection refuses members whose matching components differ in the key nuclides they list
        # (documented ValueError): keep such cores free of the added nuclides so that its averaging is reached
        case["blocks"] = [dict(b, adds=[]) for b in case["blocks"]]
    if case["profile"] == "many":  # 8 x 6 = 48 environment groups: reaches the lower-case letters
        case["buGroups"] = [2, 5, 10, 15, 20, 30, 50]
        case["tempGroups"] = [200, 300, 400, 500, 600]
    if case.get("scenario") == "late-eligible" and len(case["blocks"]) >= 3:
        _shape_late_eligible(case)
    if case.get("scenario") == "default-filter" and len(case["blocks"]) >= 2:
        _shape_default_filter(case)
    if case.get("scenario") == "temp-isotope":
        # shape built on purpose: temperature groups exist and the xs type of block 0 has an 'A' entry whose
        # xsTempIsotope is not U238 (structure / coolant nuclides sit at other temperatures than the fuel)
        bl = [dict(b) for b in case["blocks"]]
        entry = {"type": bl[0]["xs"], "env": "A", "geometry": "0D", "rep": case["rep"], "filter": 0, "byComponent": False,
                 "tempIsotope": case["scenarioIsotope"]}
        case.update(tempGroups=list(case["tempGroups"]) or [250, 350, 450, 550, 650], xsPool=[],
                    control=[entry] + [c for c in case["control"] if c["type"] != bl[0]["xs"]])
        if case["profile"] == "many":
            case["tempGroups"] = [200, 300, 400, 500, 600]
    return case


def _shape_default_filter(case):
    """Shape built on purpose: an explicit entry of the drawn geometry WITHOUT validBlockTypes covers a group that holds a
    fuel block and a non-fuel block, so the geometry's default filter decides who is averaged."""
    bl = [dict(b) for b in case["blocks"]]
    for k in (0, 1):
        bl[k]["like"] = None
        bl[k]["xs"] = bl[0]["xs"]
        bl[k]["env"] = bl[0]["env"]
        bl[k]["bu"] = bl[0]["bu"]
        bl[k]["fuelT"] = None
    if bl[0]["design"] not in (0, 1):
        bl[0]["design"] = 0
    if bl[1]["design"] in (0, 1):
        bl[1]["design"] = 2
    g = case["scenarioGeometry"]
    if g == "1D cylinder":
        bl = [dict(b, adds=[]) for b in bl]
    entry = {"type": bl[0]["xs"], "env": "A", "geometry": g, "rep": case["rep"], "filter": 0, "byComponent": False, "tempIsotope": "U238"}
    case.update(blocks=bl, tempGroups=[], allTypes=False, onBoundary=False, xsPool=[],
                control=[entry] + [c for c in case["control"] if c["type"] != bl[0]["xs"]])


def _shape_late_eligible(case):
    """History shape built on purpose (everything not named here stays as drawn): two fuel blocks in the lowest burnup
    group and a non-fuel block of the same xs type alone in the next group (unrepresented at call 1); before call 2 one
    fuel block burns into that group, which is then represented and must keep its members."""
    bg = list(case["buGroups"])
    if not bg or bg[0] >= 99:
        bg = [10, 20, 30]
    hi = float(bg[0] + 1) if len(bg) == 1 else (bg[0] + bg[1]) / 2.0
    bl = [dict(b) for b in case["blocks"]]
    for k in (0, 1, 2):
        bl[k]["like"] = None
        bl[k]["xs"] = bl[0]["xs"]
        bl[k]["fuelT"] = None
    for k in (0, 1):
        if bl[k]["design"] not in (0, 1):
            bl[k]["design"] = k
    if bl[2]["design"] in (0, 1):
        bl[2]["design"] = 2
    bl[0]["bu"] = round(bg[0] * 0.5, 3)
    bl[1]["bu"] = float(bg[0])  # on the (inclusive) upper bound of the lowest group
    bl[2]["bu"] = hi
    step = {"bu": [[0, 0.0]] * 12, "fuelT": [None] * 12, "type": [None] * 12}
    steps = [dict(s_) for s_ in case["steps"]] or [step]
    first = dict(steps[0])
    first["bu"] = [[0, 0.0], [2, hi], [0, 0.0]] + [list(x) for x in first["bu"][3:]]
    first["fuelT"] = [None, None, None] + list(first["fuelT"][3:])
    first["type"] = [None, None, None] + list(first["type"][3:])
    steps[0] = first
    case.update(blocks=bl, buGroups=bg, tempGroups=[], steps=steps, allTypes=False, onBoundary=False, xsPool=[],
                control=[c for c in case["control"] if c["type"] != bl[0]["xs"]])


def check_cylinder(out, ex, cand, rep):
    """1-D cylinder representative: per matching component, block-weight x component-area mean of the members."""
    import numpy as np

    nuclides = ex.nuclides
    check_template(out, cand, rep, "cyl")
    rc = {c.getName(): c for c in rep}
    for cname in [c["name"] for c in cand[0]["comps"]]:
        if not out.check(cname in rc, "cyl/component-set", lambda: "representative components %s" % sorted(rc)):
            continue
        mine = [[x for x in m["comps"] if x["name"] == cname][0] for m in cand]
        areas = np.array([x["area"] for x in mine])
        wt = ex.w * areas
        tab = ex.comp_table(cname)
        present = [i for i in range(len(nuclides)) if any(nuclides[i] in x["nd"] for x in mine)]
        if wt.sum() <= 0.0:
            continue
        want = (wt / wt.sum()).dot(tab)
        got = np.array([rc[cname].p.numberDensities.get(n, 0.0) for n in nuclides])
        bad = [i for i in present if not _close(got[i], want[i])]
        out.check(not bad, "cyl/component-density-not-weighted-mean",
                  lambda: "component %s nuclide %s: got %r, block-weight x area mean over the eligible members %r" % (cname, nuclides[bad[0]], got[bad[0]], want[bad[0]]))
        lo, hi = tab.min(axis=0), tab.max(axis=0)
        rng = [i for i in present if not (lo[i] * (1 - 1e-9) <= got[i] <= hi[i] * (1 + 1e-9))]
        out.check(not rng, "cyl/component-density-outside-member-range",
                  lambda: "component %s nuclide %s: %r not in [%r, %r]" % (cname, nuclides[rng[0]], got[rng[0]], lo[rng[0]], hi[rng[0]]))


GEOMETRIES = ["0D", "1D cylinder", "2D hex", "1D cylinder", "0D", "1D slab", "1D cylinder", "0D", "1D cylinder", "2D hex"]
STEP_BU = [0.0, 2.0, 5.0, 9.0, 10.0, 11.0, 12.0, 19.0, 21.0, 25.0, 29.0, 31.0, 45.0, 80.0]


def grouping_strategy(tier):
    bounds = st.lists(st.integers(1, 100), max_size=7, unique=True).map(sorted)
    tbounds = st.lists(st.sampled_from([200, 300, 350, 400, 450, 500, 600, 700]), min_size=1, max_size=5, unique=True).map(sorted)
    ctrl = st.fixed_dictionaries({
        "type": st.sampled_from(["A", "A", "B", "a"]),
        "env": st.sampled_from(["A", "A", "A", "B", "C", "D"]),
        "geometry": st.sampled_from(GEOMETRIES),
        "rep": st.sampled_from(["Median", "Average", "FluxWeightedAverage"]),
        "filter": st.sampled_from([0, 1, 0, 2, 0, 3, 0, 4, 0, 5, 0, 6, 0, 7, 0, 8]),  # 0 = no validBlockTypes: the geometry's default applies
        "byComponent": st.booleans(),
        "tempIsotope": st.sampled_from(["FE56", "U238", "NA23", "ZR90", "FE56", "CR52", "NA23", "U235"]),
    })
    step = st.fixed_dictionaries({
        # per block: [0, _] keep the burnup, [1, d] burn d % more, [2, v] set it, [3, j] take the burnup another block
        # had before this step (lands in that block's burnup group; fuel follows a non-fuel block)
        "bu": st.lists(st.one_of(st.just([0, 0.0]), st.tuples(st.just(1), st.sampled_from([1.0, 3.0, 6.0, 11.0, 21.0])).map(list),
                                 st.tuples(st.just(2), st.sampled_from(STEP_BU)).map(list),
                                 st.tuples(st.just(3), st.integers(0, 11)).map(list),
                                 st.tuples(st.just(3), st.integers(0, 3)).map(list)), min_size=12, max_size=12),
        "fuelT": st.lists(st.one_of(st.none(), st.sampled_from([250.0, 350.0, 450.0, 550.0, 790.0])), min_size=12, max_size=12),
        "type": st.lists(st.one_of(st.none(), st.none(), st.sampled_from(DESIGNS[:2])), min_size=12, max_size=12),
    })
    base = st.fixed_dictionaries({
        "blocks": _block_lists(_block_strategy(with_xs=True)),
        "buGroups": st.one_of(st.just([]), st.just([10, 20, 30]), st.just([10, 20, 30]), bounds, bounds),
        "tempGroups": st.one_of(st.just([]), st.just([]), tbounds, st.just([200, 300, 400, 500, 600])),
        "rep": st.sampled_from(["Median", "Average", "Average", "FluxWeightedAverage"]),
        "allTypes": st.sampled_from([False, False, True]),
        "control": st.lists(ctrl, max_size=4, unique_by=lambda c: (c["type"], c["env"])),
        "fluxMode": st.sampled_from(["positive", "positive", "zero"]),
        "lfp": st.sampled_from([0, 0, 1]),
        "onBoundary": st.booleans(),
        "profile": st.sampled_from(["free", "free", "free", "many"]),
        # history: further createRepresentativeBlocks calls on the same manager after burnup / temperature / block-type
        # changes, then (optionally) perturbed-state representatives for a list of blocks
        "steps": st.one_of(st.just([]), st.lists(step, min_size=1, max_size=2), st.lists(step, min_size=1, max_size=1)),
        "perturb": st.one_of(st.none(), st.lists(st.integers(0, 11), min_size=1, max_size=6)),
        # the one-letter xs types of the core (block and entry letters are folded into this pool, so that groups hold
        # several blocks of different kinds); [] = every letter as drawn
        "scenario": st.sampled_from([None, "temp-isotope", "late-eligible", "default-filter", None, "temp-isotope"]),
        "scenarioIsotope": st.sampled_from(["FE56", "NA23", "CR52", "ZR90", "FE56", "NA23"]),
        "scenarioGeometry": st.sampled_from(["1D cylinder", "0D", "2D hex", "1D cylinder"]),
        "xsPool": st.one_of(st.just([]), st.lists(st.sampled_from(["A", "B", "Z", "a", "c", "z"]), min_size=1, max_size=3, unique=True),
                            st.sampled_from(["A", "B", "a", "z"]).map(lambda x: [x])),
    })
    return base.map(_avoid_known_grouping)


def _env_letter(num):
    return ALPHABET[num]


def _settings_for(key, control, default):
    """XSSettings.__getitem__: exact id, else lowest env group of the same type below it, else the defaults."""
    if key in control:
        return control[key]
    same = sorted(k for k in control if k[0] == key[0] and k[1] < key[1])
    if same:
        return control[same[0]]
    return default


def _entry_model(c, default):
    """Options of one crossSectionControl entry after XSModelingOptions.setDefaults (defaults depend on the geometry):
    0D / 2D hex keep the entry's (or the global) block representation, 1D cylinder / 1D slab impose their component
    collections; the global valid-block-type default is applied for 0D, 1D slab and 1D cylinder, not for 2D hex."""
    c = dict(c)
    g = c.get("geometry", "0D")
    f = FILTERS[c["filter"] % len(FILTERS)]
    if f is not None:
        c["filterList"] = list(f)
    else:
        c["filterList"] = None if g == "2D hex" else default["filterList"]
    if g == "1D cylinder":
        c["rep"] = "Cylinder"
    elif g == "1D slab":
        c["rep"] = "Slab"
    return c


def grouping_execute(case):
    from armi.physics.neutronics import crossSectionGroupManager as xsgm
    from armi.physics.neutronics.fissionProductModel.tests import test_lumpedFissionProduct

    out = Out()
    for sig in case.get("excluded", []):
        out.label("excluded:" + sig)
    specs = resolve_like(case["blocks"])
    bu_b = list(case["buGroups"])
    t_b = list(case["tempGroups"])
    single = not bu_b and not t_b
    steps = list(case.get("steps", []))
    perturb = case.get("perturb")
    history = bool(steps) or perturb is not None
    pool = list(case.get("xsPool", []))

    def fold(letter):
        return pool[ALPHABET.index(letter) % len(pool)] if pool else letter

    if case["onBoundary"] and bu_b:
        for i, s in enumerate(specs):
            if i % 2 == 0:
                s["bu"] = float(bu_b[i % len(bu_b)])
    for s in specs:
        if case["fluxMode"] == "zero":
            s["flux"] = 0.0
        # two-letter types only for one-call cases without groups (the perturbed-state API and the re-homing of
        # unrepresented groups split an XS ID into one type and one env letter)
        s["bpXs"] = s["xs2"] if single and not history and s["design"] == 2 else fold(s["xs"])
    default = {"rep": case["rep"], "filterList": None if case["allTypes"] else ["fuel"], "byComponent": False, "tempIsotope": "U238"}
    control = {}
    # the isotope that places a block in a temperature group is looked up with the block's CURRENT suffix, so it is kept
    # one per xs type (that of the type's 'A' entry, else the default): otherwise regrouping a refreshed core could move
    # blocks again and "the" group of a block would not be defined
    iso = {}
    for c in case["control"]:
        if c.get("env", "A") == "A":
            iso.setdefault(fold(c["type"]), c["tempIsotope"])
    xsctl = {}
    for c in case["control"]:
        c = _entry_model(c, default)
        c["type"] = fold(c["type"])
        if c["type"] + c.get("env", "A") in control:
            continue  # folded onto an entry that exists already
        c["tempIsotope"] = iso.get(c["type"], "U238")
        key = c["type"] + c.get("env", "A")
        control[key] = c
        g = c.get("geometry", "0D")
        d = {"geometry": g, "averageByComponent": c["byComponent"], "xsTempIsotope": c["tempIsotope"]}
        if g in ("0D", "2D hex"):
            d["blockRepresentation"] = c["rep"]
        f = FILTERS[c["filter"] % len(FILTERS)]
        if f is not None:
            d["validBlockTypes"] = list(f)
        xsctl[key] = d
    settings = {"buGroups": bu_b, "tempGroups": t_b, "xsBlockRepresentation": case["rep"],
                "disableBlockTypeExclusionInXsGeneration": bool(case["allTypes"])}
    if xsctl:
        settings["crossSectionControl"] = xsctl
    cs, bp, r, blocks = build(specs, settings)
    nuclides = list(bp.allNuclidesInProblem)
    shared = test_lumpedFissionProduct.getDummyLFPFile().createLFPsFromFile() if case["lfp"] else None
    for b, s in zip(blocks, specs):
        apply_state(b, s)
        if s.get("fuelT") is not None and FAMILY[b.getType()] == "fuel":
            b.getComponentByName("fuel").setTemperature(s["fuelT"])
            b.p.massHmBOL = b.getHMMass() * s["hm"]
        if len(b.p.xsType) == 1:
            b.p.envGroup = s["env"]  # stale value, to be refreshed by the manager
        if shared is not None:
            b.setLumpedFissionProducts(shared)

    if case.get("zeroHmIneligible"):
        hit = False
        for b in list(blocks) + [b for a in bp.assemblies.values() for b in a]:
            f = _settings_for(b.p.xsType[0] + "A", control, default)["filterList"]
            if f and not any(set(x.split()) <= set(b.getType().split()) for x in f) and b.p.massHmBOL:
                b.p.massHmBOL = 0.0
                hit = True
        if hit:
            out.label("excluded:" + SIG_BURNUP)

    csm = xsgm.CrossSectionGroupManager(r, cs)
    csm.interactBOL()
    core = list(r.core.getBlocks())
    out.check(sorted(id(b) for b in core) == sorted(id(b) for b in blocks), "harness/core-blocks", "core blocks differ from the built ones")
    coreids = {id(b) for b in core}
    skip = ("envGroup", "envGroupNum")
    nbu, nt = len(bu_b) + 1, len(t_b) + 1
    out.label("bounds:%s" % ("none" if single else "bu" if not t_b else "bu+temp" if bu_b else "temp"),
              "rep:" + case["rep"], "control:%d" % len(control), "calls:%d" % (1 + len(steps)))
    if case.get("scenario") and len(specs) >= 3:
        out.label("scenario:" + case["scenario"])
    for c in control.values():
        out.label("geometry:" + c.get("geometry", "0D") + ("" if FILTERS[c["filter"] % len(FILTERS)] else "/default-filter"))

    def one_call(tag):
        """Group + create representatives for the CURRENT state of the core; the whole oracle, no memory of earlier calls.
        Returns False when armi refused the state in a documented way."""
        meas0 = {id(b): measure(b) for b in core}
        old_env = {id(b): b.p.envGroup for b in core}
        before = {id(b): observe(b, skip) for b in core}
        groups = csm.makeCrossSectionGroups()

        # ---- partition
        count = {}
        key_of = {}
        for key, coll in groups.items():
            for b in coll:
                count[id(b)] = count.get(id(b), 0) + 1
                key_of[id(b)] = key
                out.check(b.getMicroSuffix() == key, "group/member-suffix-differs-from-key",
                          lambda: "%s: block %s with suffix %r sits in group %r" % (tag, b.getName(), b.getMicroSuffix(), key))
            # (copies of blueprint-only blocks may join any group their refreshed suffix names - _getMissingBlueprintBlocks)
            out.check(len(coll) > 0, "group/empty-group", "group %r is empty" % key)
        for b in core:
            out.check(count.get(id(b), 0) == 1, "group/block-not-in-exactly-one-group",
                      lambda: "%s: block %s is in %d groups" % (tag, b.getName(), count.get(id(b), 0)))

        # ---- environment group from the boundaries
        lower = 0
        for b in core:
            m = meas0[id(b)]
            xs = b.p.xsType
            if single:
                want = xs if len(xs) == 2 else xs + old_env[id(b)]
                out.check(b.getMicroSuffix() == want, "group/env-group-touched-without-boundaries",
                          lambda: "%s: block %s: suffix %r, expected %r (no burnup/temperature groups)" % (tag, b.getName(), b.getMicroSuffix(), want))
                continue
            bi = [i for i, u in enumerate(bu_b + [math.inf]) if m["bu"] <= u][0]
            num = int(b.p.envGroupNum)
            out.check(num % nbu == bi, "group/burnup-group-index",
                      lambda: "%s: block %s burnup %r bounds %s: envGroupNum %d (mod %d = %d), expected burnup group %d" % (tag, b.getName(), m["bu"], bu_b, num, nbu, num % nbu, bi))
            st_ = _settings_for(xs + old_env[id(b)], control, default)
            isot = st_["tempIsotope"]
            ti = 0
            known_t = True
            if nt > 1:
                nvt = sum((c["nd"][isot] or TRACE) * c["vol"] * c["T"] for c in m["comps"] if isot in c["nd"])
                nv = sum((c["nd"][isot] or TRACE) * c["vol"] for c in m["comps"] if isot in c["nd"])
                if nv > 0:
                    T = nvt / nv
                    if any(abs(T - u) < 1e-6 for u in t_b):
                        known_t = False  # on a boundary within rounding: either side
                    ti = [i for i, u in enumerate(t_b + [math.inf]) if T <= u][0]
                else:
                    known_t = False  # isotope absent: no temperature to classify by
            if known_t:
                out.check(num // nbu == ti, "group/temperature-group-index",
                          lambda: "%s: block %s %s temperature group %d expected %d (bounds %s)" % (tag, b.getName(), isot, num // nbu, ti, t_b))
            out.check(b.p.envGroup == _env_letter(num) and b.getMicroSuffix() == xs + _env_letter(num), "group/env-letter",
                      lambda: "%s: block %s envGroupNum %d envGroup %r suffix %r" % (tag, b.getName(), num, b.p.envGroup, b.getMicroSuffix()))
            if num >= 26:
                lower += 1
        for b in core:
            d = _diff(before[id(b)], observe(b, skip))
            if d:
                out.fail("group/source-block-changed", "%s makeCrossSectionGroups: block %s %s" % (tag, b.getName(), d))
                break

        if len(core) >= 3 and len({b.getMicroSuffix() for b in core}) >= 2:
            out.nontrivial = True
        out.label("groups:%s" % ("1" if len(groups) == 1 else "2-3" if len(groups) <= 3 else "4+"))
        if lower:
            out.label("env:lower-case")
        if any(len(b.p.xsType) == 2 for b in core):
            out.label("xs:two-letter")
        if any(b.p.xsType in LOWER for b in core):
            out.label("xs:lower-case")
        if any(id(b) not in coreids for coll in groups.values() for b in coll):
            out.label("blueprint-only-groups")

        # ---- representatives from the manager
        members = {key: list(coll) for key, coll in groups.items()}
        plan = {}
        refusals = []
        for key, mem in members.items():
            st_ = _settings_for(key, control, default)
            ms = [measure(b) if id(b) not in meas0 else meas0[id(b)] for b in mem]
            # (state of core blocks is unchanged since meas0 except the env group, which measure() does not read)
            mask = [eligible(m, st_["filterList"]) for m in ms]
            cand = [m for m, e in zip(ms, mask) if e]
            plan[key] = (st_, ms, mask, cand)
            if cand and st_["rep"] == "FluxWeightedAverage" and Expect(cand, nuclides, True).mixed:
                refusals.append(("mixed-weights", ValueError, key))
            if cand and st_["rep"] == "Cylinder" and not _cyl_consistent(cand):
                refusals.append(("inconsistent-components", ValueError, key))
            if cand and st_["rep"] == "Slab":
                refusals.append(("slab-needs-rectangles", (TypeError, ValueError), key))
        env_grouped = {id(b): b.p.envGroup for b in core}
        try:
            csm.createRepresentativeBlocks()
            out.check(not refusals, "group/documented-refusal-missing",
                      lambda: "%s: no error although %s" % (tag, [(n, k) for n, _e, k in refusals]))
        except (ValueError, TypeError) as exc:
            if not any(isinstance(exc, e) for _n, e, _k in refusals):
                raise
            # documented refusals: zero and non-zero flux among eligible members (blueprint-only blocks carry no flux),
            # 1-D cylinder members whose components do not align, 1-D slab with non-rectangular components
            out.rejected = True
            for n in sorted({n for n, _e, _k in refusals}):
                out.label("refused:" + n)
        for b in core:
            d = _diff(before[id(b)], observe(b, skip))
            if d:
                out.fail("group/source-block-changed", "%s createRepresentativeBlocks: block %s %s" % (tag, b.getName(), d))
                break
        if out.rejected:
            return False
        reps = csm.representativeBlocks
        out.check(list(reps) == sorted(reps), "group/representatives-not-sorted", lambda: "%s" % list(reps))
        # env group after the call: members of represented groups keep the group the boundaries gave them; members of
        # groups without an eligible member may be re-homed to a represented group of the same type (documented)
        for b in core:
            key = key_of.get(id(b))
            if key is None:
                continue
            now = b.p.envGroup
            if plan[key][3]:
                out.check(now == env_grouped[id(b)], "group/member-of-represented-group-relabelled",
                          lambda: "%s: block %s of represented group %r now has env group %r" % (tag, b.getName(), key, now))
            else:
                ok = {env_grouped[id(b)]} | {k[1] for k in reps if k[0] == key[0] and len(k) == 2}
                out.check(now in ok, "group/unrepresented-member-env-group",
                          lambda: "%s: block %s of unrepresented group %r now has env group %r, represented: %s" % (tag, b.getName(), key, now, list(reps)))
                if now != env_grouped[id(b)]:
                    out.label("unrepresented-group-rehomed")
        for key, mem in members.items():
            st_, ms, mask, cand = plan[key]
            if key not in control and st_ is not default:
                out.label("settings:inherited-from-lowest-of-%d-entries" % min(2, len([k for k in control if k[0] == key[0] and k[1] < key[1]])))
            if not cand:
                out.check(key not in reps, "group/representative-without-eligible-members", "%s: group %r" % (tag, key))
                out.label("group:no-eligible-members")
                continue
            if not out.check(key in reps, "group/no-representative", lambda: "%s: group %r with %d eligible members has no representative" % (tag, key, len(cand))):
                continue
            if len(cand) < len(ms):
                out.label("group:ineligible-members")
            rep = reps[key]
            kind = st_["rep"]
            fluxW = kind == "FluxWeightedAverage"
            ex = Expect(cand, nuclides, fluxW)
            check_deep_copy(out, rep, mem, "group")
            if kind == "Median":
                keys = ex.median_keys()
                order = sorted(range(len(keys)), key=lambda i: keys[i])
                n = len(order)
                mids = {order[n // 2]} if n % 2 else {order[n // 2 - 1], order[n // 2]}
                byname = {m["name"]: i for i, m in enumerate(cand)}
                who = byname.get(rep.getName())
                if out.check(who is not None, "median/not-a-member", lambda: "%s: group %r: %r" % (tag, key, rep.getName())):
                    out.check(any(keys[who][0] == keys[i][0] for i in mids), "median/not-the-median-member",
                              lambda: "%s: group %r: copy of %s; sorted weighted burnups %s" % (tag, key, rep.getName(), [keys[i][0] for i in order]))
                continue
            got_t = csm.avgNucTemperatures.get(key)
            out.check(got_t is not None, "group/no-nuclide-temperatures", "group %r" % key)

            class _C:  # the manager keeps the collection's temperatures under the group key
                avgNucTemperatures = got_t or {}

            if kind == "Cylinder":
                out.label("group:cylinder")
                check_cylinder(out, ex, cand, rep)
                check_nuc_temps(out, ex, _C.avgNucTemperatures, "cyl")
                check_burnup(out, Expect(ms, nuclides, fluxW), mask, rep, "cyl")
                continue
            families = {m["family"] for m in cand}
            performBy = bool(st_["byComponent"]) and len(families) == 1
            check_template(out, cand, rep, "avg")
            check_average(out, ex, rep, _C, kind, performBy)
            check_burnup(out, Expect(ms, nuclides, fluxW), mask, rep)
        return True

    alive = one_call("call 1")
    for k, stp in enumerate(steps):
        if not alive:
            break
        # state changes between calls: burnup, fuel temperature, block type (e.g. a blanket becoming driver fuel)
        was = [b.p.percentBu for b in core]
        for i, b in enumerate(core):
            mode, x = stp["bu"][i % len(stp["bu"])]
            if mode == 3:
                # a fuel block follows a non-fuel block (blanket / reflector / control) if there is one
                pick = [k_ for k_, o in enumerate(core) if FAMILY[o.getType()] != "fuel"] if FAMILY[b.getType()] == "fuel" else []
                pick = pick or list(range(len(core)))
                b.p.percentBu = was[pick[int(x) % len(pick)]]
            if mode == 1:
                b.p.percentBu = min(100.0, b.p.percentBu + x)
            elif mode == 2:
                b.p.percentBu = x
            t = stp["fuelT"][i % len(stp["fuelT"])]
            if t is not None and FAMILY[b.getType()] == "fuel":
                b.getComponentByName("fuel").setTemperature(t)
            ty = stp["type"][i % len(stp["type"])]
            if ty is not None and FAMILY[b.getType()] == "fuel":
                b.setType(ty)
        alive = one_call("call %d" % (k + 2))
    if alive and perturb is not None and csm.representativeBlocks:
        _check_perturbed(out, csm, core, perturb, nuclides)
    return out


def _check_perturbed(out, csm, core, picks, nuclides):
    """createRepresentativeBlocksUsingExistingBlocks: every listed block of a represented group moves to a fresh XS type
    (one per original type) whose representative is a copy of the original group's representative."""
    groups = csm.makeCrossSectionGroups()  # what the call does first; leaves the refreshed suffixes to read
    reps = dict(csm.representativeBlocks)
    chosen = []
    for p_ in picks:
        b = core[p_ % len(core)]
        if all(b is not c for c in chosen):
            chosen.append(b)
    orig = {id(b): b.getMicroSuffix() for b in core}
    used = {b.p.xsType for b in core}
    skipx = ("envGroup", "envGroupNum", "xsType", "xsTypeNum")
    before = {id(b): observe(b, skipx if any(b is c for c in chosen) else ("envGroup", "envGroupNum")) for b in core}
    repstate = {k: [(c.getName(), float(c.temperatureInC), sorted(c.p.numberDensities.items())) for c in v] for k, v in reps.items()}
    want_ids = sorted({orig[id(b)] for b in chosen if orig[id(b)] in reps})
    out.label("perturbed:types-%d" % min(3, len({k[0] for k in want_ids})))
    res = csm.createRepresentativeBlocksUsingExistingBlocks(chosen, reps)
    if not want_ids:
        out.check(res is None, "perturbed/result-without-represented-blocks", "no listed block belongs to a represented group, result %r" % (res,))
        return
    if not out.check(res is not None, "perturbed/no-result", "listed blocks of groups %s gave None" % want_ids):
        return
    newColls, newReps, origFromNew = res
    out.check(sorted(newReps) == sorted(origFromNew) == sorted(newColls), "perturbed/key-sets-differ",
              lambda: "collections %s representatives %s map %s" % (sorted(newColls), sorted(newReps), sorted(origFromNew)))
    out.check(sorted(origFromNew.values()) == want_ids, "perturbed/new-ids-not-one-per-original-id",
              lambda: "original ids of the listed blocks %s, new -> original map %s" % (want_ids, dict(origFromNew)))
    typemap = {}
    for new, old in origFromNew.items():
        out.check(new[1:] == old[1:], "perturbed/env-group-not-kept", lambda: "%r -> %r" % (old, new))
        out.check(new[0] not in used, "perturbed/new-type-already-in-use", lambda: "%r -> %r, types in the core %s" % (old, new, sorted(used)))
        if old[0] in typemap and typemap[old[0]] != new[0]:
            out.fail("perturbed/original-type-split", "type %r mapped to %r and %r" % (old[0], typemap[old[0]], new[0]))
        typemap[old[0]] = new[0]
    out.check(len(set(typemap.values())) == len(typemap), "perturbed/new-types-collide",
              lambda: "original type -> new type %s" % typemap)
    for b in chosen:
        o = orig[id(b)]
        if o not in reps:
            out.check(b.getMicroSuffix() == o, "perturbed/unrepresented-block-retyped", lambda: "block %s %r -> %r" % (b.getName(), o, b.getMicroSuffix()))
            continue
        n = b.getMicroSuffix()
        ok = n in newReps and origFromNew.get(n) == o
        out.check(ok, "perturbed/block-not-in-the-new-group-of-its-original-group",
                  lambda: "block %s of group %r now carries %r; new -> original map %s" % (b.getName(), o, n, dict(origFromNew)))
    for new, rep in newReps.items():
        old = origFromNew.get(new)
        if old not in repstate:
            continue
        out.check(rep.getMicroSuffix() == new, "perturbed/representative-suffix", lambda: "representative of %r carries %r" % (new, rep.getMicroSuffix()))
        now = [(c.getName(), float(c.temperatureInC), sorted(c.p.numberDensities.items())) for c in rep]
        out.check(now == repstate[old], "perturbed/representative-not-a-copy-of-the-original",
                  lambda: "representative %r differs from the representative of %r" % (new, old))
        out.check(rep is not reps[old] and not ({id(c) for c in rep} & {id(c) for c in reps[old]}), "perturbed/representative-shares-state",
                  "new representative %r shares objects with %r" % (new, old))
        if old in groups and new in newColls:
            out.check(type(newColls[new]) is type(groups[old]) and len(newColls[new]) == 0, "perturbed/collection-kind",
                      lambda: "%r: %s (len %d), original %s" % (new, type(newColls[new]).__name__, len(newColls[new]), type(groups[old]).__name__))
    for k, v in reps.items():
        now = [(c.getName(), float(c.temperatureInC), sorted(c.p.numberDensities.items())) for c in v]
        out.check(now == repstate[k] and v.getMicroSuffix() == k, "perturbed/original-representative-changed", "representative %r" % k)
    for b in core:
        isch = any(b is c for c in chosen)
        d = _diff(before[id(b)], observe(b, skipx if isch else ("envGroup", "envGroupNum")))
        if d:
            out.fail("perturbed/block-changed", "block %s (%s): %s" % (b.getName(), "listed" if isch else "not listed", d))
            break


PARTS = [
    Part("labels", labels_execute, enumerate=labels_enum, exhaustive=True, procs={"quick": 4, "thorough": 8},
         rule="every one-letter (52) and two-letter (2704) XS type label over A-Z a-z: label -> number is the concatenated "
              "character codes and injective over the whole domain, number -> label and the linked block parameters "
              "(xsType <-> xsTypeNum) return the label; the 52 environment letters <-> 0..51; every label is non-trivial",
         bound=lambda t: "all labels of length 1 and 2 over 52 letters"),
    Part("collections", collections_execute, strategy=collections_strategy, budget={"quick": 400, "thorough": 24000},
         procs={"quick": 8, "thorough": 16},
         rule="Hypothesis: 1-12 single-block assemblies from blueprint text (4 block designs, pin scale, enrichment, height), "
              "edited per component (temperature with/without expansion, nuclide densities scaled/zeroed/added), burnup, massHmBOL, "
              "flux all-positive/all-zero/mixed, LFP collections; x Median/Average/FluxWeightedAverage/by-component/1-D cylinder x "
              "9 validBlockTypes filters; oracle: numpy weight-normalised means over the eligible members (weight = parameter x "
              "volume) for densities, component and nuclide temperatures, HM-weighted burnup, median member, plus range / common "
              "value / duplication / eligible-only / rescaling invariance and unchanged source blocks; non-trivial = >= 3 eligible "
              "members with distinct compositions and non-uniform weights"),
    Part("grouping", grouping_execute, strategy=grouping_strategy, budget={"quick": 280, "thorough": 10000},
         procs={"quick": 8, "thorough": 16},
         rule="Hypothesis: generated full hex core (1-12 blocks, xs types incl. lower-case and two-letter, stale env groups), buGroups / "
              "tempGroups boundaries (burnups placed on boundaries), crossSectionControl entries, representation setting; oracle: every "
              "core block in exactly one group keyed by its micro suffix, envGroupNum = tempIndex x nBu + buIndex from inclusive upper "
              "bounds, representatives of every group with eligible members equal the numpy reference, core blocks unchanged except "
              "env group; non-trivial = >= 3 blocks in >= 2 groups"),
]
