"""C06 - database snapshots are isolated, complete, queryable and survive aborted runs.

Part A (``histories``): generated programs of state changes / writes / loads / listings / history queries / re-writes /
close+reopen / mergeHistory / splitDatabase on a real ``Database`` file, interpreted against the reference model
``{(cycle, node, label): observe(reactor at write time)}``.

Part B (``faults``): complete enumeration of single injected exceptions at every (hook, interface position, cycle, node)
of a real ``Operator`` run with the stack ``[opener, recorder A, DatabaseInterface, recorder B]``; the oracle inspects the
file left in the working directory.
"""
import copy
import os
import shutil

from hypothesis import strategies as st

from vp.gen import reactor as rg
from vp.runner import Out, Part

PROPERTY = "C06"
LEVEL = "fault_enumeration"
ASSUMPTIONS = [
    "snapshot equality is C04's observe() equality (type, name, serial number, child order, grids, locators, materials, "
    "temperatures, dimensions, number densities, every persistent parameter's effective value) with C04's documented "
    "normalisations; core.minutesSinceStart (wall clock, set by the database interface itself) is ignored; the order of the "
    "components inside one block is not compared (Composite.sort orders a DerivedShape by a cache-dependent diameter)",
    "merge/split 'unchanged' is checked on the HDF5 content: every dataset (dtype, shape, bytes) and attribute of the copied "
    "groups; for split the stored Reactor/cycle value must be the renumbered cycle (cycle - smallest kept cycle), the group "
    "attribute 'cycle' is not asserted",
    "history values are compared with observe.loose_value (container kind and int/float kind forgotten); when several labelled "
    "snapshots share one (cycle, node) any of their values is accepted for that step; for the current, unwritten step "
    "Database.getHistories may add the live value (if present it must be the live value), DatabaseInterface.getHistory/"
    "getHistories must report the live value for the current step; a live 'location' may be local or complete indices",
    "restart points for mergeHistory are steps present in the source (or later than every step), as prepRestartRun makes them",
    "fault runs: expected snapshot contents are captured by the harness' own recorder interfaces (state after the last recorder "
    "hook that precedes a database write; state at the raise); the schedule of writes comes from a reference scheduler",
    "faults at EOL after the database interface has closed the file are outside the statement: only existence/listing is checked",
    "cycle and node numbers < 100; labels from {EOL, error, BOL, -special}; no ragged parameters in history queries (array "
    "parameters are assigned on every object of a class at once, with six numbers: a column mixing unset and array values is stored "
    "ragged); reactors are the shared generator's metal-fuel, full-density sub-domain; faults inside the database writer and "
    "process kills are not simulated",
]

SIG_UNSTORED = "history/unstored-parameter-of-component-subclass-KeyError"
SIG_LOCLOC = "history/by-location-of-location-ValueError"
SIG_SPLIT_ATTR = "split/group-attribute-cycle-not-renumbered"
# shapes of candidate armi defects: avoided by construction in the search (counted as excluded:<sig>), exercised by part known_shapes
# all three were repaired in /repo (fix: commits bb6b5f5, 8cac548, 9c3bcc9): the shapes are searched again
SIG_PRELOAD = "tracker/preloaded-current-written-step-is-live-value"
EXCLUDE_KNOWN = {SIG_UNSTORED: False, SIG_LOCLOC: False, SIG_SPLIT_ATTR: False, SIG_PRELOAD: True}

LABELS = [None, "EOL", "error", "BOL", "-special"]

# ---------------------------------------------------------------------------------------------------------------------
# parameter tables: (name, kind); kinds: f float, i int, xs one-letter string, s short string, a6 fixed-shape array(6)

TABLES = {
    "reactor": [("cycleLength", "f"), ("stepLength", "f"), ("availabilityFactor", "f"), ("capacityFactor", "f")],
    "core": [("power", "f"), ("keff", "f"), ("maxPD", "f"), ("maxBuI", "f"), ("peakGridDpaAt60Years", "f")],
    "assem": [("chargeTime", "f"), ("dischargeTime", "f"), ("multiplicity", "i"), ("notes", "s"), ("numMoves", "i")],
    "block": [("power", "f"), ("flux", "f"), ("percentBu", "f"), ("residence", "f"), ("xsType", "xs"), ("envGroup", "xs"),
              ("pointsEdgeDpa", "a6"), ("pointsCornerDpa", "a6"), ("pdens", "f")],
    "comp": [("percentBu", "f"), ("massHmBOL", "f"), ("molesHmBOL", "f"), ("puFrac", "f")],
}
LEVEL_NAMES = ["block", "block", "assem", "assem", "core", "comp", "reactor"]

OP_KINDS = ["mutate", "unset", "swap", "other", "settime", "write", "rewrite", "load", "list", "history", "reopen", "merge", "split"]
OP_WEIGHTS = {"mutate": 4, "unset": 2, "swap": 4, "other": 2, "settime": 2, "write": 6, "rewrite": 2, "load": 2, "list": 1,
              "history": 6, "reopen": 1, "merge": 2, "split": 2}
ALWAYS_ENABLED = ("write", "mutate", "swap", "history", "load")  # the other kinds are switched on per case (swarm testing)


def _value():
    fl = st.floats(-1e9, 1e9, allow_nan=False).map(float)
    return st.fixed_dictionaries(
        {
            "f": st.one_of(fl, st.sampled_from([0.0, 1.5, -2.0, 1e-30, 3.0e15])),
            "i": st.integers(0, 10**6),
            "s": st.text(alphabet="abcXYZ 019-_", max_size=8),
            "xs": st.sampled_from(list("ABCDEFGZ")),
            "a6": st.lists(fl, min_size=6, max_size=6),
        }
    )


def _small_or_big(small, big):
    return st.one_of(st.integers(0, small), st.integers(0, small), st.integers(0, small), st.integers(0, big))


def _op():
    """One operation.  ``sel`` selects the kind and the discrete options (decoded by ``_decode``: a fixed arithmetic hash, so
    that the choices are spread evenly even in short runs); the other fields are the payload."""
    return st.fixed_dictionaries(
        {
            "sel": st.integers(0, 2**40),
            "obj": st.integers(0, 10**6),
            "obj2": st.integers(0, 10**6),
            "obj3": st.integers(0, 10**6),
            "val": _value(),
            "T": st.floats(20.0, 700.0).map(lambda x: round(x, 2)),
            "factor": st.floats(0.1, 3.0),
            "cycle": _small_or_big(3, 99),
            "node": _small_or_big(3, 99),
            "tsel": st.one_of(st.none(), st.lists(st.integers(0, 50), min_size=1, max_size=4)),
        }
    )


def _decode(op, position=0):
    """Expand ``sel`` (mixed with the position in the program, because Hypothesis likes to repeat list elements) into the
    discrete option fields; a pure function of the case."""
    x = [(int(op["sel"]) + 0x9E3779B97F4A7C15 * (position + 1)) & (2**64 - 1)]

    def nxt(n):
        x[0] = (x[0] * 6364136223846793005 + 1442695040888963407) % 2**64
        return (x[0] >> 33) % n

    nxt(2)
    full = dict(op)
    full["k"] = nxt(10**4)
    full["level"] = LEVEL_NAMES[nxt(len(LEVEL_NAMES))]
    full["nobj"] = 1 + nxt(3)
    full["pidx"] = nxt(101)
    full["pmask"] = 1 + nxt(2**10 - 1)
    full["rot"] = 1 + nxt(5)
    full["other"] = ["temp", "ndens", "discharge", "rotate"][nxt(4)]
    full["label"] = [0, 0, 0, 0, 0, 0, 0, 0, 1, 2, 3, 4][nxt(12)]
    full["hkind"] = nxt(6)
    full["loc"] = bool(nxt(2))
    full["flag"] = bool(nxt(2))
    full["beyond"] = nxt(4) == 0
    full["stay"] = nxt(4) == 0
    full["prefer_moved"] = nxt(2) == 0
    # time of a write / settime: mostly a small grid of steps (so that runs look like runs and collisions happen), sometimes
    # anything below 100 taken from the payload
    big = nxt(8) == 0
    full["tcycle"] = op["cycle"] if big else nxt(4)
    full["tnode"] = op["node"] if big else nxt(4)
    full["midx"] = nxt(10**6)
    full["kmask"] = 1 + nxt(2**12 - 1)
    return full


def _plain_fuel(spec):
    """Stay inside the sub-domain of the shared generator whose database round trip is C04's settled ground (metal fuel at
    full density): what the database does to material state is C04's subject."""
    for d in spec["designs"]:
        if "fuelMat" in d:
            d["fuelMat"] = "UZr"
        if "td" in d:
            d["td"] = 1.0
    return spec


def hist_strategy(tier):
    return st.fixed_dictionaries(
        {
            "spec": rg.reactor_spec(max_rings=2, max_blocks=3, min_assems=3, allow_pin_grid=True).map(_plain_fuel),
            "kinds": st.lists(st.sampled_from(OP_KINDS), min_size=3, max_size=len(OP_KINDS), unique=True),
            "program": st.integers(5, 18).flatmap(lambda n: st.lists(_op(), min_size=n, max_size=n)),
        }
    )


# ---------------------------------------------------------------------------------------------------------------------
# shared: snapshots of a live reactor, comparison with a loaded one


def _snapshot(r):
    """Normalised observe() record of the (sorted) reactor."""
    from vp.props import c04

    return _canonical_component_order(c04._normalise(c04._observe(r)))


def _canonical_component_order(rec):
    """Components inside a block are ordered by serial number in both records: Composite.sort() orders them by bounding
    diameter, and for a DerivedShape that diameter depends on cache state while the child list is being sorted in place
    (the order of a block's components after load is C04's subject, not this property's)."""
    kids = rec["children"]
    if kids and all("component" in k for k in kids):
        kids.sort(key=lambda k: k.get("serialNum", 0))
    for k in kids:
        _canonical_component_order(k)
    return rec


def _drop_clock(rec):
    if rec["type"] == "Core" and "params" in rec:
        rec["params"].pop("minutesSinceStart", None)
    for c in rec["children"]:
        if c["type"] in ("Core", "Reactor"):
            _drop_clock(c)
    return rec


def _compare_snapshot(out, sig, what, expected, loaded_reactor, limit=4, drop_clock=False):
    from vp.model import observe as ob
    from vp.props import c04

    a = copy.deepcopy(expected)
    b = _snapshot(loaded_reactor)
    if drop_clock:
        _drop_clock(a)
        _drop_clock(b)
    c04._align_unlocated(a, b)
    d = ob.diff(a, b, limit=limit)
    for x in d:
        out.fail(sig, "%s: stored snapshot differs from the state at write time: %s" % (what, x))
    return not d


def _group_name(c, n, label):
    return "c%02dn%02d%s" % (c, n, label or "")


def _h5_tree(group, skip=()):
    """{path: content} of everything below ``group`` (datasets as dtype/shape/bytes, attributes likewise)."""
    import h5py
    import numpy as np

    def attr(v):
        if isinstance(v, np.ndarray):
            return (str(v.dtype), v.shape, v.tolist() if v.dtype.kind == "O" else v.tobytes())
        return (type(v).__name__, repr(v))

    items = {}

    def visit(name, obj):
        if name in skip:
            return
        attrs = {k: attr(v) for k, v in obj.attrs.items()}
        if isinstance(obj, h5py.Dataset):
            arr = obj[()]
            if isinstance(arr, np.ndarray):
                body = arr.tolist() if arr.dtype.kind == "O" else arr.tobytes()
            else:
                body = repr(arr)
            items[name] = ("dataset", str(obj.dtype), obj.shape, body, attrs)
        else:
            items[name] = ("group", attrs)

    group.visititems(visit)
    return items


def _top_attrs(group, skip=()):
    return {k: repr(v) for k, v in group.attrs.items() if k not in skip}


def _tree_diff(a, b):
    for k in sorted(set(a) | set(b)):
        if k not in a:
            return "%s only in the copy" % k
        if k not in b:
            return "%s missing in the copy" % k
        if a[k] != b[k]:
            return "%s differs" % k
    return None


# ---------------------------------------------------------------------------------------------------------------------
# Part A interpreter


class _State:
    pass


def _objects(r, level):
    if level == "reactor":
        return [r]
    if level == "core":
        return [r.core]
    assems = list(r.core)
    if level == "assem":
        sfp = r.excore.get("sfp") if hasattr(r, "excore") else None
        return assems + (list(sfp) if sfp is not None else [])
    if level == "block":
        return [b for a in assems for b in a]
    return [c for a in assems for b in a for c in b]


_TABLE_CACHE = {}


def _table(o, level):
    from armi.reactor import parameters

    key = (type(o), level)
    if key not in _TABLE_CACHE:
        res = []
        for name, kind in TABLES[level]:
            try:
                pd = o.p.paramDefs[name]
            except KeyError:
                continue
            if kind == "a6":
                # fixed shape only: unset (None) or six numbers; a parameter that blocks initialise to [] would make the column
                # ragged as soon as one object holds six numbers (ragged histories are a documented limitation)
                cur = o.p[name]
                if pd.default is not None or not (cur is None or len(cur) == 6):
                    continue
            if pd.saveToDB and pd.default is not parameters.NoDefault:
                res.append((name, kind))
        _TABLE_CACHE[key] = res
    return _TABLE_CACHE[key]


def _make_value(kind, val):
    import numpy as np

    if kind == "a6":
        return np.array(val["a6"])
    return val[kind]


def _complete_indices(o):
    """Independent of IndexLocation.getCompleteIndices: a block's axial index stacked on its assembly's (i, j)."""
    from armi.reactor.assemblies import Assembly
    from armi.reactor.blocks import Block

    if isinstance(o, Block):
        a = o.parent
        ai = [int(x) for x in a.spatialLocator.indices]
        bi = [int(x) for x in o.spatialLocator.indices]
        return (ai[0] + bi[0], ai[1] + bi[1], ai[2] + bi[2])
    if isinstance(o, Assembly):
        return tuple(int(x) for x in o.spatialLocator.indices)
    return None


def _value_of(o, name):
    from vp.model import observe as ob

    return ob.loose_value(o.p[name])


def _hist_snapshot(r):
    """Per serial number: class name, tracked parameter values, complete indices, whether anchored in the core and depth."""
    from armi.reactor.reactors import Core

    res = {}
    for level in ("reactor", "core", "assem", "block", "comp"):
        for o in _objects(r, level):
            anchor = o.getAncestorAndDistance(lambda x: isinstance(x, Core))
            vals = {name: _value_of(o, name) for name, _k in _table(o, level)}
            vals["serialNum"] = int(o.p.serialNum)
            res[int(o.p.serialNum)] = {
                "cls": type(o).__name__,
                "vals": vals,
                "loc": _complete_indices(o),
                "depth": None if anchor is None else anchor[1],
            }
    return res


def _written_steps(S):
    """Sorted (cycle, node) of unlabelled snapshots."""
    return sorted((c, n) for (c, n, lab) in S.model if lab is None)


def _expected_names(S):
    return sorted(_group_name(*k) for k in S.model)


def _check_listing(S, out, where):
    names = [g for g in S.db.keys()]
    want = ["/" + n for n in _expected_names(S)]
    out.check(names == want, "list/keys", lambda: "%s: keys() %r, written snapshots %r" % (where, names, want))
    steps = list(S.db.genTimeSteps())
    wsteps = [(c, n) for (c, n, _l) in sorted(S.model, key=lambda k: _group_name(*k))]
    out.check([tuple(int(x) for x in s) for s in steps] == wsteps, "list/genTimeSteps",
              lambda: "%s: genTimeSteps() %r, expected %r" % (where, steps, wsteps))


def _op_write(S, out, op, key=None):
    if key is None and not op["stay"]:
        S.r.p.cycle, S.r.p.timeNode = op["tcycle"], op["tnode"]  # a run writes at a time step of its own
        _note_mutation(S)
    c, n = int(S.r.p.cycle), int(S.r.p.timeNode)
    label = LABELS[op["label"]] if key is None else key[2]
    key = (c, n, label)
    if key in S.model:
        # second write to an existing snapshot: refused, stored snapshot untouched
        before = _h5_tree(S.db.h5db[_group_name(*key)])
        try:
            S.db.writeToDB(S.r, label)
            out.fail("rewrite/not-refused", "second writeToDB at %s did not raise" % (key,))
        except ValueError:
            pass
        after = _h5_tree(S.db.h5db[_group_name(*key)])
        d = _tree_diff(before, after)
        out.check(d is None, "rewrite/snapshot-changed", lambda: "refused second write at %s changed the stored snapshot: %s" % (key, d))
        S.counts["rewrite"] += 1
        if S.mutated_since.get(key):
            S.counts["rewrite-after-mutation"] += 1
        return
    S.db.writeToDB(S.r, label)
    S.r.sort()
    S.model[key] = _snapshot(S.r)
    S.hmodel[key] = _hist_snapshot(S.r)
    S.mutated_since[key] = False
    S.counts["write"] += 1
    if label:
        S.counts["write-labelled"] += 1


def _note_mutation(S):
    for k in S.mutated_since:
        S.mutated_since[k] = True


def _op_load(S, out, op):
    keys = sorted(S.model, key=lambda k: _group_name(*k))
    if not keys:
        return
    key = keys[op["obj"] % len(keys)]
    r2 = S.db.load(key[0], key[1], cs=S.cs, bp=S.bp, statePointName=key[2])
    stale = S.mutated_since[key]
    _compare_snapshot(out, "load/stale-snapshot-differs" if stale else "load/fresh-snapshot-differs", "load%r" % (key,), S.model[key], r2)
    S.counts["load"] += 1
    if stale:
        S.counts["load-after-mutation"] += 1
        if len(S.model) >= 2:
            S.nontrivial = True


def _op_list(S, out, op):
    _check_listing(S, out, "list")
    for key in sorted(S.model, key=lambda k: _group_name(*k))[:6]:
        out.check(S.db.hasTimeStep(key[0], key[1], key[2] or ""), "list/hasTimeStep-false", lambda: "hasTimeStep%r is False for a written snapshot" % (key,))
    probe = (op["tcycle"], op["tnode"], LABELS[op["label"]])
    got = S.db.hasTimeStep(probe[0], probe[1], probe[2] or "")
    out.check(bool(got) == (probe in S.model), "list/hasTimeStep", lambda: "hasTimeStep%r = %r, written: %r" % (probe, got, probe in S.model))
    S.counts["list"] += 1


def _candidates(S, steps):
    """{(c, n): [per-snapshot hist records]} for the requested steps (None = every group incl. labelled ones)."""
    res = {}
    for (c, n, lab) in sorted(S.hmodel, key=lambda k: _group_name(*k)):
        if steps is None or ((c, n) in steps and lab is None):
            res.setdefault((c, n), []).append(S.hmodel[(c, n, lab)])
    return res


HIST_CALLS = ["getHistory", "getHistories", "getHistoryByLocation", "getHistoriesByLocation", "dbi.getHistory", "dbi.getHistories"]
def _inherited_unstored(S, comp, name, steps):
    """Known-defect shape: ``name`` is defined on a base class' parameter collection (all Component shapes) and is absent from
    one of the snapshots the query covers (never assigned in this process when that snapshot was written)."""
    if name in ("location",):
        return False
    pd = comp.p.paramDefs[name]
    if pd.collectionType is type(comp).paramCollectionType:
        return False
    cls = type(comp).__name__
    for (c, n, lab) in S.model:
        if steps is None or ((c, n) in steps and lab is None):
            g = S.db.h5db[_group_name(c, n, lab)]
            if cls in g and name not in g[cls]:
                return True
    return False


def _op_history(S, out, op):
    from vp.model import observe as ob

    level = op["level"]
    hkind = op["hkind"]
    use_dbi = hkind in (4, 5)
    by_loc = hkind in (2, 3) or (use_dbi and op["loc"] and op["flag"])
    if by_loc and level not in ("assem", "block"):
        level = "block" if op["obj"] % 2 else "assem"
    pool = _objects(S.r, level)
    if by_loc and level == "assem":
        pool = list(S.r.core)
    if not pool:
        return
    if op["prefer_moved"] and level in ("assem", "block"):
        # steer half of the queries to objects that changed place since the first write
        movers = [o for o in pool if int((o if level == "assem" else o.parent).p.serialNum) in S.moved]
        if movers:
            pool = movers
    single = hkind in (0, 2, 4)
    idx = [op["obj"] % len(pool), op["obj2"] % len(pool), op["obj3"] % len(pool)][: 1 if single else op["nobj"]]
    comps = []
    for i in idx:
        if pool[i] not in comps:
            comps.append(pool[i])
    table = _table(comps[0], level)
    names = [n for j, (n, _k) in enumerate(table) if (op["pmask"] >> j) & 1]
    if level != "reactor":
        names.append("serialNum")
    if op["loc"] and level in ("assem", "block"):
        names.append("location")
    if not names:
        names = [table[0][0]]
    written = _written_steps(S)
    steps = None
    if op["tsel"] is not None:
        steps = []
        for t in op["tsel"]:
            if written:
                s = written[t % len(written)]
                if s not in steps:
                    steps.append(s)
    if by_loc and "location" in names and EXCLUDE_KNOWN.get(SIG_LOCLOC):
        names.remove("location")
        S.counts["excluded:" + SIG_LOCLOC] += 1
        if not names:
            names = ["serialNum"]
    if S.stale_attr and EXCLUDE_KNOWN.get(SIG_SPLIT_ATTR):
        covered = [k for k in S.stale_attr if steps is None or ((k[0], k[1]) in steps and k[2] is None)]
        if covered:
            # snapshots renumbered by splitDatabase keep their old cycle in the group attribute: ask about the others only
            S.counts["excluded:" + SIG_SPLIT_ATTR] += 1
            steps = [s_ for s_ in (written if steps is None else steps) if (s_[0], s_[1], None) not in S.stale_attr]
            if not steps:
                return
    if EXCLUDE_KNOWN.get(SIG_UNSTORED):
        kept = [n for n in names if not any(_inherited_unstored(S, c, n, None if steps is None else set(steps)) for c in comps)]
        if len(kept) < len(names):
            S.counts["excluded:" + SIG_UNSTORED] += 1
        names = kept
        if not names:
            return
    cur = (int(S.r.p.cycle), int(S.r.p.timeNode))
    cand = _candidates(S, None if steps is None else set(steps))
    tag = HIST_CALLS[hkind]
    arg_steps = None if steps is None else list(steps)
    try:
        if hkind == 0:
            res = {comps[0]: S.db.getHistory(comps[0], names, arg_steps)}
        elif hkind == 1:
            res = S.db.getHistories(comps, names, arg_steps)
        elif hkind == 2:
            res = {comps[0]: S.db.getHistoryByLocation(comps[0], names, arg_steps)}
        elif hkind == 3:
            res = S.db.getHistoriesByLocation(comps, names, arg_steps)
        elif hkind == 4:
            res = {comps[0]: S.dbi.getHistory(comps[0], names, arg_steps, byLocation=by_loc)}
        else:
            res = S.dbi.getHistories(comps, names, arg_steps, byLocation=by_loc)
    except KeyError as e:
        if e.args and isinstance(e.args[0], tuple) and len(e.args[0]) == 2 and e.args[0][0] in names and level == "comp":
            out.fail(SIG_UNSTORED, "%s(%s, %r): KeyError %r: the default of a parameter that is not stored in a snapshot is looked up under "
                     "the component subclass' own parameter collection" % (tag, type(comps[0]).__name__, names, e.args[0]))
            return
        raise
    except ValueError as e:
        if by_loc and "special-formatted parameters is not supported" in str(e):
            # armi's documented refusal: by-location histories of a parameter stored with special formatting (a ragged
            # column with unset entries) are not supported
            S.counts["history-by-location:special-formatting-refused"] += 1
            out.rejected = True
            return
        if by_loc and "location" in names and "inhomogeneous" in str(e):
            out.fail(SIG_LOCLOC, "%s(%s, %r): ValueError: %s" % (tag, type(comps[0]).__name__, names, str(e)[:160]))
            return
        raise
    S.counts["history:" + tag] += 1
    S.counts["history-level:" + level] += 1
    if by_loc:
        S.counts["history-by-location"] += 1
    if steps is not None:
        S.counts["history-with-timeSteps"] += 1
    moved = False
    for comp in comps:
        sn = int(comp.p.serialNum)
        cls = type(comp).__name__
        here = _complete_indices(comp)
        got_all = res.get(comp, {})
        for name in names:
            got = {(int(k[0]), int(k[1])): ob.loose_value(v) for k, v in got_all.get(name, {}).items()}
            want = {}
            for step, snaps in cand.items():
                vals = []
                for snap in snaps:
                    if by_loc:
                        occupants = [x for x in snap.values() if x["cls"] == cls and x["loc"] == here and x["depth"] == (1 if level == "assem" else 2)]
                        if not occupants:
                            continue
                        rec = occupants[0]
                    else:
                        rec = snap.get(sn)
                        if rec is None or rec["cls"] != cls:
                            continue
                    vals.append(ob.loose_value(list(rec["loc"])) if name == "location" else rec["vals"][name])
                if vals:
                    want[step] = vals
            distinct = set()
            for v in want.values():
                distinct.add(repr(v[0]))
            if name in ("location", "serialNum") and len(distinct) > 1:
                moved = True
            # the current step
            if name == "location":
                live = [ob.loose_value(list(here)), ob.loose_value([int(x) for x in comp.spatialLocator.indices])]
            else:
                live = [_value_of(comp, name)]
            live_steps = set()
            if use_dbi and (steps is None or cur in steps):
                want[cur] = live  # documented: the interface "knows how to return the current value as well"
                live_steps.add(cur)
            elif not by_loc and cur not in want and cur in got:
                want[cur] = live  # Database.getHistories adds the live value for a current step it did not read
                live_steps.add(cur)
            if set(got) != set(want):
                out.fail("history/steps", "%s(%s %s, %s, timeSteps=%r): steps %r, expected %r (current step %r)"
                         % (tag, cls, sn, name, steps, sorted(got), sorted(want), cur))
                continue
            for step in sorted(want):
                if got[step] not in want[step]:
                    sig = "history/current-step-value" if step in live_steps else ("history/by-location-value" if by_loc else "history/value")
                    out.fail(sig, "%s(%s %s, %s) at %r: %r, the object had %r" % (tag, cls, sn, name, step, got[step], want[step]))
                    break
    if len(cand) >= 2 and any(S.mutated_since.values()):
        S.nontrivial = True
        S.counts["history-over-2+-snapshots-after-mutation"] += 1
    if not out.violations and len(S.r.core) > 1:
        _mixed_class_queries(S, out, op, steps, cand, cur)
    if moved:
        S.counts["history-moved-object"] += 1


def _mixed_class_queries(S, out, op, steps, cand, cur):
    """One getHistories call for objects of several classes, some of which may be absent from earlier snapshots (assemblies
    charged later).  Mirror-image pairs [assembly X + block of Y] and [block of X + assembly Y] (and one with a component) so that
    whatever order the classes are visited in, each class is once the one whose objects are missing from a step."""
    assems = list(S.r.core)
    fresh = [a for a in assems if int(a.p.serialNum) in S.fresh]
    x = fresh[op["obj"] % len(fresh)] if fresh else assems[op["obj"] % len(assems)]
    others = [a for a in assems if a is not x]
    y = others[op["obj2"] % len(others)]
    bx, by = x[op["obj3"] % len(x)], y[op["obj3"] % len(y)]
    queries = [[x, by], [bx, y], [list(bx)[0], y, by], [x, list(by)[0]]]
    arg_steps = None if steps is None else list(steps)
    for comps in queries:
        res = S.db.getHistories(comps, ["serialNum"], arg_steps)
        S.counts["history-mixed-classes"] += 1
        for comp in comps:
            sn, cls = int(comp.p.serialNum), type(comp).__name__
            want = sorted(step for step, snaps in cand.items() if any(sn in snap and snap[sn]["cls"] == cls for snap in snaps))
            hist = res.get(comp, {}).get("serialNum", {})
            got = sorted((int(k[0]), int(k[1])) for k in hist)
            if len(want) < len(cand):
                S.counts["history-mixed-classes-with-absent-object"] += 1
            ok = got == want or (cur not in want and got == sorted(want + [cur]) and want)
            if not ok:
                out.fail("history/mixed-classes-steps", "getHistories(%s, ['serialNum'], timeSteps=%r): %s %d has steps %r, it exists in the snapshots of %r"
                         % ([type(c).__name__ for c in comps], steps, cls, sn, got, want))
                return
            if any(int(v) != sn for v in hist.values()):
                out.fail("history/mixed-classes-value", "getHistories of mixed classes: %s %d reported serial numbers %r" % (cls, sn, sorted(set(int(v) for v in hist.values()))))
                return


def _op_reopen(S, out, op):
    import h5py

    from armi.bookkeeping.db.database import Database

    was_w = S.db._permission == "w"
    S.db.close(op["flag"])
    if not out.check(os.path.exists(S.fn), "reopen/file-not-in-working-directory", "closed database file is not in the working directory"):
        return  # (the program ends here: the interpreter stops at the first violation)
    if was_w:
        with h5py.File(S.fn, "r") as f:
            got = bool(f.attrs["successfulCompletion"])
        out.check(got == op["flag"], "reopen/successfulCompletion", lambda: "close(%r) stored successfulCompletion=%r" % (op["flag"], got))
    S.db = Database(S.fn, "a")
    S.db.open()
    S.dbi._db = S.db
    S.counts["reopen"] += 1


def _op_merge(S, out, op):
    written = sorted({(c, n) for (c, n, _l) in S.model})
    if not written:
        return
    if op["beyond"]:
        starts = [(99, 99)] if (99, 99) not in written else []
    else:
        starts = [written[op["midx"] % len(written)]]
    # restart points inside a cycle that already has earlier nodes, and the very last step, are tried as well
    inside = [s for q, s in enumerate(written) if q > 0 and written[q - 1][0] == s[0] and s not in starts]
    starts += inside[: 2 - len(starts) + 1]
    if written[-1] not in starts and len(starts) < 3:
        starts.append(written[-1])
    for q, start in enumerate(starts):
        _merge_once(S, out, op, start, load=(q == 0))
        if out.violations:
            break
    S.counts["merge"] += 1


def _merge_once(S, out, op, start, load):
    from armi.bookkeeping.db.database import Database

    names = _expected_names(S)
    want = []
    for nm in names:
        if (int(nm[1:3]), int(nm[4:6])) == start:
            break
        want.append(nm)
    fn2 = S.fn.replace(".h5", "_m.h5")
    db2 = Database(fn2, "w")
    db2.open()
    try:
        db2.mergeHistory(S.db, start[0], start[1])
        got = [g.lstrip("/") for g in db2.keys()]
        ok = out.check(got == want, "merge/steps", lambda: "mergeHistory(.., %d, %d) copied %r, expected %r (source has %r)" % (start[0], start[1], got, want, names))
        if ok:
            for nm in want:
                d = _tree_diff(_h5_tree(S.db.h5db[nm]), _h5_tree(db2.h5db[nm]))
                if d is None and _top_attrs(S.db.h5db[nm]) != _top_attrs(db2.h5db[nm]):
                    d = "group attributes differ"
                if d is not None:
                    out.fail("merge/content", "mergeHistory copy of %s: %s" % (nm, d))
                    break
            if want and load:
                nm = want[op["obj2"] % len(want)]
                key = [k for k in S.model if _group_name(*k) == nm][0]
                r2 = db2.load(key[0], key[1], cs=S.cs, bp=S.bp, statePointName=key[2])
                _compare_snapshot(out, "merge/loaded-snapshot-differs", "merged %s" % nm, S.model[key], r2)
        # the source is untouched
        _check_listing(S, out, "after merge")
    finally:
        db2.close(True)
        _rm(fn2)
    if 0 < len(want) < len(names):
        S.counts["merge-partial"] += 1
    if any(nm[1:3] == "%02d" % start[0] for nm in want):
        S.counts["merge-restart-inside-a-cycle"] += 1


def _op_split(S, out, op):
    import h5py

    written = _written_steps(S)
    if not written:
        return
    keep = [s for q, s in enumerate(written) if (op["kmask"] >> (q % 12)) & 1]
    if not keep:
        keep = [written[op["midx"] % len(written)]]
    # the order of the request must not matter: latest step first, or rotated
    if op["flag"]:
        keep.sort(reverse=True)
    else:
        k = op["midx"] % len(keep)
        keep = keep[k:] + keep[:k]
    old_names = _expected_names(S)
    min_cycle = min(c for c, _n in keep)
    backup = S.db.splitDatabase(list(keep), "-bak")
    S.extra_files.append(backup)
    out.check(os.path.exists(backup), "split/no-backup", "backup file %r does not exist" % backup)
    new_model, new_h, new_mut = {}, {}, {}
    stale_attr = set()
    for (c, n) in keep:
        rec = copy.deepcopy(S.model[(c, n, None)])
        rec["params"]["cycle"] = type(rec["params"]["cycle"])(c - min_cycle)
        new_model[(c - min_cycle, n, None)] = rec
        new_h[(c - min_cycle, n, None)] = S.hmodel[(c, n, None)]
        new_mut[(c - min_cycle, n, None)] = S.mutated_since[(c, n, None)]
    with h5py.File(backup, "r") as fb:
        got_old = sorted(k for k in fb.keys() if k.startswith("c") and k[1:3].isdigit())
        out.check(got_old == old_names, "split/backup-steps", lambda: "backup holds %r, the database held %r" % (got_old, old_names))
        got_new = sorted(k for k in S.db.h5db.keys() if k.startswith("c") and k[1:3].isdigit())
        want_new = sorted(_group_name(*k) for k in new_model)
        ok = out.check(got_new == want_new, "split/steps", lambda: "splitDatabase(keep=%r) left %r, expected %r" % (keep, got_new, want_new))
        others = sorted(k for k in fb.keys() if k not in got_old)
        out.check(sorted(k for k in S.db.h5db.keys() if k not in got_new) == others, "split/other-groups", "non-time-step groups were not carried over")
        if ok:
            for (c, n) in keep:
                src, dst = _group_name(c, n, None), _group_name(c - min_cycle, n, None)
                a = _h5_tree(fb[src], skip=("Reactor/cycle",))
                b = _h5_tree(S.db.h5db[dst], skip=("Reactor/cycle",))
                d = _tree_diff(a, b)
                if d is None and _top_attrs(fb[src], ("cycle",)) != _top_attrs(S.db.h5db[dst], ("cycle",)):
                    d = "group attributes differ"
                if d is not None:
                    out.fail("split/content", "split copy %s -> %s: %s" % (src, dst, d))
                    break
                gattr = int(S.db.h5db[dst].attrs["cycle"])
                if gattr != c - min_cycle:
                    if EXCLUDE_KNOWN.get(SIG_SPLIT_ATTR):
                        stale_attr.add((c - min_cycle, n, None))
                    else:
                        out.fail(SIG_SPLIT_ATTR, "after splitDatabase(keep=%r) group %s (cycle %d) still carries attrs['cycle'] = %d: "
                                 "histories report the step under its old cycle number" % (keep, dst, c - min_cycle, gattr))
                        break
                stored = S.db.h5db[dst + "/Reactor/cycle"][()]
                if [int(x) for x in stored.reshape(-1)] != [c - min_cycle]:
                    out.fail("split/cycle-not-renumbered", "%s/Reactor/cycle = %r, expected %d" % (dst, stored, c - min_cycle))
                    break
    shifted = min_cycle != 0
    S.model, S.hmodel, S.mutated_since = new_model, new_h, new_mut
    S.stale_attr = stale_attr
    if stale_attr:
        S.counts["excluded:" + SIG_SPLIT_ATTR] += 1
    S.counts["split"] += 1
    if shifted:
        S.counts["split-renumbered"] += 1
    if len(keep) < len(old_names):
        S.counts["split-strict-subset"] += 1
    if len({c for c, _n in keep}) > 1:
        S.counts["split-2+cycles"] += 1
        if keep[0][0] != min_cycle:
            S.counts["split-2+cycles-unordered-request"] += 1


def _rm(*names):
    from armi import context

    for n in names:
        for p in (n, os.path.join(context.getFastPath(), os.path.basename(n))):
            try:
                if os.path.exists(p):
                    os.remove(p)
            except OSError:
                pass


def _resolve_kind(case, op):
    enabled = [k for k in OP_KINDS if k in case["kinds"] or k in ALWAYS_ENABLED]
    weighted = []
    for k in enabled:
        weighted += [k] * OP_WEIGHTS[k]
    return weighted[op["k"] % len(weighted)]


def plan(case):
    """[(kind, decoded op)] for the whole program.  Three programs in four start like a run: the first 3 or 5 operations are
    write (c0,n0), change, write (c0,n1)[, change, write (c1,n0)] so that the generated tail (loads, histories, merge, split,
    re-writes, more writes) works on several snapshots; the changes and all payloads are still the generated ones."""
    prog = case["program"]
    warm = 0
    if prog:
        warm = [0, 3, 5, 5][_decode(prog[0], len(prog))["k"] % 4]
    res = []
    for position, raw in enumerate(prog):
        op = _decode(raw, position)
        kind = _resolve_kind(case, op)
        if position < warm:
            if position % 2 == 0:
                kind = "write"
                op.update(stay=False, label=0, tcycle=(position // 2) // 2, tnode=(position // 2) % 2)
            else:
                kind = "swap" if op["flag"] else "mutate"
        res.append((kind, op))
    return res


def hist_execute(case):
    import collections

    from armi.bookkeeping.db.databaseInterface import DatabaseInterface

    from vp.props import c04

    out = Out()
    spec = case["spec"]
    S = _State()
    S.cs, S.bp, S.r = rg.build(spec, text=rg.render(spec))
    S.r.sort()
    S.fn = "c06a_%d.h5" % os.getpid()
    S.extra_files = []
    _rm(S.fn, S.fn.replace(".h5", "-bak.h5"))
    S.dbi = DatabaseInterface(S.r, S.cs)
    S.dbi.initDB(fName=S.fn)
    S.db = S.dbi.database
    S.model, S.hmodel, S.mutated_since = {}, {}, {}
    S.counts = collections.Counter()
    S.nontrivial = False
    S.stale_attr = set()
    S.moved = set()
    S.fresh = set()
    out.label("geom:" + spec["geom"], "sym:" + spec["symmetry"].split()[0], "assemblies:%d" % len(S.r.core))
    try:
        for step, (kind, op) in enumerate(plan(case)):
            if kind == "mutate" or kind == "unset":
                level = op["level"]
                objs = _objects(S.r, level)
                o = objs[op["obj"] % len(objs)]
                table = _table(o, level)
                if table:
                    name, vk = table[op["pidx"] % len(table)]
                    if kind == "unset":
                        if o.p.paramDefs[name].default is None and vk != "a6":
                            o.p[name] = None
                            S.counts["unset"] += 1
                            _note_mutation(S)
                    elif vk == "a6":
                        # a fixed-shape column: every object of the class holds six numbers (a mix of None and arrays is stored
                        # as a ragged column, whose history is a documented limitation); the values differ per object
                        for q, other in enumerate(x for x in objs if type(x) is type(o)):
                            other.p[name] = _make_value(vk, op["val"]) + float(q)
                        S.counts["mutate:" + level + ":array"] += 1
                        _note_mutation(S)
                    else:
                        o.p[name] = _make_value(vk, op["val"])
                        S.counts["mutate:" + level] += 1
                        _note_mutation(S)
            elif kind == "swap" and op["pidx"] % 5 == 3 and S.model and len(S.r.core) > 1:
                # a fresh assembly of the same design takes the place of one in the core (charged after the first writes:
                # it and its blocks/components are absent from the earlier snapshots); the old one leaves the model
                assems = list(S.r.core)
                old = assems[op["obj"] % len(assems)]
                loc = old.spatialLocator
                fresh = S.r.core.createAssemblyOfType(old.getType(), cs=S.cs)
                S.r.core.removeAssembly(old, discharge=False)
                S.r.core.add(fresh, loc)
                S.fresh.add(int(fresh.p.serialNum))
                S.counts["replace-by-fresh-assembly"] += 1
                _note_mutation(S)
            elif kind == "swap":
                cnt = collections.Counter()
                before = {int(a.p.serialNum): _complete_indices(a) for a in _objects(S.r, "assem")}
                n = len(S.r.core)
                i = op["obj"] % n
                j = (i + 1 + op["obj2"] % (n - 1)) % n if n > 1 else i  # two different assemblies
                c04.apply_program(S.cs, S.r, [dict(op, op="discharge" if op["pidx"] % 5 == 0 else "swap", obj=i, obj2=j)], out, cnt)
                for k2 in cnt:
                    S.counts[k2] += 1
                    _note_mutation(S)
                    if S.model:
                        assems = _objects(S.r, "assem")
                        S.moved.update(int(a.p.serialNum) for a in assems if _complete_indices(a) != before.get(int(a.p.serialNum)))
            elif kind == "other":
                cnt = collections.Counter()
                c04.apply_program(S.cs, S.r, [dict(op, op=op["other"], k=op["rot"])], out, cnt)
                for k2 in cnt:
                    S.counts["other:" + k2] += 1
                    _note_mutation(S)
            elif kind == "settime":
                S.r.p.cycle = op["tcycle"]
                S.r.p.timeNode = op["tnode"]
                S.counts["settime"] += 1
                _note_mutation(S)
            elif kind == "write":
                _op_write(S, out, op)
            elif kind == "rewrite":
                keys = sorted(S.model, key=lambda k: _group_name(*k))
                if keys:
                    key = keys[op["obj"] % len(keys)]
                    S.r.p.cycle, S.r.p.timeNode = key[0], key[1]
                    _op_write(S, out, op, key=key)
            elif kind == "load":
                _op_load(S, out, op)
            elif kind == "list":
                _op_list(S, out, op)
            elif kind == "history":
                if S.model:
                    _op_history(S, out, op)
            elif kind == "reopen":
                _op_reopen(S, out, op)
            elif kind == "merge":
                _op_merge(S, out, op)
            elif kind == "split":
                _op_split(S, out, op)
            if out.violations:
                break
            # invariant after every step: exactly the written snapshots are listed, in order
            _check_listing(S, out, "after step %d (%s)" % (step, kind))
            if out.violations:
                break
        # end of history: every stored snapshot still equals the state at its write (one stale one is loaded)
        stale = [k for k in sorted(S.model, key=lambda k: _group_name(*k)) if S.mutated_since[k]]
        if stale and not out.violations:
            key = stale[len(case["program"]) % len(stale)]
            r2 = S.db.load(key[0], key[1], cs=S.cs, bp=S.bp, statePointName=key[2])
            _compare_snapshot(out, "load/stale-snapshot-differs", "final load%r" % (key,), S.model[key], r2)
            S.counts["final-load-after-mutation"] += 1
            if len(S.model) >= 2:
                S.nontrivial = True
    finally:
        try:
            S.db.close(True)
        finally:
            _rm(S.fn, *S.extra_files)
    out.nontrivial = S.nontrivial
    out.label(*["op:" + k for k in sorted(S.counts)])
    out.label("snapshots:%s" % ("0" if not S.model else "1" if len(S.model) == 1 else "2-3" if len(S.model) <= 3 else "4+"))
    return out


# ---------------------------------------------------------------------------------------------------------------------
# Part B: fault enumeration

FAULT_SPEC = {
    "geom": "hex", "symmetry": "third periodic", "rings": 2, "pitch": 12.0, "heights": [20.0, 30.0],
    "designs": [{"specifier": "IC", "name": "inner assem", "kinds": ["fuel", "plenum"], "mult": 7, "fill": 0.4,
                 "enrich": [0.1, 0.12], "zr": 0.1, "xs": ["A", "B"], "thot": 500.0, "pinGrid": False}],
    "cells": [[0, 0, 0], [1, 0, 0]], "sfp": True,
}
_BOUNDS = {"quick": (2, 2), "thorough": (3, 3)}
HOOKS = ["BOL", "BOC", "EveryNode", "Coupled", "EOC", "EOL"]


class InjectedFault(Exception):
    pass


def _layouts(tier):
    maxc, maxb = _BOUNDS[tier]
    res = [(1, 0)]  # one cycle without burn steps (the only zero-burn-step layout armi accepts)
    for c in range(1, maxc + 1):
        for b in range(1, maxb + 1):
            res.append((c, b))
    return res


def schedule(cycles, burn, coupled, skip=()):
    """Reference schedule: list of ('hook', hook, pos, cycle, node) and ('write', cycle, node, label) in run order.

    With tight coupling the database interface leaves the node write to the operator, which writes once after the coupled
    iterations; in a cycle listed in ``cyclesSkipTightCouplingInteraction`` the Coupled hooks are not called but the node is
    still written (every node is written exactly once)."""
    ev = [("hook", "BOL", "A", 0, 0), ("hook", "BOL", "B", 0, 0)]
    for c in range(cycles):
        ev += [("hook", "BOC", "A", c, 0), ("hook", "BOC", "B", c, 0)]
        for n in range(burn + 1):
            ev.append(("hook", "EveryNode", "A", c, n))
            if not coupled:
                ev.append(("write", c, n, None))
            ev.append(("hook", "EveryNode", "B", c, n))
            if coupled:
                if c not in skip:
                    ev += [("hook", "Coupled", "A", c, n), ("hook", "Coupled", "B", c, n)]
                ev.append(("write", c, n, None))
        ev += [("hook", "EOC", "A", c, burn), ("hook", "EOC", "B", c, burn)]
    ev += [("hook", "EOL", "A", cycles - 1, burn), ("write", cycles - 1, burn, "EOL"), ("close",), ("hook", "EOL", "B", cycles - 1, burn)]
    return ev


def _skip_variants(cycles, coupled):
    """cyclesSkipTightCouplingInteraction: empty / one cycle / all cycles (meaningful with tight coupling only)."""
    if not coupled:
        return [[]]
    res = [[]]
    if cycles > 1:
        res.append([cycles // 2])
    res.append(list(range(cycles)))
    return res


def fault_enum(tier):
    cases = []
    for (c, b) in _layouts(tier):
        for coupled in (False, True):
            for skip in _skip_variants(c, coupled):
                base = {"cycles": c, "burnSteps": b, "coupled": coupled, "skip": skip}
                cases.append(dict(base, fault=None))
                for e in schedule(c, b, coupled, skip):
                    if e[0] == "hook":
                        cases.append(dict(base, fault={"hook": e[1], "pos": e[2], "cycle": e[3], "node": e[4]}))
    return cases


def fault_execute(case):
    from armi import interfaces, operators
    from armi.bookkeeping.db.database import Database
    from armi.bookkeeping.db.databaseInterface import DatabaseInterface
    from armi import context

    out = Out()
    cycles, burn, coupled, fault = case["cycles"], case["burnSteps"], case["coupled"], case["fault"]
    skip = list(case.get("skip", []))
    settings = {"nCycles": cycles, "burnSteps": burn, "cycleLength": 100.0, "power": 1.0e6, "tightCoupling": coupled,
                "availabilityFactor": 0.9, "cyclesSkipTightCouplingInteraction": skip}
    cs, bp, r = rg.build(FAULT_SPEC, settings)
    r.sort()
    fn = "c06b_%d.h5" % os.getpid()
    _rm(fn)
    o = operators.Operator(cs)
    o.r = r
    r.o = o
    dbi = DatabaseInterface(r, cs)
    seq = [0]
    captured = {}  # (hook, pos, cycle, node) -> snapshot
    trace = []
    ev = schedule(cycles, burn, coupled, skip)
    # recorder hooks after which the database writes: the state there is the expected snapshot content
    pre_write = set()
    for i, e in enumerate(ev):
        if e[0] == "write":
            j = i - 1
            while ev[j][0] != "hook":
                j -= 1
            pre_write.add(ev[j][1:])
    fkey = None if fault is None else (fault["hook"], fault["pos"], fault["cycle"], fault["node"])
    blocks = [b for a in r.core for b in a]

    class Opener(interfaces.Interface):
        name = "opener"

        def interactBOL(self):
            dbi.initDB(fName=fn)  # as MainInterface does at the very start of BOL

    class Recorder(interfaces.Interface):
        name = "recorder"

        def __init__(self, r, cs, pos):
            interfaces.Interface.__init__(self, r, cs)
            self.name = "recorder" + pos
            self.pos = pos

        def _hit(self, hook):
            key = (hook, self.pos, int(self.r.p.cycle), int(self.r.p.timeNode))
            trace.append(key)
            seq[0] += 1
            # a distinguishable state after every hook
            self.r.core.p.keff = 1.0 + seq[0] / 1024.0
            tgt = blocks[0] if self.pos == "A" else blocks[-1]
            tgt.p.power = 1000.0 + seq[0]
            tgt.p.percentBu = seq[0] / 8.0
            self.r.core[seq[0] % len(self.r.core)].p.chargeTime = float(seq[0])
            if key in pre_write or key == fkey:
                captured[key] = _snapshot(self.r)
            if key == fkey:
                raise InjectedFault("%s %s" % key[:2])

        def interactBOL(self):
            self._hit("BOL")

        def interactBOC(self, cycle=None):
            self._hit("BOC")

        def interactEveryNode(self, cycle, node):
            self._hit("EveryNode")

        def interactCoupled(self, iteration):
            self._hit("Coupled")

        def interactEOC(self, cycle=None):
            self._hit("EOC")

        def interactEOL(self):
            self._hit("EOL")

    o.addInterface(Opener(r, cs))
    o.addInterface(Recorder(r, cs, "A"))
    o.addInterface(dbi)
    o.addInterface(Recorder(r, cs, "B"))
    raised = False
    try:
        try:
            with o:  # exactly as Case.run does
                o.operate()
        except InjectedFault:
            raised = True
        # ---- reference expectation
        expect = []  # (cycle, node, label, key of the recorder hook whose state it holds)
        closed_ok = False
        last_hook = None
        stop = None
        for e in ev:
            if e[0] == "hook":
                last_hook = e[1:]
                if fkey is not None and e[1:] == fkey:
                    stop = e
                    break
            elif e[0] == "write":
                expect.append((e[1], e[2], e[3], last_hook))
            else:
                closed_ok = True
        after_close = fkey is not None and closed_ok
        if fkey is not None:
            out.check(raised, "harness/fault-not-reached", "fault point %r never reached; trace %r" % (fkey, trace[-4:]))
            if not after_close:
                expect.append((fkey[2], fkey[3], "error", fkey))
        else:
            out.check(not raised, "harness/unexpected-fault", "fault raised without request")
        nodes_before = len([x for x in expect if x[2] is None])
        out.nontrivial = fkey is not None and nodes_before >= 1 and not after_close
        out.label("hook:%s" % (fkey[0] if fkey else "none"), "pos:%s" % (fkey[1] if fkey else "-"), "coupled" if coupled else "uncoupled",
                  "layout:%dx%d" % (cycles, burn), "writes-before-fault:%s" % ("n/a" if fkey is None else min(nodes_before, 3)),
                  "skipped-coupling:%s" % ("none" if not skip else "all" if len(skip) == cycles else "one"))
        if after_close:
            out.label("after-close(outside statement)")
        # ---- the file
        fast = os.path.join(context.getFastPath(), fn)
        if not out.check(os.path.exists(fn), "file/not-in-working-directory",
                         lambda: "no %s in the working directory after the run (still in fast path: %r)" % (fn, os.path.exists(fast))):
            return out
        out.check(not os.path.exists(fast), "file/left-in-fast-path", "a copy of the database stayed in the fast path")
        db = Database(fn, "r")
        with db:
            flag = db.h5db.attrs["successfulCompletion"]
            if fkey is None:
                out.check(bool(flag) is True, "flag/completed-run-not-marked-successful", lambda: "successfulCompletion = %r after a complete run" % flag)
            elif not after_close:
                out.check(bool(flag) is False, "flag/aborted-run-marked-successful", lambda: "successfulCompletion = %r after a fault at %r" % (flag, fkey))
            got = [k.lstrip("/") for k in db.keys()]
            want = sorted(_group_name(c, n, lab) for c, n, lab, _h in expect)
            missing, extra = sorted(set(want) - set(got)), sorted(set(got) - set(want))
            if missing and not extra and all(m.endswith("error") for m in missing):
                sig = "snapshots/error-snapshot-missing"
            elif missing and not extra:
                sig = "snapshots/completed-write-missing"
            elif extra and not missing:
                sig = "snapshots/unexpected-snapshot"
            else:
                sig = "snapshots/listing"
            if out.check(got == want, sig, lambda: "file holds %r, expected %r (fault %r)" % (got, want, fkey)) and not after_close:
                for c, n, lab, hk in expect:
                    r2 = db.load(c, n, cs=cs, bp=bp, statePointName=lab)
                    what = "error" if lab == "error" else "EOL" if lab == "EOL" else "node"
                    if not _compare_snapshot(out, "snapshots/%s-content" % what, "%s (state after hook %r)" % (_group_name(c, n, lab), hk), captured[hk], r2,
                                             limit=2, drop_clock=True):
                        break
        # later sessions that open the file (append mode through the context manager, as `armi inject-inputs` does; read mode) and
        # close it again leave the completion mark and the snapshots as they are
        if not out.violations and not after_close:
            import h5py

            for mode in ("a", "r"):
                with Database(fn, mode) as again:
                    listed = [k.lstrip("/") for k in again.keys()]
                with h5py.File(fn, "r") as f:
                    flag2 = bool(f.attrs["successfulCompletion"])
                    names2 = sorted(k for k in f.keys() if k.startswith("c") and k[1:3].isdigit())
                out.check(flag2 == (fkey is None), "flag/changed-by-reopening-the-file",
                          lambda: "after `with Database(fn, %r)` successfulCompletion = %r (the run %s)" % (mode, flag2, "completed" if fkey is None else "aborted at %r" % (fkey,)))
                out.check(listed == want and names2 == want, "snapshots/changed-by-reopening-the-file", lambda: "after `with Database(fn, %r)`: %r, before %r" % (mode, names2, want))
    finally:
        if dbi._db is not None and dbi._db.isOpen():
            dbi._db.close(False)
        _rm(fn)
    return out


# ---------------------------------------------------------------------------------------------------------------------
# Part C: the history tracker interface in a real run


def tracker_enum(tier):
    cases = []
    for (c, b) in _layouts(tier):
        for coupled in (False, True):
            for skip in _skip_variants(c, coupled):
                for preload in (False, True):
                    cases.append({"cycles": c, "burnSteps": b, "coupled": coupled, "skip": skip, "preload": preload})
    return cases


def tracker_execute(case):
    """Fault-free operator run with armi's HistoryTrackerInterface in the stack (before the database interface, as its ORDER
    puts it; detail assembly chosen through ``detailAssemLocationsBOL``).  Recorder A (before the database) and recorder B
    (after it) change the tracked block parameters at every hook and keep their own log of the values at each database
    write.  After its change every recorder hook asks ``getBlockHistoryVal`` for every step written so far and for the current
    step: a written step must give the value logged at its write, whatever was changed later; the current, unwritten step
    gives the live value (documented)."""
    from armi import interfaces, operators
    from armi.bookkeeping.db.databaseInterface import DatabaseInterface
    from armi.bookkeeping.historyTracker import HistoryTrackerInterface

    out = Out()
    cycles, burn, coupled, skip, preload = case["cycles"], case["burnSteps"], case["coupled"], list(case["skip"]), case["preload"]
    settings = {"nCycles": cycles, "burnSteps": burn, "cycleLength": 100.0, "power": 1.0e6, "tightCoupling": coupled,
                "availabilityFactor": 0.9, "cyclesSkipTightCouplingInteraction": skip, "detailAssemLocationsBOL": ["001-001"]}
    cs, bp, r = rg.build(FAULT_SPEC, settings)
    r.sort()
    fn = "c06c_%d.h5" % os.getpid()
    _rm(fn)
    o = operators.Operator(cs)
    o.r = r
    r.o = o
    dbi = DatabaseInterface(r, cs)
    hti = HistoryTrackerInterface(r, cs)
    ev = schedule(cycles, burn, coupled, skip)
    pre_write = {}  # recorder hook -> (cycle, node) of the unlabelled write that follows it
    closed_after = None
    last = None
    for e in ev:
        if e[0] == "hook":
            last = e[1:]
        elif e[0] == "write" and e[3] is None:
            pre_write[last] = (e[1], e[2])
        elif e[0] == "close":
            closed_after = last
    blocks = [b for a in r.core for b in a]
    tracked = [blocks[0], blocks[-1]]
    names = [b.getName() for b in tracked]
    params = ["power", "flux"]
    seq = [0]
    log = {}  # (cycle, node) -> {(block name, param): value at the write}
    written = []
    state = {"closed": False, "queries": 0, "current-written": 0, "current-live": 0, "past": 0}

    class Opener(interfaces.Interface):
        name = "opener"

        def interactBOL(self):
            dbi.initDB(fName=fn)

    class Recorder(interfaces.Interface):
        name = "recorder"

        def __init__(self, r, cs, pos):
            interfaces.Interface.__init__(self, r, cs)
            self.name = "recorder" + pos
            self.pos = pos

        def getHistoryParams(self):
            return ["power"] if self.pos == "A" else ["flux"]

        def _hit(self, hook):
            cur = (int(self.r.p.cycle), int(self.r.p.timeNode))
            key = (hook, self.pos) + cur
            # what the database wrote between the previous recorder hook and this one is now visible
            if self._pending[0] is not None:
                written.append(self._pending[0])
                self._pending[0] = None
            seq[0] += 1
            for q, b in enumerate(tracked):
                b.p.power = 1000.0 * (q + 1) + seq[0]
                b.p.flux = -1.0 * (q + 1) - seq[0] / 16.0
            if key in pre_write:
                step = pre_write[key]
                log[step] = {(nm, pn): float(b.p[pn]) for nm, b in zip(names, tracked) for pn in params}
                self._pending[0] = step
                return  # the database writes right after this hook: the state it stores is the logged one
            if state["closed"]:
                return
            if key == closed_after:
                state["closed"] = True  # the database interface closes the file right after this hook (EOL)
            steps = list(written)
            if cur not in steps:
                steps.append(cur)
            preloaded_cur = did_preload = False
            if preload:
                if cur in written and EXCLUDE_KNOWN.get(SIG_PRELOAD) and not case.get("preloadCurrent"):
                    # candidate defect: a preload made while the current step is already written caches the LIVE value for it
                    # (Database.getHistories adds the live value for a current step it was not asked to read, and
                    # DatabaseInterface.getHistories overlays it when the step was asked for): preload before the write only
                    out.label("excluded:" + SIG_PRELOAD)
                else:
                    preloaded_cur = cur in written
                    did_preload = True
                    hti.preloadBlockHistoryVals(names, params, list(written))
                    out.label("preloaded-before-the-write" if not preloaded_cur else "preloaded-after-the-write")
            for ts in steps:
                for nm, b in zip(names, tracked):
                    for pn in params:
                        got = hti.getBlockHistoryVal(nm, pn, ts)
                        state["queries"] += 1
                        if ts in log:
                            want = log[ts][(nm, pn)]
                            kind = "current-written" if ts == cur else "past"
                        else:
                            want = float(b.p[pn])
                            kind = "current-live"
                        state[kind] += 1
                        if float(got) != want:
                            out.fail(SIG_PRELOAD if (kind == "current-written" and preloaded_cur) else "tracker/%s-step-value" % kind,
                                     "getBlockHistoryVal(%s, %s, %r) asked in %s hook of recorder %s at %r%s: %r, %s %r"
                                     % (nm, pn, ts, hook, self.pos, cur, " (preloaded)" if did_preload else "", got,
                                        "the database wrote" if ts in log else "the live value is", want))
                            return
            if preload:
                hti.unloadBlockHistoryVals()

        _pending = [None]

        def interactBOL(self):
            self._hit("BOL")

        def interactBOC(self, cycle=None):
            self._hit("BOC")

        def interactEveryNode(self, cycle, node):
            self._hit("EveryNode")

        def interactCoupled(self, iteration):
            self._hit("Coupled")

        def interactEOC(self, cycle=None):
            self._hit("EOC")

        def interactEOL(self):
            self._hit("EOL")

    Recorder._pending = [None]
    o.addInterface(Opener(r, cs))
    o.addInterface(hti)
    o.addInterface(Recorder(r, cs, "A"))
    o.addInterface(dbi)
    o.addInterface(Recorder(r, cs, "B"))
    try:
        with o:
            o.operate()
        out.check(hti.detailAssemblyNames == [r.core.childrenByLocator[r.core.spatialGrid[0, 0, 0]].getName()], "tracker/detail-assemblies",
                  lambda: "detailAssemLocationsBOL ['001-001'] tracked %r" % (hti.detailAssemblyNames,))
        nodes = cycles * (burn + 1)
        out.check(len(log) == nodes, "harness/tracker-log", lambda: "logged %d writes, the run has %d nodes" % (len(log), nodes))
        # the end-of-life report of the detail assembly lists every written step
        reports = sorted(f for f in os.listdir(".") if f.endswith("-aHist.txt"))
        if out.check(len(reports) == 1, "tracker/eol-report-missing", lambda: "history reports written at EOL: %r" % reports):
            with open(reports[0]) as f:
                head = f.readline().split()
            want = ["(%d,%d)" % (c, n) for c in range(cycles) for n in range(burn + 1)]
            out.check(head == want, "tracker/eol-report-steps", lambda: "EOL report lists steps %r, the run wrote %r" % (head, want))
        out.nontrivial = state["current-written"] > 0 and state["past"] > 0
        out.evals = max(1, state["queries"])
        out.label("coupled" if coupled else "uncoupled", "layout:%dx%d" % (cycles, burn), "preload" if preload else "direct",
                  "skipped-coupling:%s" % ("none" if not skip else "all" if len(skip) == cycles else "one"))
        if state["current-live"]:
            out.label("asked-current-unwritten-step")
        if state["current-written"]:
            out.label("asked-current-written-step")
    finally:
        if dbi._db is not None and dbi._db.isOpen():
            dbi._db.close(False)
        _rm(fn)
        for f in os.listdir("."):
            if f.endswith("Hist.txt"):
                os.remove(f)
    return out


# ---------------------------------------------------------------------------------------------------------------------
# Part D: restart runs driven through MainInterface / DatabaseInterface.prepRestartRun

_RESTART_BOUNDS = {"quick": (2, 2), "thorough": (3, 3)}


def restart_enum(tier):
    maxc, maxb = _RESTART_BOUNDS[tier]
    cases = []
    for c in range(1, maxc + 1):
        for b in range(1, maxb + 1):
            for sc in range(c):
                for sn in range(b + 1):
                    if (sc, sn) != (0, 0):  # (0, 0) has no previous time node: not a restart
                        cases.append({"cycles": c, "burnSteps": b, "startCycle": sc, "startNode": sn})
    return cases


def _run_value(run, c, n):
    return float(run) + 0.1 * c + 0.01 * n


def restart_execute(case):
    """A complete first run, then a restart run (loadStyle fromDB, reloadDBName = the first run's file) from (startCycle,
    startNode), both with armi's MainInterface first in the stack (it opens the database and calls prepRestartRun) and a
    setter interface before the database interface that gives core keff and every block's flux a value that names
    (run, cycle, node).  An auditor after the database interface calls Operator.loadState in the middle of the restart run."""
    import h5py

    from armi import interfaces, operators
    from armi.bookkeeping.db.database import Database
    from armi.bookkeeping.db.databaseInterface import DatabaseInterface
    from armi.bookkeeping.mainInterface import MainInterface

    out = Out()
    cycles, burn, sc, sn = case["cycles"], case["burnSteps"], case["startCycle"], case["startNode"]
    start = (sc, sn)
    nodes = [(c, n) for c in range(cycles) for n in range(burn + 1)]
    merged = [x for x in nodes if x < start]
    own = [x for x in nodes if x >= start]
    titles = ["c06r1_%d" % os.getpid(), "c06r2_%d" % os.getpid()]
    files = [t + ".h5" for t in titles]
    bpfile = "c06r_%d-blueprints.yaml" % os.getpid()
    altdir = "c06r_alt_%d" % os.getpid()
    alt_same, alt_other = os.path.join(altdir, files[1]), os.path.join(altdir, "another.h5")
    _rm(*files)
    base = {"nCycles": cycles, "burnSteps": burn, "cycleLength": 100.0, "power": 1.0e6, "availabilityFactor": 0.9}
    problems = {"n": 0, "probes": 0}

    def run_of(step):
        return 1 if step < start else 2

    class Setter(interfaces.Interface):
        name = "setter"
        run = 1

        def interactEveryNode(self, cycle, node):
            v = _run_value(self.run, cycle, node)
            self.r.core.p.keff = v
            for b in self.r.core.iterBlocks():
                b.p.flux = 1000.0 * v

    def label_of(step):
        return "-probe" if (step[0] + step[1]) % 2 == 0 else "error"

    class Prober(interfaces.Interface):
        """After the database interface wrote the node: a second, labelled snapshot of the same step with other contents."""

        name = "prober"

        def interactEveryNode(self, cycle, node):
            v = _run_value(self.run, cycle, node) + 0.5
            self.r.core.p.keff = v
            for b in self.r.core.iterBlocks():
                b.p.flux = 1000.0 * v
            self.o.getInterface("database").database.writeToDB(self.r, statePointName=label_of((cycle, node)))

    class Auditor(interfaces.Interface):
        name = "auditor"

        def _expect(self, step, what, labelled=False, run=None):
            r = self.o.r
            want = _run_value(run or run_of(step), *step) + (0.5 if labelled else 0.0)
            got = (int(r.p.cycle), int(r.p.timeNode), float(r.core.p.keff), sorted({float(b.p.flux) for b in r.core.iterBlocks()}))
            problems["probes"] += 1
            if got != (step[0], step[1], want, [1000.0 * want]):
                problems["n"] += 1
                other = _run_value(3 - (run or run_of(step)), *step)
                sig = "restart/loadState-returns-the-other-run" if got[2] == other else "restart/loadState-state"
                if run is not None:
                    sig = "restart/loadState-ignores-the-named-file" if got[2] == other else "restart/loadState-named-file-state"
                if labelled:
                    sig = "restart/loadState-ignores-the-label" if got[2] == want - 0.5 else "restart/loadState-labelled-state"
                out.fail(sig, "restart from %r, at node %r loadState%r (%s): cycle/node/keff/flux = %r, expected %r"
                         % (start, self._now, step + ((label_of(step),) if labelled else ()), what, got, (step[0], step[1], want, [1000.0 * want])))

        def interactEveryNode(self, cycle, node):
            # the database interface has just written (cycle, node) of this run
            self._now = (cycle, node)
            written = [x for x in own if x <= self._now]
            self.o.r.core.p.keff = -5.0  # a later state change that belongs to no snapshot
            probes = []
            if merged:
                probes += [(merged[0], "merged from the first run"), (merged[-1], "merged from the first run")]
            probes += [(written[0], "written by this run"), (self._now, "just written by this run")]
            for step, what in probes:
                self.o.loadState(step[0], step[1])
                self._expect(step, what)
                if out.violations:
                    break
            # the labelled snapshots of the same steps hold other contents
            for step, what in ([probes[1]] if merged else []) + probes[-2:]:
                if out.violations:
                    break
                self.o.loadState(step[0], step[1], label_of(step))
                self._expect(step, what + ", labelled", labelled=True)
            # an explicitly named file: copies of the FIRST run's database kept in another directory, one under the same base name
            # as this run's own database and one under another name; the state comes from the named file
            for fname, what in ((alt_same, "named file with the base name of the run's own database"), (alt_other, "named file")):
                if out.violations:
                    break
                self.o.loadState(cycle, node, fileName=fname)
                self._expect(self._now, what + " " + fname, run=1)
            if (int(self.o.r.p.cycle), int(self.o.r.p.timeNode), float(self.o.r.core.p.keff)) != (cycle, node, _run_value(2, cycle, node)):
                self.o.loadState(cycle, node)  # carry on from the current state

    def operator(run, extra):
        # the blueprints file exists next to the settings, so that the database stores the inputs and loadState can rebuild from them
        with open(bpfile, "w") as f:
            f.write(rg.render(FAULT_SPEC))
        cs, bp, r = rg.build(FAULT_SPEC, dict(base, loadingFile=bpfile, **extra))
        cs.caseTitle = titles[run - 1]
        r.sort()
        o = operators.Operator(cs)
        o.r = r
        r.o = o
        setter = Setter(r, cs)
        setter.run = run
        o.addInterface(MainInterface(r, cs))
        o.addInterface(setter)
        dbi = DatabaseInterface(r, cs)
        o.addInterface(dbi)
        prober = Prober(r, cs)
        prober.run = run
        o.addInterface(prober)
        if run == 2:
            o.addInterface(Auditor(r, cs))
        return cs, bp, o, dbi

    dbis = []
    try:
        cs1, bp, o, dbi = operator(1, {})
        dbis.append(dbi)
        with o:
            o.operate()
        os.makedirs(altdir, exist_ok=True)
        shutil.copy(files[0], alt_same)
        shutil.copy(files[0], alt_other)
        cs2, bp, o, dbi = operator(2, {"loadStyle": "fromDB", "reloadDBName": files[0], "startCycle": sc, "startNode": sn})
        dbis.append(dbi)
        with o:
            o.operate()
        out.nontrivial = bool(merged) and len(own) >= 1
        out.evals = 1 + problems["probes"]
        out.label("layout:%dx%d" % (cycles, burn),
                  "restart:%s" % ("cycle-boundary" if sn == 0 else "last-node" if sn == burn else "mid-cycle"),
                  "restart-cycle:%s" % ("0" if sc == 0 else "later"))
        if out.violations:
            return out
        for f in files:
            if not out.check(os.path.exists(f), "restart/file-missing", "%s is not in the working directory" % f):
                return out
        with h5py.File(files[1], "r") as f2, h5py.File(files[0], "r") as f1:
            out.check(bool(f2.attrs["successfulCompletion"]), "flag/completed-run-not-marked-successful", "the completed restart run is not marked successful")
            got = sorted(k for k in f2.keys() if k.startswith("c") and k[1:3].isdigit())
            want = sorted([_group_name(c, n, None) for c, n in nodes] + [_group_name(c, n, label_of((c, n))) for c, n in nodes]
                          + [_group_name(nodes[-1][0], nodes[-1][1], "EOL")])
            missing, extra = sorted(set(want) - set(got)), sorted(set(got) - set(want))
            mnames = {_group_name(c, n, lab) for c, n in merged for lab in (None, label_of((c, n)))}
            if missing and not extra and set(missing) <= mnames:
                sig = "restart/merged-step-missing"
            elif missing and not extra:
                sig = "restart/own-node-missing"
            else:
                sig = "restart/steps"
            if not out.check(got == want, sig, lambda: "restart from %r: the finished restart database holds %r, expected %r (missing %r, extra %r)"
                             % (start, got, want, missing, extra)):
                return out
            for nm in sorted(mnames):
                d = _tree_diff(_h5_tree(f1[nm]), _h5_tree(f2[nm]))
                if d is None and _top_attrs(f1[nm]) != _top_attrs(f2[nm]):
                    d = "group attributes differ"
                if d is not None:
                    out.fail("restart/merged-content", "step %s merged for the restart from %r differs from the first run's: %s" % (nm, start, d))
                    break
            for (c, n) in own:
                v = float(f2[_group_name(c, n, None) + "/Core/keff"][()].reshape(-1)[0])
                if v != _run_value(2, c, n):
                    out.fail("restart/own-node-value", "restart run node (%d, %d) holds keff %r, the run set %r" % (c, n, v, _run_value(2, c, n)))
                    break
        db = Database(files[1], "r")
        with db:
            for step in ([merged[-1]] if merged else []) + [own[0], own[-1]]:
                r2 = db.load(step[0], step[1], cs=cs2, bp=bp)
                want = _run_value(run_of(step), *step)
                out.check(float(r2.core.p.keff) == want, "restart/loaded-value", lambda: "load%r from the finished restart database: keff %r, expected %r" % (step, float(r2.core.p.keff), want))
    finally:
        for dbi in dbis:
            if dbi._db is not None and dbi._db.isOpen():
                dbi._db.close(False)
        _rm(*files)
        if os.path.exists(bpfile):
            os.remove(bpfile)
        shutil.rmtree(altdir, ignore_errors=True)
    return out


# ---------------------------------------------------------------------------------------------------------------------
# Part E: loads by negative node index ("indexed from EOC backwards like a list")

_NEG_MAX = {"quick": None, "thorough": (3, 3)}
_NEG_QUICK = [[0], [2], [1, 1], [1, 3], [3, 1, 2]]


def negative_enum(tier):
    if tier == "quick":
        return [{"burnSteps": b} for b in _NEG_QUICK]
    import itertools

    maxc, maxb = _NEG_MAX[tier]
    # a cycle without burn steps only as the single cycle of a run (what armi's cycle arithmetic admits is C15's subject)
    return [{"burnSteps": list(b)} for c in range(1, maxc + 1) for b in itertools.product(range(maxb + 1), repeat=c)
            if 0 not in b or len(b) == 1]


def negative_execute(case):
    from armi.bookkeeping.db.database import Database

    out = Out()
    steps = case["burnSteps"]
    if len(set(steps)) == 1:
        settings = {"nCycles": len(steps), "burnSteps": steps[0], "cycleLength": 100.0}
        out.label("cycles:simple")
    else:
        settings = {"nCycles": len(steps), "cycles": [{"cycle length": 100.0, "burn steps": b} for b in steps]}
        out.label("cycles:detailed")
    cs, bp, r = rg.build(FAULT_SPEC, settings)
    r.sort()
    fn = "c06n_%d.h5" % os.getpid()
    _rm(fn)
    db = Database(fn, "w")
    db.open()
    n_loads = 0
    try:
        for c, b in enumerate(steps):
            for n in range(b + 1):
                r.p.cycle, r.p.timeNode = c, n
                r.core.p.keff = _run_value(1, c, n)
                db.writeToDB(r)
        for c, b in enumerate(steps):
            N = b + 1
            for n in range(N):
                try:
                    r2 = db.load(c, n - N, cs=cs, bp=bp)
                except ValueError as e:
                    out.fail("negative-index/existing-node-refused", "cycle %d has %d nodes: load(%d, %d) must be node %d, raised ValueError: %s" % (c, N, c, n - N, n, e))
                    continue
                n_loads += 1
                got = (int(r2.p.cycle), int(r2.p.timeNode), float(r2.core.p.keff))
                out.check(got == (c, n, _run_value(1, c, n)), "negative-index/wrong-node",
                          lambda: "cycle %d has %d nodes: load(%d, %d) gave (cycle, node, keff) %r, expected node %d" % (c, N, c, n - N, got, n))
                if n == 0:
                    _compare_snapshot(out, "negative-index/state-differs", "load(%d, %d) vs load(%d, 0)" % (c, -N, c), _snapshot(db.load(c, 0, cs=cs, bp=bp)), r2, limit=2)
            try:
                db.load(c, -N - 1, cs=cs, bp=bp)
                out.fail("negative-index/out-of-range-accepted", "cycle %d has %d nodes: load(%d, %d) did not raise" % (c, N, c, -N - 1))
            except ValueError:
                pass
    finally:
        db.close(True)
        _rm(fn)
    out.evals = max(1, n_loads)
    out.nontrivial = len(steps) > 1 or steps[0] > 0
    out.nontrivial_count = n_loads
    return out


# ---------------------------------------------------------------------------------------------------------------------
# shapes of candidate armi defects, kept observable (the search avoids them by construction, see EXCLUDE_KNOWN)

KNOWN_SHAPES = ["unstored-component-parameter", "by-location-of-location", "split-renumbered-history"]


def known_enum(tier):
    return [{"shape": s, "geom": g} for s in KNOWN_SHAPES for g in ("hex", "cartesian")]


def known_execute(case):
    from armi.bookkeeping.db.database import Database

    from vp.model import observe as ob

    out = Out()
    out.nontrivial = True
    out.label("shape:" + case["shape"])
    spec = dict(FAULT_SPEC)
    if case["geom"] == "cartesian":
        spec.update(geom="cartesian", symmetry="full", rings=2, cells=[[0, 0, 0], [1, 0, 0], [0, 1, 0]])
    cs, bp, r = rg.build(spec)
    r.sort()
    fn = "c06k_%d.h5" % os.getpid()
    _rm(fn, fn.replace(".h5", "-bak.h5"))
    db = Database(fn, "w")
    db.open()
    try:
        if case["shape"] == "unstored-component-parameter":
            # burnupMWdPerKg: persistent, default 0.0, defined for every Component, assigned by nothing in this harness
            db.writeToDB(r)
            comp = [c for c in r.core[0][0]][0]
            name = "burnupMWdPerKg"
            stored = name in db.h5db["c00n00"][type(comp).__name__]
            out.label("stored" if stored else "unstored")
            try:
                h = db.getHistory(comp, [name])
                got = {tuple(int(x) for x in k): ob.loose_value(v) for k, v in h[name].items()}
                out.check(got == {(0, 0): 0.0}, "history/unstored-default-value", lambda: "history of the unset %s: %r, expected the default 0.0 at (0, 0)" % (name, got))
            except KeyError as e:
                out.fail(SIG_UNSTORED, "getHistory(%s, [%r]) with the parameter unset (default 0.0, not stored): KeyError %r instead of the default"
                         % (type(comp).__name__, name, e.args[0]))
        elif case["shape"] == "by-location-of-location":
            db.writeToDB(r)
            a = r.core[0]
            try:
                h = db.getHistoryByLocation(a, ["location"])
                got = {tuple(int(x) for x in k): ob.loose_value(v) for k, v in h["location"].items()}
                want = {(0, 0): ob.loose_value(list(_complete_indices(a)))}
                out.check(got == want, "history/by-location-value", lambda: "location history %r, expected %r" % (got, want))
            except ValueError as e:
                out.fail(SIG_LOCLOC, "getHistoryByLocation(assembly, ['location']): ValueError: %s" % str(e)[:200])
        else:
            b = r.core[0][0]
            for cyc in (2, 3):
                r.p.cycle, r.p.timeNode = cyc, 1
                b.p.power = 100.0 * cyc
                db.writeToDB(r)
            backup = db.splitDatabase([(2, 1), (3, 1)], "-bak")
            steps = list(db.genTimeSteps())
            out.check(steps == [(0, 1), (1, 1)], "split/steps", lambda: "steps after split %r" % steps)
            want = {(0, 1): 200.0, (1, 1): 300.0}
            r.p.cycle, r.p.timeNode = 1, 1
            h = db.getHistory(b, ["power"], steps)
            got = {tuple(int(x) for x in k): ob.loose_value(v) for k, v in h["power"].items()}
            out.check(got == want, SIG_SPLIT_ATTR, lambda: "after splitDatabase kept cycles 2,3 as 0,1 (genTimeSteps %r) getHistory(timeSteps=%r) reports %r, "
                      "expected %r: the copied groups keep attrs['cycle'] of the source" % (steps, steps, got, want))
            _rm(backup)
    finally:
        db.close(True)
        _rm(fn, fn.replace(".h5", "-bak.h5"))
    return out


def _guarded(execute):
    """Uncaught exceptions whose innermost armi/verif frame is in armi are violations (as the runner does); frames of
    compiled extension modules (h5py's .pyx files have relative names) are skipped when looking for that frame."""
    import functools

    @functools.wraps(execute)
    def run(case):
        import traceback

        from vp import env

        try:
            return execute(case)
        except Exception as exc:  # noqa: BLE001
            root = env.armi_root() + os.sep
            for fr in reversed(traceback.extract_tb(exc.__traceback__)):
                if not os.path.isabs(fr.filename):
                    continue
                fn = os.path.abspath(fr.filename)
                if fn.startswith(root):
                    out = Out()
                    text = "".join(traceback.format_exception(type(exc), exc, exc.__traceback__))
                    out.fail("uncaught/%s/%s:%s" % (type(exc).__name__, fn[len(root):], fr.name), text[-600:])
                    return out
                if fn.startswith(env.VERIF_ROOT + os.sep):
                    break
            raise

    return run


PARTS = [
    Part("histories", _guarded(hist_execute), strategy=hist_strategy, budget={"quick": 150, "thorough": 5000}, procs={"quick": 6, "thorough": 16},
         rule="Hypothesis: blueprint-built reactor (3-9 assemblies, hex/Cartesian, optional SFP) and a program of 5-18 operations drawn from a "
              "per-case subset of kinds (typed parameter assignments at reactor/core/assembly/block/component level, un-setting, assembly "
              "swaps and discharges to the SFP, temperature/composition/rotation, set (cycle,node) < 100, writeToDB with and without label, second write to "
              "an existing snapshot, load, keys/genTimeSteps/hasTimeStep, getHistory/getHistories/getHistor(y|ies)ByLocation on Database and "
              "DatabaseInterface incl. location, close+reopen, mergeHistory into a fresh file, splitDatabase); model {(c,n,label): observe at "
              "write}; listing checked after every step; non-trivial = a load of, or history over, >= 2 snapshots with a state change after a write"),
    Part("faults", _guarded(fault_execute), enumerate=fault_enum, exhaustive=True, procs={"quick": 6, "thorough": 16},
         rule="complete enumeration: every cycle layout within the bound, with and without tight coupling (with it: no, one or all cycles listed in "
              "cyclesSkipTightCouplingInteraction; every node is still written exactly once), the fault-free run and one run per "
              "(hook in BOL/BOC/EveryNode/Coupled/EOC/EOL, recorder position before/after the database interface, cycle, node) with an "
              "exception injected there; run through `with operator:`; oracle on the file in the working directory (exists, opens, "
              "successfulCompletion, exact snapshot listing, every snapshot's content incl. the error snapshot == state captured by the "
              "recorders); non-trivial = fault after at least one completed node write",
         bound=lambda t: "cycles <= %d, burn steps <= %d (plus 1 cycle x 0 steps), tight coupling on/off, cyclesSkipTightCouplingInteraction none/one/all, all hooks x 2 positions x cycles x nodes" % _BOUNDS[t]),
    Part("tracker", _guarded(tracker_execute), enumerate=tracker_enum, exhaustive=True, procs={"quick": 2, "thorough": 8},
         rule="every cycle layout within the bound x tight coupling on/off x skipped-coupling cycles none/one/all x with/without "
              "preloadBlockHistoryVals: fault-free run with armi's HistoryTrackerInterface in the stack (detail assembly through "
              "detailAssemLocationsBOL); both recorders change the tracked block parameters at every hook and, after the change, ask "
              "getBlockHistoryVal for every written step and the current step; oracle: a written step (the current one included) gives "
              "the recorder's own log of the value at that write, the current unwritten step the live value; the EOL report lists every "
              "written step; non-trivial = the run asked about a current, already written step and about past steps",
         bound=lambda t: "cycles <= %d, burn steps <= %d (plus 1 cycle x 0 steps)" % _BOUNDS[t]),
    Part("restart", _guarded(restart_execute), enumerate=restart_enum, exhaustive=True, procs={"quick": 2, "thorough": 8},
         rule="every layout within the bound x every restart point except (0,0): a complete first run, then a restart run (loadStyle "
              "fromDB, reloadDBName = first file) through MainInterface -> DatabaseInterface.prepRestartRun; a setter before the database "
              "interface gives keff/flux values naming (run, cycle, node); after every node write of the restart run an auditor calls "
              "Operator.loadState for the first and last merged step, the first step this run wrote and the current one, and again with "
              "the label of the second, labelled snapshot (other contents) that a prober interface writes for every step in both runs; oracle: "
              "loadState returns this run's state for steps this run wrote and the first run's for merged ones; the finished restart "
              "file is marked successful, lists exactly merged steps + own nodes + EOL, merged groups are byte-identical to the first "
              "file, own nodes hold run-2 values; non-trivial = at least one merged step",
         bound=lambda t: "cycles <= %d, burn steps 1..%d, every (startCycle, startNode) != (0, 0)" % _RESTART_BOUNDS[t]),
    Part("negative_index", _guarded(negative_execute), enumerate=negative_enum, exhaustive=True, procs={"quick": 1, "thorough": 8},
         rule="cycle layouts given as burn steps per cycle (uniform ones through nCycles/burnSteps, differing ones through the detailed "
              "`cycles` setting); every node written with its own keff, then every load(c, n - N_c) for n in 0..N_c-1 must be node n "
              "(the first one compared in full with load(c, 0)) and load(c, -N_c-1) must raise ValueError",
         bound=lambda t: "burn-step lists %r" % _NEG_QUICK if t == "quick" else "all lists of 1..3 cycles with 1..3 burn steps, and [0]"),
    Part("known_shapes", _guarded(known_execute), enumerate=known_enum, exhaustive=False, procs={"quick": 1, "thorough": 1},
         rule="the three shapes the histories part avoids by construction (history of a never-assigned parameter of a Component subclass; "
              "by-location history of 'location'; history after a renumbering splitDatabase), each on a hex and a Cartesian reactor, so that "
              "the candidate defects stay observed"),
]
