"""C11 - re-meshing an assembly axially conserves atoms and integrated quantities.

Parts
-----
remesh        assemblies x target meshes through makeAssemWithUniformMesh and back through setAssemblyStateFromOverlaps
windows       Assembly.getBlocksBetweenElevations against an independent overlap computation
snap_mesh     Assembly.setBlockMesh: mass-conserving change of the block mesh
filter_mesh   UniformMeshGenerator._filterMesh validity predicates / refusal rule
common_mesh   UniformMeshGenerator.generateCommonMesh on small blueprint reactors (public path of the filter)
converter     convert / applyStateToOriginal round trip, whole core and nonUniformAssemFlags subsets
resample      mathematics.resampleStepwise against an exact step-function integrator
average1d     mathematics.average1DWithinTolerance against the documented iterative procedure
"""
import math
import os

from hypothesis import strategies as st

from vp.model import c11_ref as ref
from vp.runner import Out, Part

PROPERTY = "C11"
LEVEL = "exploration"
ASSUMPTIONS = [
    "blocks of one assembly share the hexagon area (derived-shape coolant fills the pitch); atoms are N*V with V from "
    "Block.getVolume and N from Block.getNumberDensities",
    "mapped values are compared with abs tolerance 1e-10 * (sum of |source values| involved), 2e-9 when a target mesh "
    "point lies within 1e-6 of a source boundary without coinciding: armi documents a 1e-10 relative overlap cut-off, so a "
    "source block whose overlap/height is between 1e-11 and 1e-9 may or may not take part",
    "averaged parameters are asserted only where every overlapped source block holds a value (or none does: then the "
    "destination keeps its value); a mixture of set and unset overlapped values is not asserted for averaged parameters",
    "getBlocksBetweenElevations is asserted for windows that intersect the assembly; a window reaching more than 1e-5 cm "
    "outside may be refused with ValueError (its own consistency check), windows completely outside are not generated",
    "resampleStepwise: an output interval straddling an end of the input range gets the overlap-weighted mean of the bins it "
    "overlaps in averaging mode (constants stay constant), the integral with zero outside in sum mode, 0 when nothing is overlapped",
    "average1DWithinTolerance cases where some deviation is within 1e-9 of the tolerance are not compared (float order)",
    "target meshes keep cells >= 1e-4 cm and end exactly at the assembly top",
]

# Known candidate defects: the generator avoids these shapes by construction while the flag is True
# (a case carrying "raw": true is executed as written; the defect replays use that).
EXCLUDE_KNOWN = {
    "remesh/array-only-mapper-with-unset": False,  # repaired in /repo (fix: commit); searched again
    "common/top-plane-dropped-for-anchor-below-it": True,
    "converter/in/central-assembly-scaled-by-symmetry": True,
    "resample/sum-interval-inside-one-bin": False,  # repaired in /repo (fix: commit); searched again
    "resample/sum-modifies-array-input": False,  # repaired in /repo (fix: commit); searched again
    "resample/sum-none-in-partial-bin": False,  # repaired in /repo (fix: commit); searched again
    "resample/interval-starts-below-first-mesh-point": False,  # repaired in /repo (fix: commit); searched again
}

if os.environ.get("VP_C11_NO_EXCLUDE") == "1":  # debugging aid: run the generators over the excluded shapes too
    EXCLUDE_KNOWN = {k: False for k in EXCLUDE_KNOWN}

PITCH = 17.0
KINDS = ["fuel", "control", "reflector", "plenum", "mix"]
NUCS = ["U235", "U238", "PU239", "B10", "NA", "FE", "ZR"]
EPS = [0.0, 0.0, 0.0, 1e-12, -1e-12, 1e-10, -1e-10, 1e-9, -1e-9, 1e-8, -1e-8, 1e-6, -1e-6]
MIN_CELL = 1e-4

# name -> (mapping kind, shape, default is None)
PARAMS = {
    "power": ("int", "scalar", False),
    "powerGamma": ("int", "scalar", False),
    "kgHM": ("int", "scalar", False),
    "molesHmBOL": ("int", "scalar", False),
    "rxFuelDopplerConstant": ("int", "scalar", False),
    "mgFlux": ("int", "array", True),
    "adjMgFlux": ("int", "array", True),
    "mgFluxGamma": ("int", "array", True),
    "flux": ("avg", "scalar", False),
    "pdens": ("avg", "scalar", False),
    "linPow": ("avg", "scalar", False),
    "fastFlux": ("avg", "scalar", False),
    "THhotChannelCladODT": ("avg", "scalar", True),
    "TH0SigmaCladODT": ("avg", "scalar", True),
    "mgNeutronVelocity": ("avg", "array", True),
    "extSrc": ("avg", "array", True),
    "fluxPeak": ("peak", "scalar", False),
    "ppdens": ("peak", "scalar", False),
    "percentBuPeak": ("peak", "scalar", False),
}
PARAM_NAMES = list(PARAMS)


# ---------------------------------------------------------------------------------------------
# shared strategies / builders

def _height():
    return st.one_of(st.sampled_from([1.0, 5.0, 10.0, 10.0, 12.5, 25.0]), st.floats(0.5, 50.0, allow_nan=False))


def _frac():
    return st.one_of(st.sampled_from([1.0, 0.5, 0.25, 0.75, 1.0 / 3.0]), st.floats(0.001, 1.0, allow_nan=False))


def _point(maxb=7, lowfrac=False):
    f = st.one_of(st.sampled_from([0.0, 1.0, 0.5]), st.floats(0.0, 1.0, allow_nan=False)) if lowfrac else _frac()
    return st.fixed_dictionaries({"b": st.integers(0, maxb), "f": f, "e": st.sampled_from(EPS)})


def _value():
    return st.one_of(st.sampled_from([0.0, 1.0, 5.0, 1.0e6]), st.floats(-1.0e3, 1.0e3, allow_nan=False), st.floats(0.0, 1.0e9, allow_nan=False))


def _mkblock(spec):
    from armi.reactor import blocks, components

    kind, thot = spec["kind"], spec["thot"]
    b = blocks.HexBlock(kind, height=spec["h"])
    b.setType(kind)
    if kind == "mix":
        c = components.Hexagon("homogenizedHex", "_Mixture", thot, thot, PITCH)
        c.setNumberDensities({"NA": 2.0e-2, "FE": 1.0e-2})
        b.add(c)
        first = c
    else:
        mat = {"fuel": "UZr", "control": "B4C", "reflector": "HT9", "plenum": "Void"}[kind]
        name = kind if kind in ("fuel", "control") else "pin"
        first = components.Circle(name, mat, Tinput=25.0, Thot=thot, od=0.76, id=0.0, mult=127.0)
        b.add(first)
        b.add(components.Circle("clad", "HT9", Tinput=25.0, Thot=min(thot, 470.0), od=0.80, id=0.77, mult=127.0))
        b.add(components.Hexagon("duct", "HT9", Tinput=25.0, Thot=400.0, op=16.0, ip=15.3, mult=1.0))
        b.add(components.DerivedShape("coolant", "Sodium", Tinput=400.0, Thot=400.0))
        b.add(components.Hexagon("intercoolant", "Sodium", Tinput=400.0, Thot=400.0, op=PITCH, ip=16.0, mult=1.0))
    for ni, dens in spec.get("dens", []):
        first.setNumberDensity(NUCS[ni % len(NUCS)], dens)
    b.p.xsType = spec.get("xs", "A")
    b.p.axMesh = 1
    return b


def _mkassembly(blockspecs):
    from armi.reactor import assemblies, grids

    a = assemblies.HexAssembly("testAssemblyType")
    a.spatialGrid = grids.AxialGrid.fromNCells(len(blockspecs))
    a.spatialGrid.armiObject = a
    for spec in blockspecs:
        a.add(_mkblock(spec))
    a.calculateZCoords()
    a.reestablishBlockOrder()
    return a


def _plain(v):
    """armi parameter value -> None | float | [float]."""
    if v is None:
        return None
    if hasattr(v, "__len__") and not isinstance(v, str):
        if len(v) == 0:
            return None
        return [float(x) for x in v]
    return float(v)


def _vec(v):
    return v if isinstance(v, list) else [v]


# ---------------------------------------------------------------------------------------------
# part 1: re-meshing

MODES = ["identical", "coarser", "finer", "near", "random", "random", "mixed", "mixed", "mixed"]


def remesh_strategy(tier):
    block = st.fixed_dictionaries(
        {
            "kind": st.sampled_from(KINDS),
            "h": _height(),
            "thot": st.sampled_from([400.0, 450.0, 600.0]),
            "xs": st.sampled_from("ABC"),
            "dens": st.lists(st.tuples(st.integers(0, len(NUCS) - 1), st.floats(0.0, 0.05, allow_nan=False)).map(list), max_size=3),
        }
    )
    param = st.fixed_dictionaries(
        {
            "name": st.integers(0, len(PARAM_NAMES) - 1),
            "vals": st.lists(_value(), min_size=8, max_size=8),
            "mult": st.lists(st.floats(0.0, 4.0, allow_nan=False), min_size=4, max_size=4),
            "G": st.integers(1, 4),
            "unset": st.one_of(st.just(0), st.integers(0, 255), st.just(255)),
            "const": st.booleans(),
            "empty": st.booleans(),
        }
    )
    return st.fixed_dictionaries(
        {
            "blocks": st.lists(block, min_size=1, max_size=8),
            "mesh": st.fixed_dictionaries(
                {"mode": st.sampled_from(MODES), "pts": st.lists(_point(), min_size=2, max_size=10), "bits": st.integers(0, 2**24 - 1)}
            ),
            # optional pre-step: the assembly pitch is changed through Block.setPitch (factor x as-built) before re-meshing
            "pitch": st.one_of(st.none(), st.none(), st.sampled_from([0.97, 1.02, 1.05]), st.floats(0.97, 1.05, allow_nan=False)),
            # optional pre-step: blocks of the source assembly resized in place (axial growth / compaction), with or without mass conservation
            "resize": st.lists(st.fixed_dictionaries({"b": st.integers(0, 7), "f": st.one_of(st.sampled_from([0.9, 1.1, 1.25]), st.floats(0.8, 1.25, allow_nan=False)),
                                                      "conserve": st.booleans()}), max_size=3),
            "params": st.lists(param, min_size=1, max_size=7),
            "back": st.fixed_dictionaries(
                {"reassign": st.booleans(), "vals": st.lists(_value(), min_size=6, max_size=6), "unset": st.integers(0, 255)}
            ),
        }
    )


def _build_mesh(zs, recipe):
    """Target mesh (list of cell tops) over [0, zs[-1]] from the recipe; valid by construction."""
    n = len(zs) - 1
    top = zs[-1]
    hs = [zs[i + 1] - zs[i] for i in range(n)]
    mode, bits = recipe["mode"], recipe["bits"]
    pts = []
    if mode in ("identical", "finer"):
        pts += zs[1:]
    if mode == "finer":
        for i in range(n):
            k = 1 + ((bits >> (2 * i)) & 3)
            pts += [zs[i] + hs[i] * j / k for j in range(1, k)]
    if mode in ("coarser", "mixed"):
        pts += [zs[i + 1] for i in range(n) if (bits >> i) & 1]
    if mode == "near":
        for i in range(n - 1):
            pts.append(zs[i + 1] + EPS[((bits >> (4 * i)) & 15) % len(EPS)])
    if mode in ("random", "mixed", "near"):
        use = recipe["pts"] if mode != "near" else recipe["pts"][:2]
        for p in use:
            i = p["b"] % n
            pts.append(zs[i] + p["f"] * hs[i] + p["e"])
    mesh = []
    last = 0.0
    for p in sorted(pts):
        if p - last >= MIN_CELL and top - p >= MIN_CELL:
            mesh.append(p)
            last = p
    mesh.append(top)
    return mesh


def _mesh_class(zs, mesh):
    """(splits, merges, refinement, sliver) of a target mesh relative to the source boundaries."""
    inner_src = zs[1:-1]
    splits = any(any(zs[i] + 1e-6 < m < zs[i + 1] - 1e-6 for m in mesh) for i in range(len(zs) - 1))
    lo = 0.0
    merges = False
    for m in mesh:
        if any(lo + 1e-6 < z < m - 1e-6 for z in inner_src):
            merges = True
        lo = m
    refinement = all(z in mesh for z in zs[1:])
    sliver = any(0.0 < abs(m - z) < 1e-6 for m in mesh for z in zs)
    return splits, merges, refinement, sliver


def _param_value(p, i, kind, shape, none_default):
    """Value of parameter spec ``p`` on block ``i``: ('skip',) = leave untouched, else ('set', value)."""
    if (p["unset"] >> (i % 8)) & 1:
        if not none_default:
            return ("skip",)
        if shape == "array" and p["empty"]:
            return ("set", [])
        return ("skip",)
    v = p["vals"][0] if p["const"] else p["vals"][i % 8]
    if kind == "peak":
        v = abs(v)
    if shape == "array":
        return ("set", [v * m for m in p["mult"][: p["G"]]])
    return ("set", v)


def _overlap_sets(src_z, lo, hi):
    """(must, may, overlap list) of source cells for the window [lo, hi]."""
    ov = ref.overlaps(src_z, lo, hi)
    must, may = [], []
    for i, o in enumerate(ov):
        h = src_z[i + 1] - src_z[i]
        if o / h > 1e-9:
            must.append(i)
        if o / h > 1e-11:
            may.append(i)
    return must, may, ov


def _check_mapping(out, tag, names, src_z, src_vals, dst_z, pre_vals, got_vals, factor, pfx="remesh"):
    """Oracle for one application of setAssemblyStateFromOverlaps.

    src_vals[name][i], pre_vals[name][k], got_vals[name][k] are plain values (None | float | [float]).
    Returns {name: True when the total could be compared and held}.
    """
    nd = len(dst_z) - 1
    for name in names:
        kind, _shape, _nd = PARAMS[name]
        sv = src_vals[name]
        total_ok = kind == "int"
        got_total = None
        for k in range(nd):
            lo, hi = dst_z[k], dst_z[k + 1]
            H = hi - lo
            must, may, ov = _overlap_sets(src_z, lo, hi)
            set_may = [i for i in may if sv[i] is not None]
            set_must = [i for i in must if sv[i] is not None]
            got = got_vals[name][k]
            if not set_may:
                out.check(got == pre_vals[name][k], pfx + "/%s/unset-source-changes-destination" % kind,
                          lambda: "%s %s dest block %d: all overlapped source values unset, value %r -> %r" % (tag, name, k, pre_vals[name][k], got))
                continue
            if not set_must:
                total_ok = False
                out.label("ambiguous:sliver-only")
                continue
            if got is None:
                out.fail(pfx + "/%s/value-not-mapped" % kind, "%s %s dest block %d [%r,%r]: no value although sources %r are set" % (tag, name, k, lo, hi, set_must))
                total_ok = False
                continue
            if kind == "peak":
                cand = [sv[i] for i in set_may]
                need = max(sv[i] for i in set_must)
                out.check(got in cand and got >= need, pfx + "/peak/not-largest-overlapped",
                          lambda: "%s %s dest block %d [%r,%r]: got %r, overlapped values %r (required >= %r)" % (tag, name, k, lo, hi, got, cand, need))
                continue
            if kind == "avg" and len(set_may) != len(may):
                out.label("skipped:avg-partial-unset")
                continue
            width = len(_vec(sv[set_may[0]]))
            gv = _vec(got)
            if len(gv) != width:
                out.fail(pfx + "/%s/array-shape" % kind, "%s %s dest block %d: length %d expected %d" % (tag, name, k, len(gv), width))
                total_ok = False
                continue
            for g in range(width):
                if kind == "int":
                    terms = [(_vec(sv[i])[g], max(ov[i], 0.0) / (src_z[i + 1] - src_z[i])) for i in set_may]
                    scale = math.fsum(abs(v) for v, _w in terms)
                else:
                    terms = [(_vec(sv[i])[g], max(ov[i], 0.0) / H) for i in set_may]
                    scale = math.fsum(abs(v) * (1.0 + (src_z[i + 1] - src_z[i]) / H) for (v, _w), i in zip(terms, set_may))
                exp = math.fsum(v * w for v, w in terms)
                tol = factor * scale + 1e-300
                sig = pfx + ("/int/share-of-source" if kind == "int" else "/avg/not-height-weighted-mean")
                out.check(abs(gv[g] - exp) <= tol, sig,
                          lambda: "%s %s[%d] dest block %d [%r,%r] H=%r: got %r expected %r (tol %.3g); sources %r" % (
                              tag, name, g, k, lo, hi, H, gv[g], exp, tol, [(i, sv[i], ov[i]) for i in set_may]))
                if kind == "avg":
                    vs = [_vec(sv[i])[g] for i in set_may]
                    if max(vs) == min(vs):
                        # (part of the cell covered only by overlaps below the documented cut-off counts as empty)
                        uncovered = abs(1.0 - math.fsum(max(ov[i], 0.0) for i in set_may) / H)
                        out.check(abs(gv[g] - vs[0]) <= tol + uncovered * abs(vs[0]), pfx + "/avg/constant-not-preserved",
                                  lambda: "%s %s[%d] dest block %d: constant %r became %r" % (tag, name, g, k, vs[0], gv[g]))
            if kind == "int":
                got_total = gv if got_total is None else [a + b for a, b in zip(got_total, gv)]
        if kind == "int" and total_ok:
            setsrc = [_vec(v) for v in sv if v is not None]
            if setsrc and got_total is not None:
                for g in range(len(setsrc[0])):
                    exp = math.fsum(v[g] for v in setsrc)
                    scale = math.fsum(abs(v[g]) for v in setsrc)
                    out.check(abs(got_total[g] - exp) <= 4 * factor * scale + 1e-300, pfx + "/int/assembly-total-not-conserved",
                              lambda: "%s %s[%d]: assembly total %r -> %r (sum |v| = %r)" % (tag, name, g, exp, got_total[g], scale))


def _read_params(assem, names):
    return {name: [_plain(b.p[name]) for b in assem] for name in names}


def _densities(assem, nucs):
    return [[float(b.getNumberDensity(n)) for n in nucs] for b in assem]


def _check_densities(out, tag, nucs, src_z, srcN, srcV, dst_z, dstN, dstV, factor):
    nd = len(dst_z) - 1
    for ni, nuc in enumerate(nucs):
        for k in range(nd):
            lo, hi = dst_z[k], dst_z[k + 1]
            H = hi - lo
            _must, may, ov = _overlap_sets(src_z, lo, hi)
            exp = math.fsum(srcN[i][ni] * max(ov[i], 0.0) / H for i in may)
            scale = math.fsum(abs(srcN[i][ni]) * (1.0 + (src_z[i + 1] - src_z[i]) / H) for i in may)
            out.check(abs(dstN[k][ni] - exp) <= factor * scale + 1e-300, "remesh/atoms/block-density-formula",
                      lambda: "%s %s dest block %d [%r,%r]: N=%r expected sum N_i h_i / H = %r" % (tag, nuc, k, lo, hi, dstN[k][ni], exp))
        a0 = math.fsum(srcN[i][ni] * srcV[i] for i in range(len(srcV)))
        a1 = math.fsum(dstN[k][ni] * dstV[k] for k in range(nd))
        out.check(abs(a1 - a0) <= 2 * factor * abs(a0) + 1e-300, "remesh/atoms/not-conserved",
                  lambda: "%s %s: atoms (N*V summed) %r -> %r, rel %.3g" % (tag, nuc, a0, a1, (a1 - a0) / a0 if a0 else float("inf")))


def remesh_execute(case):
    from armi.reactor.converters import uniformMesh as um

    out = Out()
    specs = case["blocks"]
    n = len(specs)
    a = _mkassembly(specs)
    if case.get("pitch") is not None and case["pitch"] != 1.0:
        # public pitch change (as Core.setPitchUniform does per block); every oracle below is taken from the live objects afterwards
        newPitch = PITCH * case["pitch"]
        for b in a:
            b.setPitch(newPitch)
        out.label("pitch:changed")
        out.check(all(abs(b.getPitch() - newPitch) <= 1e-12 * newPitch for b in a), "remesh/harness-pitch-not-set", lambda: "pitches %r" % [b.getPitch() for b in a])
    for rz in case.get("resize", []):
        # Block.setHeight documents that it refreshes the parent's z-coordinates itself; nothing else is called afterwards
        b = a[rz["b"] % n]
        h1 = b.getHeight() * rz["f"]
        if rz["conserve"]:
            b.setHeight(h1, conserveMass=True, adjustList=sorted(b.getNuclides()))
        else:
            b.setHeight(h1)
        out.label("resize:" + ("conserveMass" if rz["conserve"] else "plain"))
    heights = [float(b.getHeight()) for b in a]
    src_z = ref.cumulative(heights)
    # precondition of every re-meshing: the blocks' zbottom/ztop are contiguous and equal the cumulative heights
    if not out.check(all(abs(b.p.ztop - src_z[i + 1]) <= 1e-9 and abs(b.p.zbottom - src_z[i]) <= 1e-9 for i, b in enumerate(a)),
                     "remesh/source-z-coordinates", lambda: "block (zbottom, ztop) %r vs cumulative heights %r" % ([(b.p.zbottom, b.p.ztop) for b in a], src_z)):
        return out
    mesh = _build_mesh(src_z, case["mesh"])
    dst_z = [0.0] + mesh
    splits, merges, refinement, sliver = _mesh_class(src_z, mesh)
    out.nontrivial = splits and merges
    factor = 2e-9 if sliver else 1e-10
    out.label("mode:" + case["mesh"]["mode"], "blocks:%d" % n, "cells:%s" % (len(mesh) if len(mesh) < 10 else "10+"))
    for flag, name in ((splits, "splits"), (merges, "merges"), (refinement, "refinement"), (sliver, "sliver")):
        if flag:
            out.label("mesh:" + name)

    # parameters
    pspecs = {}
    for p in case["params"]:
        pspecs.setdefault(PARAM_NAMES[p["name"] % len(PARAM_NAMES)], p)
    names = list(pspecs)
    # known shape: every mapped parameter is an array of one length and some of them are unset on some block
    S_ARR = "remesh/array-only-mapper-with-unset"
    arrays_only = len(names) >= 2 and all(PARAMS[nm][1] == "array" for nm in names) and len({pspecs[nm]["G"] for nm in names}) == 1
    if arrays_only:
        mask = (1 << min(n, 8)) - 1
        arrays_only = any(pspecs[nm]["unset"] & mask for nm in names) or (case["back"]["reassign"] and case["back"]["unset"] != 0)
    if arrays_only and not case.get("raw") and EXCLUDE_KNOWN[S_ARR]:
        out.label("excluded:" + S_ARR)
        pspecs["kgHM"] = {"name": PARAM_NAMES.index("kgHM"), "vals": [1.0] * 8, "mult": [1.0] * 4, "G": 1, "unset": 0, "const": True, "empty": False}
        names = list(pspecs)
        arrays_only = False
    for name in names:
        kind, shape, none_default = PARAMS[name]
        p = pspecs[name]
        anyunset = False
        for i, b in enumerate(a):
            r = _param_value(p, i, kind, shape, none_default)
            if r[0] == "set":
                b.p[name] = r[1]
                if r[1] == []:
                    anyunset = True
            else:
                anyunset = True
        out.label("param:%s-%s" % (kind, shape))
        if anyunset:
            out.label("param:%s-with-unset" % kind)
        if p["const"]:
            out.label("param:%s-constant" % kind)
    pm = um.ParamMapper([], names, a[0])
    for name in names:
        kind = PARAMS[name][0]
        out.check(bool(pm.isVolIntegrated[name]) == (kind == "int") and bool(pm.isPeak[name]) == (kind == "peak"),
                  "remesh/param-location-kind", lambda: "%s: integrated=%r peak=%r, expected kind %s" % (name, pm.isVolIntegrated[name], pm.isPeak[name], kind))

    nucs = sorted({nuc for b in a for nuc in b.getNumberDensities()})
    srcN = _densities(a, nucs)
    srcV = [float(b.getVolume()) for b in a]
    src_vals = _read_params(a, names)
    out.check(all(abs(v / (src_z[i + 1] - src_z[i]) - srcV[0] / (src_z[1] - src_z[0])) <= 1e-9 * srcV[0] for i, v in enumerate(srcV)),
              "remesh/harness-equal-area", "source blocks do not share one area")

    # ---- forward: onto the target mesh
    try:
        new = um.UniformMeshGeometryConverter.makeAssemWithUniformMesh(a, mesh, paramMapper=pm, mapNumberDensities=True)
    except TypeError as exc:  # numpy's UFuncTypeError
        if not (arrays_only and "Cannot cast ufunc" in str(exc)):
            raise
        out.fail(S_ARR, "forward, parameters %r on blocks %r: %s: %s" % (names, [[src_vals[nm][i] for nm in names] for i in range(n)], type(exc).__name__, exc))
        return out
    ok = out.check(len(new) == len(mesh), "remesh/structure/block-count", lambda: "%d blocks for %d mesh cells" % (len(new), len(mesh)))
    if not ok:
        return out
    tolz = 1e-9 * max(1.0, src_z[-1])
    out.check(all(abs(b.p.zbottom - dst_z[k]) <= tolz and abs(b.p.ztop - dst_z[k + 1]) <= tolz and abs(b.getHeight() - (dst_z[k + 1] - dst_z[k])) <= tolz
                  for k, b in enumerate(new)), "remesh/structure/mesh-not-applied",
              lambda: "requested tops %r, got %r" % (mesh, [b.p.ztop for b in new]))
    dstV = [float(b.getVolume()) for b in new]
    area = srcV[0] / (src_z[1] - src_z[0])
    out.check(all(abs(v / (dst_z[k + 1] - dst_z[k]) - area) <= 1e-9 * area for k, v in enumerate(dstV)), "remesh/structure/area-changed",
              lambda: "source area %r, new block areas %r" % (area, [v / (dst_z[k + 1] - dst_z[k]) for k, v in enumerate(dstV)]))
    nucs2 = sorted(set(nucs) | {nuc for b in new for nuc in b.getNumberDensities()})
    out.check(nucs2 == nucs or all(all(b.getNumberDensity(x) == 0.0 for b in new) for x in set(nucs2) - set(nucs)),
              "remesh/atoms/new-nuclide-appears", lambda: "nuclides %r -> %r" % (nucs, nucs2))
    dstN = _densities(new, nucs)
    _check_densities(out, "forward", nucs, src_z, srcN, srcV, dst_z, dstN, dstV, factor)
    if "U235" in nucs:
        m0, m1 = a.getMass("U235"), new.getMass("U235")
        out.check(abs(m1 - m0) <= 2 * factor * abs(m0) + 1e-300, "remesh/atoms/getMass-not-conserved", lambda: "getMass(U235) %r -> %r" % (m0, m1))
    # the source is left alone
    out.check(_densities(a, nucs) == srcN and _read_params(a, names) == src_vals and [b.getHeight() for b in a] == heights,
              "remesh/source-assembly-modified", "forward mapping changed the source assembly")
    # parameters on the new assembly: fresh blocks start from the parameter defaults
    pre = {name: [_plain(pm.paramDefaults[name])] * len(mesh) for name in names}
    fwd_vals = _read_params(new, names)
    _check_mapping(out, "forward", names, src_z, src_vals, dst_z, pre, fwd_vals, factor)

    # ---- refinement and back: exact inverse for every quantity
    if refinement and not sliver:
        try:
            back = um.UniformMeshGeometryConverter.makeAssemWithUniformMesh(new, src_z[1:], paramMapper=pm, mapNumberDensities=True)
        except TypeError as exc:
            if not (arrays_only and "Cannot cast ufunc" in str(exc)):
                raise
            out.fail(S_ARR, "refine and coarsen, parameters %r: %s: %s" % (names, type(exc).__name__, exc))
            return out
        if out.check(len(back) == n, "remesh/structure/block-count", "round trip block count"):
            bN = _densities(back, nucs)
            for i in range(n):
                for ni, nuc in enumerate(nucs):
                    out.check(abs(bN[i][ni] - srcN[i][ni]) <= 1e-10 * abs(srcN[i][ni]) + 1e-300, "remesh/roundtrip/refinement-density",
                              lambda: "block %d %s: %r -> %r after refine + coarsen" % (i, nuc, srcN[i][ni], bN[i][ni]))
            bvals = _read_params(back, names)
            for name in names:
                kind = PARAMS[name][0]
                for i in range(n):
                    s, g = src_vals[name][i], bvals[name][i]
                    if s is None or g is None:
                        out.check(s == g, "remesh/roundtrip/refinement-unset", lambda: "%s block %d: %r -> %r" % (name, i, s, g))
                        continue
                    sv_, gv_ = _vec(s), _vec(g)
                    out.check(len(sv_) == len(gv_) and all(abs(x - y) <= 1e-10 * abs(x) + 1e-300 for x, y in zip(sv_, gv_)),
                              "remesh/roundtrip/refinement-%s" % kind, lambda: "%s block %d: %r -> %r after refine + coarsen" % (name, i, s, g))

    # ---- optionally new results on the target mesh, then map the state back onto the original mesh
    bk = case["back"]
    if bk["reassign"]:
        out.label("back:reassigned")
        for pi, name in enumerate(names):
            kind, shape, none_default = PARAMS[name]
            p = dict(pspecs[name], vals=(bk["vals"] * 2)[:8], const=False, unset=bk["unset"] if none_default else 0)
            for k, b in enumerate(new):
                r = _param_value(p, k + 2 * pi, kind, shape, none_default)
                if r[0] == "set":
                    b.p[name] = r[1]
                elif none_default:
                    b.p[name] = None
    else:
        out.label("back:mapped-values")
    uni_vals = _read_params(new, names)
    pre_back = _read_params(a, names)
    try:
        um.UniformMeshGeometryConverter.setAssemblyStateFromOverlaps(new, a, pm, mapNumberDensities=False)
    except TypeError as exc:
        if not (arrays_only and "Cannot cast ufunc" in str(exc)):
            raise
        out.fail(S_ARR, "back, parameters %r on blocks %r: %s: %s" % (names, [[uni_vals[nm][k] for nm in names] for k in range(len(mesh))], type(exc).__name__, exc))
        return out
    got_back = _read_params(a, names)
    new_z = [0.0] + [float(b.p.ztop) for b in new]
    _check_mapping(out, "back", names, new_z, uni_vals, src_z, pre_back, got_back, factor)
    out.check(_densities(a, nucs) == srcN, "remesh/back/densities-touched", "mapNumberDensities=False changed number densities")
    out.check(_read_params(new, names) == uni_vals, "remesh/back/source-of-back-mapping-modified", "mapping back changed the uniform assembly")
    if not bk["reassign"]:
        # totals of integrated parameters are restored
        for name in names:
            if PARAMS[name][0] != "int":
                continue
            s0 = [_vec(v) for v in src_vals[name] if v is not None]
            s1 = [_vec(v) for v in got_back[name] if v is not None]
            if not s0 or any(v is None for v in src_vals[name]):
                continue
            if len(s1) != len(s0):
                out.fail("remesh/roundtrip/total-not-restored", "%s: values lost on the way back: %r -> %r" % (name, src_vals[name], got_back[name]))
                continue
            for g in range(len(s0[0])):
                t0 = math.fsum(v[g] for v in s0)
                t1 = math.fsum(v[g] for v in s1)
                scale = math.fsum(abs(v[g]) for v in s0)
                out.check(abs(t1 - t0) <= 8 * factor * scale + 1e-300, "remesh/roundtrip/total-not-restored",
                          lambda: "%s[%d]: assembly total %r, after there-and-back %r" % (name, g, t0, t1))
    # atoms once more: the new assembly re-meshed onto the original mesh
    again = um.UniformMeshGeometryConverter.makeAssemWithUniformMesh(new, src_z[1:], paramMapper=None, mapNumberDensities=True)
    if len(again) == n:
        _check_densities(out, "back", nucs, new_z, dstN, dstV, src_z, _densities(again, nucs), [float(b.getVolume()) for b in again], factor)
    else:
        out.fail("remesh/structure/block-count", "back onto the original mesh: %d blocks for %d cells" % (len(again), n))
    return out


# ---------------------------------------------------------------------------------------------
# part 2: getBlocksBetweenElevations

def windows_strategy(tier):
    win = st.fixed_dictionaries(
        {
            "lo": _point(lowfrac=True),
            "hi": _point(lowfrac=True),
            "ext": st.sampled_from(["none", "none", "none", "below", "above", "both"]),
            "d": st.sampled_from([1e-9, 1e-6, 2e-5, 1.0, 100.0]),
        }
    )
    return st.fixed_dictionaries({"heights": st.lists(_height(), min_size=1, max_size=8), "wins": st.lists(win, min_size=1, max_size=6)})


def windows_execute(case):
    out = Out()
    hs = case["heights"]
    n = len(hs)
    a = _mkassembly([{"kind": "mix", "h": h, "thot": 450.0} for h in hs])
    zs = ref.cumulative(hs)
    H = zs[-1]
    blocks_ = list(a)
    out.evals = len(case["wins"])
    nontrivial = 0
    for w in case["wins"]:
        pts = []
        for p in (w["lo"], w["hi"]):
            i = p["b"] % n
            pts.append(zs[i] + p["f"] * hs[i] + p["e"])
        lo, hi = min(pts), max(pts)
        if w["ext"] in ("below", "both"):
            lo = -w["d"]
        if w["ext"] in ("above", "both"):
            hi = H + w["d"]
        if hi < 0.0 or lo > H:  # entirely outside: not a caller's input
            lo, hi = 0.0, H
        excess = max(0.0, -lo) + max(0.0, hi - H)
        ov = ref.overlaps(zs, lo, hi)
        clipped = max(0.0, min(hi, H) - max(lo, 0.0))
        partial = sum(1 for i in range(n) if 1e-6 < ov[i] < hs[i] - 1e-6)
        touched = sum(1 for i in range(n) if ov[i] > 1e-6)
        if touched >= 2 and partial >= 1:
            nontrivial += 1
        where = "degenerate" if hi == lo else "inside" if excess == 0 else "outside<=1e-5" if excess <= 1e-5 else "outside-" + ("both" if lo < 0 and hi > H else "below" if lo < 0 else "above")
        out.label("window:" + where, "touched:%d" % min(touched, 4))
        try:
            got = a.getBlocksBetweenElevations(lo, hi)
        except ValueError as exc:
            out.check(excess > 0.99e-5, "windows/refused-window-inside-assembly",
                      lambda: "heights %r window [%r, %r]: %s" % (hs, lo, hi, str(exc)[:200]))
            out.label("window:refused")
            continue
        tol = 1e-9 * max(1.0, H)
        idx = [blocks_.index(b) for b, _h in got]
        out.check(idx == sorted(set(idx)), "windows/order-or-duplicates", lambda: "blocks reported in order %r" % idx)
        out.check(all(h > 0 for _b, h in got), "windows/overlap-not-positive", lambda: "heights %r window [%r,%r]: overlaps %r" % (hs, lo, hi, [h for _b, h in got]))
        for (b, h), i in zip(got, idx):
            out.check(abs(h - ov[i]) <= tol, "windows/overlap-height", lambda: "heights %r window [%r,%r]: block %d overlap %r expected %r" % (hs, lo, hi, i, h, ov[i]))
            out.check(ov[i] / hs[i] > 1e-11, "windows/block-without-overlap-reported", lambda: "block %d overlap %r of height %r reported" % (i, ov[i], hs[i]))
        missing = [i for i in range(n) if ov[i] / hs[i] > 1e-9 and i not in idx]
        out.check(not missing, "windows/overlapping-block-missing", lambda: "heights %r window [%r,%r]: blocks %r missing (overlaps %r)" % (hs, lo, hi, missing, [ov[i] for i in missing]))
        total = math.fsum(h for _b, h in got)
        out.check(abs(total - clipped) <= 2e-9 * max(1.0, H) * max(1, n), "windows/sum-not-window-length",
                  lambda: "heights %r window [%r,%r]: overlaps sum to %r, window clipped to the assembly is %r" % (hs, lo, hi, total, clipped))
    out.nontrivial_count = nontrivial
    return out


# ---------------------------------------------------------------------------------------------
# part 2b: Assembly.setBlockMesh (snap the blocks to another mesh with the same number of cells)

def snap_strategy(tier):
    block = st.fixed_dictionaries(
        {
            "kind": st.sampled_from(KINDS),
            "h": _height(),
            "thot": st.sampled_from([400.0, 450.0, 600.0]),
            "dens": st.lists(st.tuples(st.integers(0, len(NUCS) - 1), st.floats(0.0, 0.05, allow_nan=False)).map(list), max_size=2),
        }
    )
    return st.fixed_dictionaries(
        {
            "blocks": st.lists(block, min_size=2, max_size=8),
            "newh": st.lists(_height(), min_size=8, max_size=8),
            "flag": st.sampled_from(["true", "false", "auto"]),
            "atype": st.sampled_from(["fuel", "fuel", "control", "testAssemblyType"]),
            "sameTotal": st.booleans(),
        }
    )


def snap_execute(case):
    from armi.materials.material import Fluid
    from armi.reactor.flags import Flags

    out = Out()
    specs = case["blocks"]
    n = len(specs)
    a = _mkassembly(specs)
    a.setType(case["atype"])
    old_z = ref.cumulative([s["h"] for s in specs])
    nh = list(case["newh"][:n])
    if case["sameTotal"]:
        f = old_z[-1] / math.fsum(nh)
        nh = [h * f for h in nh]
    new_z = ref.cumulative(nh)
    flag = {"true": True, "false": False, "auto": "auto"}[case["flag"]]
    out.label("flag:" + case["flag"], "assembly:" + case["atype"], "total:" + ("same" if case["sameTotal"] else "changed"))
    a.makeAxialSnapList(refAssem=a)
    out.check([b.p.topIndex for b in a] == list(range(n)), "snap/top-index", lambda: "topIndex %r" % [b.p.topIndex for b in a])

    def comps(b):
        return [(c, {nuc: float(v) for nuc, v in c.getNumberDensities().items()}, float(c.getVolume())) for c in b]

    before = [comps(b) for b in a]
    fuel_assembly = a.hasFlags(Flags.FUEL)
    a.setBlockMesh(new_z[1:], conserveMassFlag=flag)
    tolz = 1e-9 * max(1.0, new_z[-1])
    out.check(all(abs(b.p.ztop - new_z[i + 1]) <= tolz and abs(b.p.zbottom - new_z[i]) <= tolz and abs(b.getHeight() - nh[i]) <= tolz for i, b in enumerate(a)),
              "snap/mesh-not-applied", lambda: "requested %r got %r" % (new_z[1:], [b.p.ztop for b in a]))
    below_fuel = True
    moved = 0
    for i, b in enumerate(a):
        if b.isFuel():
            below_fuel = False
        ratio = nh[i] / specs[i]["h"]
        if abs(ratio - 1.0) > 1e-3:
            moved += 1
        for c, n0, v0 in before[i]:
            v1 = float(c.getVolume())
            if flag is True:
                conserve = True
            elif flag is False:
                conserve = False
            elif b.hasFlags(Flags.FUEL):
                conserve = c.hasFlags(Flags.FUEL)
            elif fuel_assembly and below_fuel:
                conserve = not isinstance(c.material, Fluid)
            else:
                conserve = False
            out.check(abs(v1 - v0 * ratio) <= 1e-9 * abs(v0 * ratio), "snap/component-volume", lambda: "block %d %s: volume %r -> %r for height ratio %r" % (i, c.getName(), v0, v1, ratio))
            n1 = c.getNumberDensities()
            for nuc, d0 in n0.items():
                d1 = float(n1.get(nuc, 0.0))
                if conserve:
                    out.check(abs(d1 * v1 - d0 * v0) <= 1e-10 * abs(d0 * v0) + 1e-300, "snap/atoms-not-conserved",
                              lambda: "flag %r block %d (%s) component %s %s: atoms %r -> %r (height %r -> %r)" % (flag, i, specs[i]["kind"], c.getName(), nuc, d0 * v0, d1 * v1, specs[i]["h"], nh[i]))
                else:
                    out.check(d1 == d0, "snap/density-changed-without-conservation",
                              lambda: "flag %r block %d (%s) component %s %s: density %r -> %r" % (flag, i, specs[i]["kind"], c.getName(), nuc, d0, d1))
    out.nontrivial = moved >= 2 and flag is not False
    return out


# ---------------------------------------------------------------------------------------------
# part 3: _filterMesh

def filter_strategy(tier):
    grid = st.integers(0, 80).map(lambda k: k * 0.25)
    pt = st.one_of(grid, grid, st.floats(0.0, 25.0, allow_nan=False))
    return st.fixed_dictionaries(
        {
            "cands": st.lists(pt, min_size=0, max_size=14),
            "minimum": st.one_of(st.sampled_from([0.0, 0.25, 0.5, 1.0, 3.0]), st.floats(0.01, 20.0, allow_nan=False)),
            "anchorIdx": st.lists(st.integers(0, 20), max_size=5),
            "extraAnchors": st.lists(pt, max_size=2),
            "pref": st.sampled_from(["bottom", "top", "bottom", "top", "bottom", "top", "middle"]),
            "container": st.sampled_from(["list", "set", "tuple"]),
            "warn": st.booleans(),
        }
    )


def filter_execute(case):
    from armi.reactor.converters import uniformMesh as um

    out = Out()
    cands = list(case["cands"])
    minimum = case["minimum"]
    anchors = [cands[i % len(cands)] for i in case["anchorIdx"]] if cands else []
    anchors += case["extraAnchors"]
    gen = um.UniformMeshGenerator(None, minimumMeshSize=minimum)
    arg = {"list": list, "set": set, "tuple": tuple}[case["container"]](cands)
    anchors_arg = list(anchors)
    pref = case["pref"]
    out.label("pref:" + pref, "anchors:%d" % min(len(set(anchors) & set(cands)), 3))
    if pref not in ("bottom", "top"):
        try:
            gen._filterMesh(arg, minimum, anchors_arg, preference=pref)
            out.fail("filter/invalid-preference-accepted", "preference %r accepted" % pref)
        except ValueError:
            out.rejected = True
        return out
    close = ref.anchors_too_close(cands, minimum, anchors)
    try:
        res = gen._filterMesh(arg, minimum, anchors_arg, preference=pref, warn=case["warn"])
    except ValueError as exc:
        out.rejected = True
        out.label("outcome:refused")
        out.nontrivial = len(set(cands)) >= 3
        out.check(close is not None and "anchor" in str(exc), "filter/refused-without-close-anchors",
                  lambda: "candidates %r min %r anchors %r: %s" % (cands, minimum, anchors, str(exc)[:150]))
        return out
    out.label("outcome:filtered")
    out.check(close is None, "filter/close-anchors-not-refused",
              lambda: "candidates %r min %r anchors %r: anchors %r are closer than the minimum, result %r" % (cands, minimum, anchors, close, res))
    out.check(isinstance(res, list), "filter/result-type", "result is %s" % type(res).__name__)
    res = list(res)
    if close is None:
        for clause, detail in ref.filter_valid(cands, minimum, anchors, res):
            out.fail("filter/" + clause, "candidates %r min %r anchors %r pref %s -> %r: %s" % (cands, minimum, anchors, pref, res, detail))
    if not (set(anchors) & set(cands)):
        exp = ref.greedy_filter(cands, minimum, pref)
        out.check(res == exp, "filter/preference", lambda: "candidates %r min %r pref %s: %r expected %r" % (cands, minimum, pref, res, exp))
    elif close is None:
        exp = ref.anchored_filter(cands, minimum, anchors, pref)
        out.check(res == exp, "filter/conflict-rule", lambda: "candidates %r min %r anchors %r pref %s: %r expected %r" % (cands, minimum, anchors, pref, res, exp))
    out.check(list(case["cands"]) == cands and (case["container"] != "list" or arg == cands) and anchors_arg == anchors, "filter/input-modified", "inputs changed")
    removed = len(set(cands)) - len(res)
    out.nontrivial = removed >= 1 and bool(set(anchors) & set(cands))
    if removed:
        out.label("removed:%d" % min(removed, 4))
    return out


# ---------------------------------------------------------------------------------------------
# part 3b: generateCommonMesh on a small reactor built from blueprint text

_BLOCK_TEXT = {
    "grid plate": [("grid", "Circle", "HT9", "id: 0.0", "od: 0.8", "mult: 127.0")],
    "fuel": [("fuel", "Circle", "UZr", "id: 0.0", "od: 0.7", "mult: 127.0"), ("clad", "Circle", "HT9", "id: 0.72", "od: 0.8", "mult: 127.0")],
    "control": [("control", "Circle", "B4C", "id: 0.0", "od: 0.7", "mult: 127.0"), ("clad", "Circle", "HT9", "id: 0.72", "od: 0.8", "mult: 127.0")],
    "plenum": [("clad", "Circle", "HT9", "id: 0.72", "od: 0.8", "mult: 127.0")],
    "reflector": [("reflector", "Circle", "HT9", "id: 0.0", "od: 0.8", "mult: 127.0")],
}
_SPECIFIERS = ["FA", "FB", "CA", "CB"]
_ASSEM_NAMES = {("fuel", 0): "inner fuel", ("fuel", 1): "outer fuel", ("control", 0): "primary control", ("control", 1): "secondary control"}
_CELLS = [(0, 0), (1, 0), (0, 1), (-1, 1), (-1, 0), (0, -1), (1, -1)]


def _render_bp(designs, cells, symmetry="full"):
    L = ["blocks:"]
    for kind, comps in _BLOCK_TEXT.items():
        L.append("    %s: &block_%s" % (kind, kind.replace(" ", "_")))
        for c in comps:
            L.append("        %s:" % c[0])
            L.append("            shape: %s" % c[1])
            L.append("            material: %s" % c[2])
            L.append("            Tinput: 450.0")
            L.append("            Thot: 450.0")
            for kv in c[3:]:
                L.append("            %s" % kv)
        L += ["        coolant:", "            shape: DerivedShape", "            material: Sodium", "            Tinput: 450.0", "            Thot: 450.0"]
        L += ["        duct:", "            shape: Hexagon", "            material: HT9", "            Tinput: 450.0", "            Thot: 450.0",
              "            ip: 15.3", "            mult: 1.0", "            op: 16.0"]
        L += ["        intercoolant:", "            shape: Hexagon", "            material: Sodium", "            Tinput: 450.0", "            Thot: 450.0",
              "            ip: duct.op", "            mult: 1.0", "            op: 17.0"]
    L.append("assemblies:")
    for di, d in enumerate(designs):
        L.append("    %s %s:" % (_ASSEM_NAMES[(d["main"], di % 2)], _SPECIFIERS[di].lower()))
        L.append("        specifier: %s" % _SPECIFIERS[di])
        L.append("        blocks: [%s]" % ", ".join("*block_%s" % k.replace(" ", "_") for k in d["kinds"]))
        L.append("        height: [%s]" % ", ".join(repr(h) for h in d["heights"]))
        L.append("        axial mesh points: [%s]" % ", ".join("1" for _ in d["kinds"]))
        L.append("        xs types: [%s]" % ", ".join("A" for _ in d["kinds"]))
    L += ["systems:", "    core:", "        grid name: core", "        origin: {x: 0.0, y: 0.0, z: 0.0}"]
    L += ["grids:", "    core:", "        geom: hex", "        symmetry: %s" % symmetry, "        grid contents:"]
    for (i, j), di in cells:
        L.append("            [%d,%d]: %s" % (i, j, _SPECIFIERS[di]))
    return "\n".join(L) + "\n"


def common_strategy(tier):
    return st.fixed_dictionaries(
        {
            "nb": st.integers(3, 6),
            "base": st.lists(st.one_of(st.sampled_from([10.0, 25.0, 5.0]), st.floats(2.0, 40.0, allow_nan=False)), min_size=6, max_size=6),
            "designs": st.lists(
                st.fixed_dictionaries(
                    {
                        "control": st.booleans(),
                        "lo": st.integers(1, 4),
                        "len": st.integers(1, 3),
                        "dev": st.lists(st.one_of(st.just(0.0), st.just(0.0), st.floats(-0.15, 0.15, allow_nan=False), st.floats(-0.5, 0.5, allow_nan=False)), min_size=6, max_size=6),
                        # bottom / top of the fuel or absorber column moved off the regular plane by this many minimum sizes
                        "shift": st.lists(st.one_of(st.sampled_from([0.0, 0.3, 0.5, 0.9, 1.5, 3.0, -0.3, -0.5, -0.9, -1.5]), st.floats(-3.0, 3.0, allow_nan=False)),
                                          min_size=2, max_size=2),
                    }
                ),
                min_size=2,
                max_size=4,
            ),
            # top / bottom block of every assembly this many minimum sizes thick (the neighbour takes the difference)
            "thin": st.lists(st.one_of(st.none(), st.sampled_from([0.3, 0.6, 0.9]), st.floats(0.1, 1.2, allow_nan=False)), min_size=2, max_size=2),
            "cells": st.lists(st.integers(0, 3), min_size=7, max_size=7),
            "minimum": st.one_of(st.none(), st.sampled_from([0.5, 1.0, 3.0, 3.0, 10.0]), st.sampled_from([1.0, 3.0, 5.0]), st.sampled_from([2.0, 3.0, 4.0]),
                                 st.floats(0.1, 30.0, allow_nan=False), st.floats(0.5, 8.0, allow_nan=False)),
        }
    )


def _shift_boundary(hs, k, s):
    """Move the boundary between blocks k-1 and k by s (clipped so that both keep >= 0.5 cm)."""
    s = max(min(s, hs[k] - 0.5), -(hs[k - 1] - 0.5))
    s = round(s, 4)
    if s:
        hs[k - 1] = round(hs[k - 1] + s, 6)
        hs[k] = round(hs[k] - s, 6)


def _check_anchor_rule(out, r, minimum, mesh, refused):
    """Documented anchoring of material boundaries (UniformMeshGenerator._decuspAxialMesh / _getFilteredMeshTopAndBottom):

    * fuel: first-fuel-block bottoms filtered to the minimum with preference for the lowest, last-fuel-block tops with
      preference for the highest;
    * control: absorber bottoms join the fuel bottoms (which are never removed), lowest preferred; absorber tops join
      the fuel tops, highest preferred;
    * bottoms and tops together, fuel boundaries never removed, otherwise the lower boundary preferred; two fuel
      boundaries closer than the minimum are a loud failure;
    * what survives is anchored in the common mesh.
    """
    from armi.reactor.flags import Flags

    def ends(flag):
        bottoms, tops = set(), set()
        for a in r.core.getAssemblies(flag):
            bottoms.add(float(a.getFirstBlock(flag).p.zbottom))
            tops.add(float(a.getBlocks(flag)[-1].p.ztop))
        return bottoms, tops

    fb, ft = ends(Flags.FUEL)
    cb, ct = ends(Flags.CONTROL)
    info = {}
    expect_refusal = None
    anchors = None
    try:
        FB = ref.anchored_filter(fb, minimum, [min(fb)], "bottom", info)
        FT = ref.anchored_filter(ft, minimum, [max(ft)], "top", info)
        MB = ref.anchored_filter(set(FB) | cb, minimum, FB, "bottom", info)
        MT = ref.anchored_filter(set(FT) | ct, minimum, FT, "top", info)
        anchors = ref.anchored_filter(MB + MT, minimum, FB + FT, "bottom", info)
        expect_refusal = False
    except ref.AnchorsTooClose as exc:
        expect_refusal = True
        pair = exc.args[0]
    if info.get("borderline"):
        out.label("skipped:anchor-rule-borderline")
        return None
    if cb:
        out.label("control:%d-bottoms" % min(len(cb), 3))
    if expect_refusal:
        out.check(refused, "common/close-fuel-anchors-not-refused",
                  lambda: "minimum %r: fuel boundaries %r are anchors closer than the minimum, yet a mesh was generated: %r" % (minimum, pair, mesh))
        return
    if refused:
        out.fail("common/refused-although-anchors-compatible",
                 "minimum %r fuel bottoms/tops %r %r control bottoms/tops %r %r: anchors %r are mutually compatible" % (
                     minimum, sorted(fb), sorted(ft), sorted(cb), sorted(ct), anchors))
        return
    tol = 1e-9 * max(1.0, max(mesh))
    lost = [z for z in anchors if not any(abs(m - z) <= tol for m in mesh)]
    kinds = ["control" if (z in cb or z in ct) and z not in fb and z not in ft else "fuel" for z in lost]
    out.check(not lost, "common/anchor-dropped",
              lambda: "minimum %r: anchored %s boundaries %r missing from the common mesh %r (fuel bottoms/tops %r %r, control bottoms/tops %r %r, anchors %r)" % (
                  minimum, "/".join(sorted(set(kinds))), lost, mesh, sorted(fb), sorted(ft), sorted(cb), sorted(ct), anchors))
    off = [z for z in anchors if (z in cb or z in ct)]
    if off:
        out.label("anchors:control-%d" % min(len(off), 3))
    return anchors


def _common_designs(case):
    """(designs, cells, blueprint text) of a generated 7-assembly reactor."""
    nb0 = case["nb"]
    designs = []
    total = None
    for di, d in enumerate(case["designs"]):
        nb = nb0  # (armi builds its axial snap list from one block count: all designs have the same number of blocks)
        lo = min(d["lo"], nb - 2)
        hi = min(lo + d["len"], nb - 1)
        if case.get("thin", [None, None])[0] is not None and nb >= 4:
            # a thin top block: keep a second block between the column and the top so that the thin cell is not next to an anchor
            lo = min(lo, nb - 3)
            hi = max(lo + 1, min(hi, nb - 2))
        main = "control" if (d["control"] and di > 0) else "fuel"
        kinds = ["grid plate"] + ["reflector"] * (lo - 1) + [main] * (hi - lo) + ["plenum"] * (nb - hi)
        hs = [round(case["base"][i] * (1.0 + d["dev"][i]), 4) for i in range(nb)]
        if total is None:
            total = math.fsum(hs)
        else:  # same assembly height everywhere: the top block takes the difference
            rest = math.fsum(hs[:-1])
            hs[-1] = round(total - rest, 6)
            if hs[-1] < 1.0:
                hs = [round(h * (total - 1.0) / rest, 6) for h in hs[:-1]]
                hs.append(round(total - math.fsum(hs), 6))
        # withdraw / insert the column: its bottom and top leave the regular mesh planes
        unit = case["minimum"] if case["minimum"] is not None else 3.0
        sh = d.get("shift", [0.0, 0.0])
        if di > 0:
            _shift_boundary(hs, lo, sh[0] * unit)
            _shift_boundary(hs, hi, sh[1] * unit)
        thin = case.get("thin", [None, None])
        if thin[0] is not None:  # thin top block
            t = round(min(hs[-1], max(0.5, thin[0] * unit)), 4)
            hs[-2] = round(hs[-2] + hs[-1] - t, 6)
            hs[-1] = t
        if thin[1] is not None:  # thin bottom block
            t = round(min(hs[0], max(0.5, thin[1] * unit)), 4)
            hs[1] = round(hs[1] + hs[0] - t, 6)
            hs[0] = t
        designs.append({"kinds": kinds, "heights": hs, "main": main})
    nd = len(designs)
    cells = [(_CELLS[i], 0 if i == 0 else case["cells"][i] % nd) for i in range(7)]
    text = _render_bp(designs, cells)
    return designs, cells, text


def common_execute(case):
    from armi.reactor import blueprints, reactors
    from armi.reactor.converters import uniformMesh as um
    from vp import env

    out = Out()
    designs, cells, text = _common_designs(case)
    nd = len(designs)
    cs = env.quiet_settings({"inputHeightsConsideredHot": True, "detailedAxialExpansion": True})
    r = reactors.factory(cs, blueprints.Blueprints.load(text))
    minimum = case["minimum"]
    out.label("designs:%d" % nd, "minimum:" + ("none" if minimum is None else "set"))
    used = sorted({di for _c, di in cells})
    # material boundaries (first bottom / last top of fuel and control columns) from the document
    bounds = set()
    fuel_bottoms, fuel_tops = [], []
    for di in used:
        d = designs[di]
        zs = ref.cumulative(d["heights"])
        idx = [i for i, k in enumerate(d["kinds"]) if k == d["main"]]
        bounds.add(zs[idx[0]])
        bounds.add(zs[idx[-1] + 1])
        if d["main"] == "fuel":
            fuel_bottoms.append(zs[idx[0]])
            fuel_tops.append(zs[idx[-1] + 1])
    # average mesh: the public path without a minimum
    g0 = um.UniformMeshGenerator(r, minimumMeshSize=None)
    try:
        g0.generateCommonMesh()
    except ValueError as exc:
        out.rejected = True  # documented: no assembly mesh near the mean / non-physical
        out.label("outcome:average-refused")
        out.check("near the mean" in str(exc) or "non-physical" in str(exc), "common/average-unexpected-valueerror", str(exc)[:200])
        return out
    avg = [float(x) for x in g0._commonMesh]
    nref = len(designs[0]["heights"])
    rows = [ref.cumulative(designs[di]["heights"])[1:] for _c, di in cells if len(designs[di]["heights"]) == nref]
    exp, _keep, amb = ref.avg_within_tol(rows, 0.2)
    if not amb and exp is not None:
        out.check(len(avg) == len(exp) and all(abs(x - y) <= 1e-9 * y for x, y in zip(avg, exp)), "common/average-mesh",
                  lambda: "average mesh %r expected %r from rows %r" % (avg, exp, rows))
    out.check(all(avg[i + 1] > avg[i] for i in range(len(avg) - 1)), "common/not-strictly-increasing", lambda: "average mesh %r" % avg)
    if minimum is None:
        out.nontrivial = len(used) >= 2
        return out
    g = um.UniformMeshGenerator(r, minimumMeshSize=minimum)
    sb = sorted(bounds)
    close = [(sb[i], sb[i + 1]) for i in range(len(sb) - 1) if sb[i + 1] - sb[i] < minimum + 1e-9]
    try:
        g.generateCommonMesh()
    except ValueError as exc:
        out.rejected = True
        out.label("outcome:refused")
        _check_anchor_rule(out, r, minimum, None, True)
        out.check("anchor" in str(exc) and bool(close), "common/refused-without-close-boundaries",
                  lambda: "material boundaries %r min %r: %s" % (sb, minimum, str(exc)[:200]))
        return out
    mesh = [float(x) for x in g._commonMesh]
    out.label("outcome:mesh")
    refused = False
    anchors = _check_anchor_rule(out, r, minimum, mesh, refused)
    # the common mesh spans the assemblies: its last plane is the top of the (average) mesh = top of the core
    top = avg[-1]
    heights_ = [float(a_.getTotalHeight()) for a_ in r.core]
    if max(heights_) - min(heights_) <= 1e-5 and abs(top - max(heights_)) <= 1e-5:
        ttol = 1e-9 * max(1.0, top)
        if len(avg) >= 2 and top - avg[-2] < minimum:
            out.label("top:cell-thinner-than-minimum")
        if abs(mesh[-1] - top) > ttol:
            S_TOP = "common/top-plane-dropped-for-anchor-below-it"
            near = None if anchors is None else [z for z in anchors if 0.0 < top - z < minimum]
            msg = "minimum %r: common mesh %r ends below the top %r of the core (average mesh %r, anchors %r)" % (minimum, mesh, top, avg, anchors)
            if near is None:
                out.label("skipped:top-plane-borderline")
            elif near:
                if EXCLUDE_KNOWN[S_TOP] and not case.get("raw"):
                    out.label("excluded:" + S_TOP)
                else:
                    out.fail(S_TOP, msg + "; anchors %r lie less than the minimum below the top" % near)
            else:
                out.fail("common/top-plane-dropped", msg)
        else:
            out.label("top:kept")
    cand = avg + sb
    tol = 1e-9 * max(1.0, max(cand))
    out.check(all(mesh[i + 1] > mesh[i] for i in range(len(mesh) - 1)), "common/not-strictly-increasing", lambda: "mesh %r" % mesh)
    extra = [m for m in mesh if not any(abs(m - c) <= tol for c in cand)]
    out.check(not extra, "common/not-subset-of-candidates", lambda: "points %r are neither average-mesh points %r nor material boundaries %r" % (extra, avg, sb))
    thin = [(mesh[i], mesh[i + 1]) for i in range(len(mesh) - 1) if mesh[i + 1] - mesh[i] < minimum]
    out.check(not thin, "common/gap-below-minimum", lambda: "minimum %r, mesh %r, thin cells %r" % (minimum, mesh, thin))
    for z, what in ((min(fuel_bottoms), "lowest fuel bottom"), (max(fuel_tops), "highest fuel top")):
        out.check(any(abs(m - z) <= tol for m in mesh), "common/anchor-dropped", lambda: "%s %r not in mesh %r (minimum %r)" % (what, z, mesh, minimum))
    out.nontrivial = len(used) >= 2 and (len(mesh) != len(avg) or any(abs(x - y) > tol for x, y in zip(mesh, avg)))
    return out


# ---------------------------------------------------------------------------------------------
# part 3c: the converter round trip (convert -> results on the uniform copies -> applyStateToOriginal),
#          whole core or the subset named by the nonUniformAssemFlags setting

_SUBSETS = [[], [], [], [], ["primary control"], ["secondary control"], ["control"], ["outer fuel"], ["primary control", "outer fuel"], ["inner fuel", "control"]]
_CONV_PARAMS = ["power", "mgFlux", "pdens", "flux", "fluxPeak"]
_THIRD_CELLS = [(0, 0), (1, 0), (1, 1), (2, 0), (2, -1)]


def converter_strategy(tier):
    change = st.fixed_dictionaries(
        {
            "kind": st.sampled_from(["grow", "fueltop", "fueltop", "resize"]),
            "f": st.one_of(st.sampled_from([0.95, 1.02, 1.1]), st.floats(0.9, 1.1, allow_nan=False)),
            "d": st.one_of(st.sampled_from([4.0, -4.0, 1.5]), st.floats(-8.0, 8.0, allow_nan=False)),
            "k": st.integers(0, 5),
        }
    )
    return st.fixed_dictionaries(
        {
            "reactor": common_strategy(tier),
            "subset": st.integers(0, len(_SUBSETS) - 1),
            "sym": st.sampled_from(["full", "full", "third periodic"]),
            "umin": st.booleans(),
            # further conversions with the SAME converter object after the axial geometry of the source changed
            "rounds": st.lists(change, max_size=2),
            "vals": st.lists(st.one_of(st.sampled_from([1.0, 5.0, 1.0e6]), st.floats(0.0, 1.0e9, allow_nan=False)), min_size=8, max_size=8),
            "G": st.integers(1, 3),
            "flatFlux": st.booleans(),
            "raw": st.just(False),
        }
    )


def _atoms(assem):
    tot = {}
    for b in assem:
        v = float(b.getVolume())
        for nuc, d in b.getNumberDensities().items():
            tot[nuc] = tot.get(nuc, 0.0) + float(d) * v
    return tot


def _change_geometry(r, ch):
    """Change the axial geometry of every assembly of the source reactor the same way (total heights stay equal)."""
    from armi.reactor.flags import Flags

    for a in r.core:
        blocks_ = list(a)
        if ch["kind"] == "grow":
            for b in blocks_:
                b.setHeight(b.getHeight() * ch["f"])
            continue
        if ch["kind"] == "fueltop":
            col = [i for i, b in enumerate(blocks_) if b.hasFlags([Flags.FUEL, Flags.CONTROL])]
            k = col[-1] + 1
        else:
            k = 1 + ch["k"] % (len(blocks_) - 1)
        if k >= len(blocks_):
            continue
        lower, upper = blocks_[k - 1], blocks_[k]
        d = max(min(ch["d"], upper.getHeight() - 0.5), -(lower.getHeight() - 0.5))
        d = round(d, 4)
        if d:
            lower.setHeight(lower.getHeight() + d)
            upper.setHeight(upper.getHeight() - d)


def converter_execute(case):
    from armi.reactor import blueprints, reactors
    from armi.reactor.converters import uniformMesh as um
    from armi.reactor.flags import Flags
    from vp import env

    out = Out()
    rc = case["reactor"]
    designs, cells, text = _common_designs(rc)
    sym = case.get("sym", "full")
    if sym != "full":
        cells = [(c, cells[i][1]) for i, c in enumerate(_THIRD_CELLS)]
        text = _render_bp(designs, cells, symmetry=sym)
    subset = _SUBSETS[case["subset"] % len(_SUBSETS)]
    umin = rc["minimum"] if case.get("umin") else None
    cs = env.quiet_settings({"inputHeightsConsideredHot": True, "detailedAxialExpansion": True, "nonUniformAssemFlags": subset,
                             "uniformMeshMinimumSize": umin})
    r = reactors.factory(cs, blueprints.Blueprints.load(text))
    names = [a.getName() for a in r.core]
    vals = case["vals"]
    raw = bool(case.get("raw"))
    S_SYM = "converter/in/central-assembly-scaled-by-symmetry"
    S_TOP = "common/top-plane-dropped-for-anchor-below-it"
    # a stale state on the originals, which the mapping back has to replace; heavy-metal moles are mapped "in"
    for a in r.core:
        for k, b in enumerate(a):
            b.p.power = 1.0
            b.p.pdens = 0.01
            b.p.flux = 1.0
            b.p.fluxPeak = 2.0
            b.p.molesHmBOL = 1.0 + vals[(k + 2) % 8]
    out.label("path:" + ("subset" if subset else "whole-core"), "symmetry:" + sym.split()[0], "minimum:" + ("set" if umin else "none"),
              "rounds:%d" % (1 + len(case.get("rounds", []))))
    conv = um.NeutronicsUniformMeshConverter(cs=cs, calcReactionRates=False)
    nontrivial = False
    for rnd, change in enumerate([None] + list(case.get("rounds", []))):
        tag = "round %d" % (rnd + 1)
        if change is not None:
            conv.reset()  # documented way to clear a converter between uses
            _change_geometry(r, change)
            out.label("change:" + change["kind"])
        pre = {nm: _read_params(r.core.getAssemblyByName(nm), _CONV_PARAMS + ["molesHmBOL"]) for nm in names}
        orig_h = {nm: [float(b.getHeight()) for b in r.core.getAssemblyByName(nm)] for nm in names}
        atoms0 = {nm: _atoms(r.core.getAssemblyByName(nm)) for nm in names}
        if subset:
            selected = [a.getName() for a in r.core.getAssemblies([Flags.fromStringIgnoreErrors(f) for f in subset])]
        else:
            selected = list(names)
        # what a fresh generator makes of the current geometry (whole-core path; the generator itself is judged by common_mesh)
        fresh = None
        fresh_refused = False
        if not subset:
            g = um.UniformMeshGenerator(r, minimumMeshSize=umin)
            try:
                g.generateCommonMesh()
                fresh = [float(x) for x in g._commonMesh]
            except ValueError:
                fresh_refused = True
        try:
            conv.convert(r)
        except ValueError as exc:
            msg = str(exc)
            if "near the mean" in msg or "non-physical" in msg or ("anchor" in msg and fresh_refused):
                out.rejected = True  # documented refusals: assembly meshes too different / anchors closer than the minimum
                out.label("outcome:refused")
                return out
            raise
        if not out.check(not fresh_refused, "converter/anchor-conflict-not-refused", tag + ": the mesh generator refuses this geometry, convert() did not"):
            return out
        ucore = conv.convReactor.core
        top = max(math.fsum(h) for h in orig_h.values())
        short_known = False
        if fresh is not None:
            used = [float(x) for x in ucore.getAssemblyByName(names[0]).getAxialMesh()]
            out.check(len(used) == len(fresh) and all(abs(x - y) <= 1e-9 * max(1.0, y) for x, y in zip(used, fresh)),
                      "converter/uniform-mesh-not-from-current-geometry",
                      lambda: "%s: the copies sit on %r, a generator run on the current source gives %r" % (tag, used, fresh))
            if abs(fresh[-1] - top) > 1e-6:
                # the generator itself drops the top plane: judged (and known) in common_mesh
                # (the shorter copies cannot be mapped back: getBlocksBetweenElevations refuses loudly); nothing more to judge here
                out.label("excluded:" + S_TOP)
                return out
        uni = {}
        for nm in selected:
            ua = ucore.getAssemblyByName(nm)
            src = r.core.getAssemblyByName(nm) if not subset else None
            uz = [0.0] + [float(b.p.ztop) for b in ua]
            if not short_known:
                out.check(abs(uz[-1] - math.fsum(orig_h[nm])) <= 1e-6, "converter/copy-height",
                          lambda: "%s %s: source height %r, uniform copy %r" % (tag, nm, math.fsum(orig_h[nm]), uz[-1]))
                a1 = _atoms(ua)
                for nuc, n0 in atoms0[nm].items():
                    out.check(abs(a1.get(nuc, 0.0) - n0) <= 1e-8 * abs(n0) + 1e-300, "converter/atoms-not-conserved",
                              lambda: "%s %s %s: atoms %r -> %r on the uniform mesh (heights %r -> %r)" % (tag, nm, nuc, n0, a1.get(nuc, 0.0), orig_h[nm], [b.getHeight() for b in ua]))
                # volume-integrated parameter mapped in
                got_in = _read_params(ua, ["molesHmBOL"])
                sub = Out()
                _check_mapping(sub, "%s %s in" % (tag, nm), ["molesHmBOL"], ref.cumulative(orig_h[nm]), {"molesHmBOL": pre[nm]["molesHmBOL"]}, uz,
                               {"molesHmBOL": [0.0] * (len(uz) - 1)}, got_in, 2e-9, pfx="converter/in")
                if sub.violations:
                    sf = float(ua.getSymmetryFactor())
                    tot0 = math.fsum(pre[nm]["molesHmBOL"])
                    tot1 = math.fsum(got_in["molesHmBOL"])
                    if sf != 1.0 and abs(tot1 * sf - tot0) <= 1e-8 * tot0:
                        if EXCLUDE_KNOWN[S_SYM] and not raw:
                            out.label("excluded:" + S_SYM)
                        else:
                            out.fail(S_SYM, "%s %s (symmetry factor %r): molesHmBOL total %r on the source, %r on the uniform copy" % (tag, nm, sf, tot0, tot1))
                    else:
                        out.violations.extend(sub.violations)
            # "physics results" on the uniform copy
            for k, b in enumerate(ua):
                v = vals[(k + rnd) % 8]
                b.p.power = v
                b.p.mgFlux = [v * (g_ + 1) for g_ in range(case["G"])]
                b.p.pdens = vals[rnd % 8]
                b.p.flux = vals[(1 + rnd) % 8] if case["flatFlux"] else vals[(k + 3 + rnd) % 8]
                b.p.fluxPeak = vals[(k + 5 + rnd) % 8]
            uni[nm] = (uz, _read_params(ua, _CONV_PARAMS))
        conv.applyStateToOriginal()
        for nm in names:
            a = r.core.getAssemblyByName(nm)
            if not out.check(a is not None and [float(b.getHeight()) for b in a] == orig_h[nm], "converter/original-mesh-not-restored",
                             lambda: "%s %s: block heights %r, originally %r" % (tag, nm, None if a is None else [b.getHeight() for b in a], orig_h[nm])):
                continue
            got = _read_params(a, _CONV_PARAMS)
            prev = {k_: pre[nm][k_] for k_ in _CONV_PARAMS}
            if nm not in selected:
                out.check(got == prev, "converter/unconverted-assembly-changed", lambda: "%s %s: %r -> %r" % (tag, nm, prev, got))
                continue
            uz, uv = uni[nm]
            dz = ref.cumulative(orig_h[nm])
            if len(uz) != len(dz) or any(abs(x - y) > 1e-6 for x, y in zip(uz, dz)):
                nontrivial = True
            if short_known:
                continue
            _check_mapping(out, "%s %s (%s)" % (tag, nm, "subset" if subset else "whole core"), _CONV_PARAMS, uz, uv, dz, prev, got, 2e-9, pfx="converter")
            a2 = _atoms(a)
            out.check(all(abs(a2.get(nuc, 0.0) - n0) <= 1e-9 * abs(n0) + 1e-300 for nuc, n0 in atoms0[nm].items()), "converter/original-atoms-changed",
                      lambda: "%s %s: atoms of the original assembly changed by the round trip" % (tag, nm))
    out.nontrivial = nontrivial and len(case.get("rounds", [])) >= 1
    return out


# ---------------------------------------------------------------------------------------------
# part 4a: resampleStepwise

def resample_strategy(tier):
    yval = st.one_of(st.sampled_from([0.0, 1.0, 10.0]), st.floats(-1.0e3, 1.0e3, allow_nan=False), st.integers(-50, 50).map(float))
    return st.fixed_dictionaries(
        {
            "x0": st.sampled_from([0.0, 0.0, 2.0, -5.0]),
            "steps": st.lists(st.one_of(st.sampled_from([1.0, 2.0, 10.0]), st.floats(0.01, 20.0, allow_nan=False)), min_size=1, max_size=7),
            "y": st.lists(yval, min_size=7, max_size=7),
            "none": st.one_of(st.just(0), st.just(0), st.integers(0, 127)),
            "kind": st.sampled_from(["list", "list", "intlist", "nparray", "listarr", "nparray2d"]),
            "G": st.integers(1, 3),
            "mult": st.lists(st.floats(0.0, 4.0, allow_nan=False), min_size=3, max_size=3),
            "xout": st.lists(st.fixed_dictionaries({"b": st.integers(-1, 7), "f": st.one_of(st.sampled_from([0.0, 0.0, 1.0, 0.5]), st.floats(0.0, 1.0, allow_nan=False)),
                                                    "e": st.sampled_from(EPS)}), min_size=1, max_size=8),
            "ext": st.sampled_from(["none", "none", "below", "above", "both", "both"]),
            "extd": st.lists(st.one_of(st.sampled_from([0.5, 5.0, 15.0]), st.floats(1e-3, 30.0, allow_nan=False)), min_size=2, max_size=2),
            "xkind": st.sampled_from(["list", "nparray"]),
            "avg": st.booleans(),
            "raw": st.just(False),
        }
    )


def _resample_inputs(case):
    xin = ref.cumulative(case["steps"], case["x0"])
    n = len(xin) - 1
    kind = case["kind"]
    ys = []
    for i in range(n):
        v = case["y"][i]
        if kind == "intlist":
            v = int(v)
        if kind in ("listarr", "nparray2d"):
            v = [v * m for m in case["mult"][: case["G"]]]
        if kind in ("list", "intlist", "listarr") and (case["none"] >> i) & 1:
            v = None
        ys.append(v)
    if "xout_explicit" in case:
        xout = list(case["xout_explicit"])
    else:
        pts = []
        for p in case["xout"]:
            b = p["b"]
            if b < 0:
                pts.append(xin[0] - 0.5 - 10.0 * p["f"])
            elif b >= n and b == 7:
                pts.append(xin[-1] + 0.5 + 10.0 * p["f"])
            else:
                i = b % n
                pts.append(xin[i] + p["f"] * (xin[i + 1] - xin[i]) + p["e"])
        # an output mesh that reaches beyond the input mesh: its end intervals straddle the ends of the input range
        ext = case.get("ext", "none")
        if ext in ("below", "both"):
            pts = [x for x in pts if x > xin[0]] + [xin[0] - case["extd"][0]]
        if ext in ("above", "both"):
            pts = [x for x in pts if x < xin[-1]] + [xin[-1] + case["extd"][1]]
        xout = sorted(set(pts))
        if len(xout) < 2:
            xout = sorted(set(xout + [xin[0], xin[-1]]))
    return xin, ys, xout


def resample_execute(case):
    import numpy as np

    from armi.utils.mathematics import resampleStepwise

    out = Out()
    raw = bool(case.get("raw"))
    xin, ys, xout = _resample_inputs(case)
    avg = case["avg"]
    kind = case["kind"]
    arraydata = kind in ("nparray", "listarr", "nparray2d")
    out.label("kind:" + kind, "mode:" + ("avg" if avg else "sum"))
    S_BELOW = "resample/interval-starts-below-first-mesh-point"
    S_INSIDE = "resample/sum-interval-inside-one-bin"
    S_MOD = "resample/sum-modifies-array-input"
    S_NONE = "resample/sum-none-in-partial-bin"

    def below(xo):
        return any(ref.starts_below_first(xin, xo[j], xo[j + 1]) for j in range(len(xo) - 1))

    # known shape: an output interval beginning below the first input point and reaching it -> start the output mesh there
    if below(xout) and not raw and EXCLUDE_KNOWN[S_BELOW]:
        out.label("excluded:" + S_BELOW)
        xout = sorted({x for x in xout if x >= xin[0]} | {xin[0]})
        if len(xout) < 2:
            xout.append(xin[-1] if xin[-1] > xout[0] else xout[0] + 1.0)
            xout = sorted(set(xout))
    expected = ref.step_resample(xin, ys, xout, avg)

    def partial_bins(j):
        # overlapped bins that the output interval j does not cover completely (judged on the end points)
        a_, b_ = xout[j], xout[j + 1]
        return [i for i, _o in expected[j]["pieces"] if a_ > xin[i] or b_ < xin[i + 1]]

    anypartialbin = any(partial_bins(j) for j in range(len(expected)))
    if (not avg) and arraydata and anypartialbin and not raw and EXCLUDE_KNOWN[S_MOD]:
        out.label("excluded:" + S_MOD)
        return out
    none_partial = (not avg) and any(any(ys[i] is None for i in partial_bins(j)) for j in range(len(expected)))
    if none_partial and not raw and EXCLUDE_KNOWN[S_NONE]:
        out.label("excluded:" + S_NONE)
        return out

    def mk():
        if kind in ("nparray", "nparray2d"):
            y = np.array(ys, dtype=float)
        elif kind == "listarr":
            y = [None if v is None else np.array(v, dtype=float) for v in ys]
        else:
            y = list(ys)
        xi = np.array(xin) if case["xkind"] == "nparray" else list(xin)
        xo = np.array(xout) if case["xkind"] == "nparray" else list(xout)
        return xi, y, xo

    def snap(xi, y, xo):
        return ([float(v) for v in xi], [None if v is None else (list(map(float, v)) if hasattr(v, "__len__") else float(v)) for v in y], [float(v) for v in xo])

    xi, y, xo = mk()
    before = snap(xi, y, xo)
    isbelow = below(xout)
    try:
        got = resampleStepwise(xi, y, xo, avg=avg)
    except (IndexError, ZeroDivisionError) as exc:
        if not isbelow:
            raise
        out.fail(S_BELOW, "xin %r yin %r xout %r avg=%r: %s: %s" % (xin, ys, xout, avg, type(exc).__name__, exc))
        return out
    except TypeError as exc:
        if not none_partial:
            raise
        out.fail(S_NONE, "xin %r yin %r xout %r avg=%r: TypeError: %s" % (xin, ys, xout, avg, exc))
        return out
    after = snap(xi, y, xo)
    modsig = S_MOD if (arraydata and not avg) else "resample/input-modified"
    out.check(before == after, modsig, lambda: "xin %r yin %r xout %r avg=%r: yin afterwards %r" % (xin, ys, xout, avg, after[1]))
    if not out.check(len(got) == len(xout) - 1, "resample/output-length", "got %d values for %d intervals" % (len(got), len(xout) - 1)):
        return out
    nontrivial = False
    anyinside = False
    for j, e in enumerate(expected):
        a, b = xout[j], xout[j + 1]
        g = got[j]
        inside = (not avg) and ref.inside_one_bin(xin, a, b)
        anyinside = anyinside or inside
        if inside and not raw and EXCLUDE_KNOWN[S_INSIDE]:
            out.label("excluded:" + S_INSIDE)
            continue
        if len(e["pieces"]) >= 2 and partial_bins(j):
            nontrivial = True
        if ref.starts_below_first(xin, a, b):
            sig = S_BELOW
        elif inside:
            sig = S_INSIDE
        elif before != after:
            sig = modsig
        else:
            sig = None
        if e["kind"] == "zero":
            isz = (not hasattr(g, "__len__")) and g is not None and g == 0
            out.check(isz, sig or "resample/outside-range-not-zero", lambda: "xin %r xout interval [%r,%r] outside: %r" % (xin, a, b, g))
            out.label("interval:outside")
            continue
        if e["kind"] == "none":
            out.check(g is None, sig or "resample/none-handling", lambda: "xin %r yin %r interval [%r,%r] overlaps an unset bin: %r" % (xin, ys, a, b, g))
            out.label("interval:none")
            continue
        if g is None:
            out.fail(sig or "resample/none-handling", "xin %r yin %r interval [%r,%r]: None although all overlapped bins are set" % (xin, ys, a, b))
            continue
        ev = _vec(e["value"])
        gv = [float(v) for v in g] if hasattr(g, "__len__") else [float(g)]
        tol = 1e-10 * e["scale"] + 1e-300
        if avg and e["partial"]:
            # the interval straddles an end of the input mesh: mean over the part it overlaps (constants stay constant)
            clause = "resample/mean-interval-straddles-range-end"
            out.label("interval:straddles-" + ("both" if (a < xin[0] and b > xin[-1]) else "bottom" if a < xin[0] else "top"))
        else:
            clause = "resample/mean" if avg else "resample/integral"
        out.check(len(gv) == len(ev) and all(abs(p - q) <= tol for p, q in zip(gv, ev)), sig or clause,
                  lambda: "xin %r yin %r xout [%r,%r] avg=%r: got %r, exact %r (overlap-weighted over bins %r)" % (
                      xin, ys, a, b, avg, gv, ev, [i for i, _o in e["pieces"]]))
        out.label("interval:" + ("partial" if e["partial"] else "inside"))
    # sum mode: totals are preserved when the output mesh covers the input range
    if not avg and xout[0] <= xin[0] and xout[-1] >= xin[-1] and all(v is not None for v in ys) and before == after \
            and all(x is not None for x in got) and not anyinside and not isbelow:
        w = len(_vec(ys[0]))
        for c in range(w):
            t0 = math.fsum(_vec(v)[c] for v in ys)
            t1 = math.fsum((float(x[c]) if hasattr(x, "__len__") else float(x)) for x in got)
            sc = math.fsum(abs(_vec(v)[c]) for v in ys)
            out.check(abs(t1 - t0) <= 1e-10 * sc * len(got) + 1e-300, "resample/sum-total-not-preserved", lambda: "xin %r yin %r xout %r: total %r -> %r" % (xin, ys, xout, t0, t1))
        out.label("sum:covers-range")
    out.nontrivial = nontrivial
    return out


# ---------------------------------------------------------------------------------------------
# part 4b: average1DWithinTolerance

def average_strategy(tier):
    return st.fixed_dictionaries(
        {
            "base": st.lists(st.one_of(st.sampled_from([1.0, 10.0, 25.0]), st.floats(0.1, 1000.0, allow_nan=False)), min_size=1, max_size=6),
            "rows": st.lists(
                st.fixed_dictionaries(
                    {"dev": st.lists(st.floats(-1.0, 1.0, allow_nan=False), min_size=6, max_size=6), "outlier": st.sampled_from([1.0, 1.0, 1.0, 1.0, 1.5, 3.0, 0.3, 1.1])}
                ),
                min_size=1,
                max_size=6,
            ),
            "tol": st.sampled_from([0.01, 0.05, 0.1, 0.2, 0.5]),
            "devscale": st.sampled_from([0.0, 0.01, 0.3, 0.8, 1.5, 3.0]),
            "kind": st.sampled_from(["nparray", "lists", "listarr"]),
            "default_tol": st.booleans(),
            "negcol": st.one_of(st.none(), st.none(), st.none(), st.none(), st.none(), st.none(), st.none(), st.integers(0, 5)),
        }
    )


def average_execute(case):
    import numpy as np

    from armi.utils.mathematics import average1DWithinTolerance

    out = Out()
    nc = len(case["base"])
    tol = 0.2 if case["default_tol"] else case["tol"]
    rows = [[case["base"][c] * r["outlier"] * max(0.05, 1.0 + r["dev"][c] * case["devscale"] * tol) for c in range(nc)] for r in case["rows"]]
    neg = case["negcol"]
    if neg is not None:
        for r in rows:
            r[neg % nc] = -abs(r[neg % nc])
    out.label("rows:%d" % len(rows), "kind:" + case["kind"])

    def mk(rs):
        if case["kind"] == "nparray":
            return np.array(rs)
        if case["kind"] == "listarr":
            return [np.array(r) for r in rs]
        return [list(r) for r in rs]

    def call(rs):
        arg = mk(rs)
        try:
            res = average1DWithinTolerance(arg) if case["default_tol"] else average1DWithinTolerance(arg, tol)
            res = [float(x) for x in res]
        except ValueError as exc:
            res = ("refused", str(exc))
        same = [[float(x) for x in r] for r in arg] == rs
        return res, same

    exp, keep, amb = ref.avg_within_tol(rows, tol)
    got, same = call(rows)
    out.check(same, "average/input-modified", "input rows changed")
    refused = isinstance(got, tuple)
    if neg is not None:
        out.label("class:negative-column")
        # a column of negative values can only average to a non-physical value: documented ValueError
        out.check(refused, "average/non-physical-accepted", lambda: "rows %r -> %r" % (rows, got))
        out.rejected = True
        return out
    if amb:
        out.label("skipped:borderline-deviation")
        if not refused:
            out.check(len(got) == nc and all(g > 0 for g in got), "average/shape", lambda: "rows %r -> %r" % (rows, got))
        return out
    if exp is None:
        out.label("outcome:nothing-near-mean")
        out.rejected = True
        out.check(refused and "near the mean" in got[1], "average/empty-selection-not-refused", lambda: "rows %r tol %r -> %r" % (rows, tol, got))
        out.nontrivial = len(rows) >= 2
        return out
    out.label("outcome:averaged", "dropped:%d" % min(len(rows) - len(keep), 3))
    if not out.check(not refused, "average/refused-although-rows-agree", lambda: "rows %r tol %r: %s (rows %r agree with their mean %r)" % (rows, tol, got, keep, exp)):
        return out
    out.check(len(got) == nc and all(abs(g - e) <= 1e-12 * abs(e) for g, e in zip(got, exp)), "average/value",
              lambda: "rows %r tol %r -> %r, mean of rows %r is %r" % (rows, tol, got, keep, exp))
    # every surviving row is within the tolerance of the result (fix point), the result is their mean
    out.check(all(abs(rows[i][c] - got[c]) / got[c] <= tol * (1 + 1e-9) for i in keep for c in range(nc)), "average/survivor-outside-tolerance",
              lambda: "rows %r tol %r -> %r" % (rows, tol, got))
    got2, _ = call(list(reversed(rows)))
    out.check(not isinstance(got2, tuple) and all(abs(p - q) <= 1e-12 * abs(q) for p, q in zip(got2, got)), "average/row-order-dependence",
              lambda: "rows %r: %r, reversed: %r" % (rows, got, got2))
    out.nontrivial = len(rows) >= 2 and len(keep) < len(rows)
    return out


PARTS = [
    Part("remesh", remesh_execute, strategy=remesh_strategy, budget={"quick": 1200, "thorough": 60000}, procs={"quick": 4, "thorough": 16},
         rule="Hypothesis: 1-8 blocks (fuel/control/reflector/plenum/mixture, generated heights, compositions, xs types), 1-7 block "
              "parameters of the three mapping kinds (scalars, arrays, unset entries, constant profiles) x target mesh (identical, coarser, "
              "finer, random, within 1e-12..1e-6 of source boundaries, mixed) through makeAssemWithUniformMesh; then (re-assigned or mapped) "
              "values back through setAssemblyStateFromOverlaps and the assembly re-meshed onto the original mesh; non-trivial = the target "
              "mesh both splits and merges source blocks; oracle: independent overlap integrator (atoms, block density formula, integrated "
              "shares and totals, height-weighted means, constants, peaks, untouched unset values, refinement round trip)"),
    Part("windows", windows_execute, strategy=windows_strategy, budget={"quick": 800, "thorough": 40000}, procs={"quick": 2, "thorough": 16},
         rule="Hypothesis: assemblies of 1-8 blocks x up to 6 windows (ends at fractions of blocks, +-1e-12..1e-6 off boundaries, "
              "reaching outside, degenerate); overlaps positive, ordered, equal to the independent overlap, sum = window clipped to the "
              "assembly, no block above the 1e-10 relative cut-off missing; non-trivial = window over >= 2 blocks with a partial one"),
    Part("snap_mesh", snap_execute, strategy=snap_strategy, budget={"quick": 500, "thorough": 20000}, procs={"quick": 2, "thorough": 16},
         rule="Hypothesis: assemblies of 2-8 blocks snapped with Assembly.setBlockMesh onto generated meshes with the same number of cells "
              "(same or changed total height), conserveMassFlag True/False/'auto' on fuel and non-fuel assemblies; per component: volume follows "
              "the height, atoms (N*V) conserved where the documented rule says so, density untouched elsewhere; non-trivial = >= 2 blocks "
              "change height with conservation on"),
    Part("filter_mesh", filter_execute, strategy=filter_strategy, budget={"quick": 3000, "thorough": 200000}, procs={"quick": 2, "thorough": 16},
         rule="Hypothesis: candidate points (quarter grid and free floats, duplicates), minimum size, anchors (mostly among the candidates), "
              "bottom/top/invalid preference, list/set/tuple input; result strictly increasing, subset, gaps >= minimum, anchors kept, "
              "ValueError exactly when two present anchors are closer than the minimum, anchor-free result = greedy from the preferred end; "
              "non-trivial = a point removed while an anchor is present"),
    Part("common_mesh", common_execute, strategy=common_strategy, budget={"quick": 160, "thorough": 8000}, procs={"quick": 4, "thorough": 16},
         rule="Hypothesis: 7-assembly hex reactors from blueprint text (1-4 fuel/control designs with their own block heights) x minimum mesh "
              "size through UniformMeshGenerator.generateCommonMesh; average mesh = documented iterative mean, decusped mesh strictly "
              "increasing, from average-mesh points and fuel/control boundaries only, gaps >= minimum, lowest fuel bottom and highest fuel top "
              "kept, ValueError only with two material boundaries closer than the minimum; non-trivial = >= 2 designs and a changed mesh"),
    Part("converter", converter_execute, strategy=converter_strategy, budget={"quick": 100, "thorough": 5000}, procs={"quick": 4, "thorough": 16},
         rule="Hypothesis: the blueprint reactors of common_mesh x nonUniformAssemFlags subsets (none = whole core, primary/secondary/all control, "
              "fuel types, mixtures) through NeutronicsUniformMeshConverter.convert, generated results (power, mgFlux, pdens, flux, fluxPeak) "
              "written on the uniform copies, applyStateToOriginal; atoms of every copy equal the original's, original meshes restored, values "
              "on every converted original per the overlap oracle (shares/totals, means, constants, peaks), unconverted assemblies untouched; "
              "non-trivial = a converted assembly whose mesh differs from the uniform one"),
    Part("resample", resample_execute, strategy=resample_strategy, budget={"quick": 4000, "thorough": 300000}, procs={"quick": 2, "thorough": 16},
         rule="Hypothesis: input mesh of 1-7 bins, values as list/int list/NumPy array/list of arrays/2-D array, None entries, output points "
              "at bin fractions, +-1e-12..1e-6 off input points, outside the range; avg and sum modes; exact step-function mean/integral per "
              "output interval, None iff an overlapped bin is unset, 0 outside, totals preserved, inputs unchanged; non-trivial = an interval "
              "over >= 2 bins with a partial one"),
    Part("average1d", average_execute, strategy=average_strategy, budget={"quick": 2000, "thorough": 150000}, procs={"quick": 2, "thorough": 16},
         rule="Hypothesis: 1-6 rows x 1-6 columns of positive values around a base row with deviations scaled to the tolerance and outlier "
              "rows; literal pure-Python reading of the documented iterative outlier removal, fix point, row-order independence, ValueError "
              "when nothing is near the mean or a column is negative; non-trivial = at least one row dropped"),
]
