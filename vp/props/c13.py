"""C13 - symmetry conversions of the core multiply and restore the model exactly.

One case = a generated third-core hex reactor (2-5 rings, holes, with or without a centre assembly, flats or corners up,
optional pin lattices), an initial parameter/composition state, and a *program* over

    convert / restore / addEdge / removeEdge / assign (block parameter) / ndens (composition edit)

interpreted against a three-state model (THIRD, EDGE = third core with 120-degree edge assemblies, FULL).  The
oracle after ``convert`` is geometric (orbit closure under 120-degree rotation from vp/model/hexmodel.py) plus the
times-three relations on what armi itself reported before the conversion; the oracle after ``restore`` and after
add-then-remove is the observe() snapshot of the third core taken before, kept up to date with the local effect of
the assignments made in between.
"""
import math

from hypothesis import strategies as st

from vp.gen import reactor as rg
from vp.model import hexmodel as hm
from vp.runner import Out, Part

PROPERTY = "C13"
LEVEL = "exploration"
ASSUMPTIONS = [
    "equality of core states is observe(): type, name, serial number, child order, grid (incl. symmetry string), locators, "
    "every parameter of core/assembly/block/component, material, temperatures, dimensions, number densities, component area; "
    "not compared: the component volume/area caches (compared through getVolume/getMass/getArea instead) and the documented "
    "high-water mark Core.p.maxAssemNum",
    "restored values are compared exactly; volume-integrated parameters of the centre assembly that were multiplied and then "
    "divided by 3 may differ by 4 ulp; mass/volume re-read after a restore rel 1e-13",
    "times-three relations (getMass per nuclide, getVolume, core totals of parameters) rel 1e-10 of the sum of magnitudes; the "
    "third-core reference is what armi itself reports before the conversion (centre assembly stored as one third)",
    "a value assigned to a volume-integrated parameter of the centre assembly while the core is full is expected back divided "
    "by 3 (restorePreviousGeometry: 'changing the parameters of the center assembly from full core to one third core'); only "
    "parameters that already held an assigned value before the conversion are assigned in between",
    "parameters.reset() (documented for running several cases in one process) is called before each case so that the "
    "process-global 'assigned' flags are a function of the case",
    "each EdgeAssemblyChanger is used for one add (+ optional remove) as the armi callers do; restore is only called on the "
    "changer that converted; one ThirdCoreHexToFullCoreChanger object may serve several convert/restore rounds (restore ends with "
    "reset()), and a second restore right after a restore has nothing to undo ('if bool(self._newAssembliesAdded)') and must change nothing",
    "manual zones come from the zoneDefinitions setting through Core.buildManualZones and are disjoint; after convert a zone holds its "
    "locations plus the 120/240-degree images of its member assemblies ('thisZone.addLoc(newAssem.getLocation())'); restore is only "
    "required not to lose the defined locations (armi leaves the added ones in the zones; not documented either way)",
    "a third core carrying edge assemblies holds the same mass per nuclide and volume as without them (HexBlock.getSymmetryFactor: both "
    "lines are halves), asserted when position (-1, 2) is occupied (armi detects the edge model through that position), rel 1e-10",
    "armi's removal protocol add -> results written -> scaleParamsRelatedToSymmetry -> remove: scalar volume-integrated parameters written "
    "(non-zero, on every block) after the add come back on the 0-degree line as lower + upper half, everything not written since the add is "
    "unchanged; the multigroup-flux branch (_scaleFluxValues) is not driven with written values",
    "one EdgeAssemblyChanger may live across E.add, T.convert, T.restore, E.remove, E.add (removeEdgeAssemblies always ends with reset())",
    "children of blocks with a lattice may sit on a single off-centre site (IndexLocation) or at free coordinates (CoordinateLocation in the "
    "block grid); HexBlock.rotate documents that both are rotated with the block",
    "hex reference geometry vp/model/hexmodel.py (cube-coordinate rotation, symmetry lines) is independent of armi",
]

SIG_NOCENTRE = "restore/no-centre-assembly/TypeError"
SIG_FLAGS = "convert/centre-not-scaled/after-edge-add-that-added-nothing"
SIG_LATE = "restore/centre-value-first-assigned-while-full-not-scaled-back"
# SIG_NOCENTRE and SIG_FLAGS were repaired in /repo (fix: commits 5db0a99, 72bcfe5): searched again.
# SIG_LATE (a centre value FIRST assigned while the core is full is not divided by 3 on restore) goes beyond the
# statement -- "returns the core to its previous state" says nothing about values that did not exist in that state --
# so the shape stays out of the search and is not asserted (recorded as an observation in DESIGN.md).
EXCLUDE_KNOWN = {SIG_NOCENTRE: False, SIG_FLAGS: False, SIG_LATE: True}  # a replay case may carry "noexclude": true

# (name, value kind, volume integrated)
PARAMS = [
    ("power", "f", True), ("powerGamma", "f", True), ("powerNeutron", "f", True), ("kgHM", "f", True), ("kgFis", "f", True),
    ("massHmBOL", "f", True), ("molesHmBOL", "f", True), ("molesHmNow", "f", True), ("powerShapeDelta", "f", True),
    ("rxFuelDopplerConstant", "f", True), ("mgFlux", "arr", True), ("adjMgFlux", "lst", True), ("mgFluxGamma", "arr", True),
    ("lastMgFlux", "lst", True),
    ("flux", "f", False), ("pdens", "f", False), ("percentBu", "f", False), ("residence", "f", False), ("xsType", "xs", False),
    ("THcornTemp", "lst6", False), ("pointsEdgeDpa", "arr6", False), ("cornerFastFlux", "arr6", False), ("disp", "disp", False),
    ("linPowByPin", "arr", False),
]
NVI = sum(1 for p in PARAMS if p[2])
# "full" / "edge" toggle (convert <-> restore, add <-> remove) so that every step is effective; the explicit kinds also reach the
# documented no-op situations (convert when full, add twice, remove without edges ...)
OPS = ["full", "full", "full", "edge", "edge", "edge", "assign", "assign", "assign", "ndens", "convert", "restore", "addEdge", "removeEdge"]
SKIP = ("volume", "area", "maxAssemNum")
# assembly parameters that Core.add / moveTo document as (re)set when an assembly enters the core or moves
ENTRY_PARAMS = ("assemNum", "numMoves", "daysSinceLastMove", "chargeTime", "chargeCycle", "chargeFis", "chargeBu")
ROTATED_BLOCK_PARAMS = ("orientation", "displacementX", "displacementY", "assemNum")
NUCS = ["U235", "U238", "ZR", "NA23", "FE56", "B10", "C"]
SITES = [(2, -1), (1, 0), (0, 1), (-1, 2), (1, 1), (-2, 1), (0, -2), (3, -1)]  # off-centre lattice sites


# ---------------------------------------------------------------------------------------------
# strategy


def _flt():
    return st.one_of(
        st.floats(-1e12, 1e12, allow_nan=False).map(float),
        st.floats(1e-3, 1e3).map(float),
        st.sampled_from([0.0, 1.0, 1e-300, 3.0e15, 0.1, 1.0 / 3.0]),
    )


def _op():
    return st.fixed_dictionaries(
        {
            "op": st.sampled_from(OPS),
            "obj": st.integers(0, 10**6),
            "obj2": st.integers(0, 10**6),
            "pidx": st.integers(0, 100),
            "v": _flt(),
            "centre": st.booleans(),  # assignments: prefer a block of the centre assembly
            "late": st.sampled_from([False] * 7 + [True]),  # assignments: a parameter that held no assigned value before the conversion
            "fresh": st.sampled_from([False, False, True]),  # use a new changer object (convert again after a restore; removeEdge; addEdge on edges)
            "via": st.sampled_from(["changer", "changer", "changer", "core"]),
            "factor": st.floats(0.1, 3.0),
        }
    )


def strategy(tier):
    return st.fixed_dictionaries(
        {
            "spec": rg.reactor_spec(geoms=("hex", "hex_corners_up"), symmetries=["third periodic"], max_rings=5, max_blocks=3,
                                    min_assems=2),
            "dropCentre": st.sampled_from([False, False, False, False, True]),
            "dropSfp": st.booleans(),
            "params": st.lists(st.integers(0, len(PARAMS) - 1), min_size=1, max_size=7, unique=True),
            "init": st.lists(st.one_of(st.none(), _flt()), min_size=1, max_size=10),
            "groups": st.integers(1, 4),
            "ndens": st.lists(st.tuples(st.integers(0, 10**6), st.integers(0, 10**6), st.floats(0.1, 3.0)).map(list), max_size=3),
            "rot": st.lists(st.tuples(st.integers(0, 10**6), st.integers(1, 4)).map(list), max_size=3),
            # children of pin-lattice blocks moved to ONE off-centre lattice site (IndexLocation) or to free coordinates
            "sites": st.lists(st.tuples(st.integers(0, 10**6), st.integers(0, 10**6), st.integers(0, len(SITES) - 1),
                                        st.sampled_from(["index", "index", "coord"])).map(list), min_size=1, max_size=3),
            # leading convert/restore rounds on ONE changer object (re-use after reset()); "double" = a second restore at the end
            "rounds": st.sampled_from([0, 0, 0, 2, 2, 3]),
            "double": st.booleans(),
            # manual zones (settings zoneDefinitions -> Core.buildManualZones) covering all / some / none of the assemblies
            "zones": st.fixed_dictionaries({"mode": st.sampled_from(["none", "none", "all", "some", "some"]), "n": st.integers(1, 3),
                                            "pick": st.lists(st.integers(0, 11), min_size=1, max_size=8)}),
            # after the first effective edge addition: a SECOND changer adds edges again (positions already occupied), then maybe removes
            #   "long-lived": ONE edge changer E across E.add, T.convert, T.restore, E.remove (nothing to remove), E.add
            #   "protocol" / "protocol-write": armi's removal protocol add -> [results written] -> scaleParamsRelatedToSymmetry -> remove
            "edgeShape": st.sampled_from(["", "twice", "twice-remove", "long-lived", "long-lived", "protocol", "protocol-write"]),
            "enabled": st.lists(st.sampled_from(sorted(set(OPS))), min_size=3, max_size=8, unique=True),
            "program": st.lists(_op(), min_size=3, max_size=12),
        }
    )


# ---------------------------------------------------------------------------------------------
# values


def _shape(kind, v, groups):
    import numpy as np

    if kind == "f":
        return v
    if kind == "arr":
        return np.array([v * (m + 1) for m in range(groups)])
    if kind == "lst":
        return [v * (m + 1) for m in range(groups)]
    if kind == "lst6":
        return [v + m for m in range(6)]
    if kind == "arr6":
        return np.array([v * (m + 1) + m for m in range(6)])
    if kind == "xs":
        return "ABCDEFGH"[int(abs(v)) % 8 if abs(v) < 1e9 else 0]
    raise KeyError(kind)


def _assign(b, name, kind, v, groups):
    if kind == "disp":
        b.p.displacementX = v
        b.p.displacementY = 1.0 - v / 2.0
    else:
        b.p[name] = _shape(kind, v, groups)


def _third(val):
    """A full-core value of the centre assembly expressed for the third core (documented: one third)."""
    import numpy as np

    if val is None:
        return None
    if isinstance(val, list):
        return [x / 3 for x in val]
    if isinstance(val, np.ndarray):
        return val / 3
    return val / 3


def _ulp_close(a, b, n):
    if a == b:
        return True
    return abs(a - b) <= n * math.ulp(max(abs(a), abs(b)))


def _leaves_close(x, y, n):
    if isinstance(x, float) and isinstance(y, float):
        return _ulp_close(x, y, n)
    if isinstance(x, (list, tuple)) and isinstance(y, (list, tuple)):
        return type(x) is type(y) and len(x) == len(y) and all(_leaves_close(a, b, n) for a, b in zip(x, y))
    return type(x) is type(y) and x == y


def _rel_ok(got, want, scale, rel=1e-10):
    return abs(got - want) <= rel * scale + 1e-300


# ---------------------------------------------------------------------------------------------
# the interpreter


class _Run:
    def __init__(self, case, out):
        self.case = case
        self.out = out
        self.noexclude = bool(case.get("noexclude"))
        self.state = "THIRD"
        self.changer = None  # the changer that converted (FULL) / the last one used
        self.edger = None
        self.flags_cleared = False  # an edge addition that added nothing happened and no assembly was added/removed since
        self.late = []  # (assembly index, block index, name) of centre values first assigned while the core was full
        self.restored_changer = None  # the changer whose restore was the last symmetry change
        self.edge_shape_done = False
        self.changer_uses = 0  # conversions done by the current changer object
        self.rounds_done = 0
        self.counts = {}

    # -- helpers ------------------------------------------------------------------------------
    def excluded(self, sig):
        return EXCLUDE_KNOWN.get(sig) and not self.noexclude

    def count(self, k):
        self.counts[k] = self.counts.get(k, 0) + 1

    def ij(self, a):
        idx = a.spatialLocator.indices
        return (int(idx[0]), int(idx[1]))

    def snap(self):
        from vp.model import observe as ob

        return ob.observe(self.core, params=True, only_saved=False, serial=True, derived=True, skip_params=SKIP)

    def take_third_snapshot(self, snap=None, mass=None):
        """Expected state of the third core without edge assemblies + the identity tables that go with it."""
        core = self.core
        self.s3 = snap if snap is not None else self.snap()
        self.s3_index = {id(a): n for n, a in enumerate(core)}
        self.s3_assems = list(core)
        self.s3_byloc = {(int(k.i), int(k.j), int(k.k)): v for k, v in core.childrenByLocator.items()}
        self.s3_byname = dict(core.assembliesByName)
        self.s3_blocks = dict(core.blocksByName)
        self.s3_labels = {a.getLocation(): a for a in core}
        self.s3_mass = mass if mass is not None else self.masses()
        self.s3_dirty_mass = False
        self.s3_sfp = self.sfp_len()

    def sfp_len(self):
        sfp = self.r.excore.get("sfp")
        return None if sfp is None else len(sfp)

    def masses(self):
        core = self.core
        return {"*": core.getMass(), "vol": core.getVolume(), **{n: core.getMass(n) for n in self.nucs}}

    def centre(self):
        return self.core.childrenByLocator.get(self.core.spatialGrid[0, 0, 0])

    # -- construction -------------------------------------------------------------------------
    def build(self):
        from armi.reactor import parameters

        case = self.case
        spec = dict(case["spec"])
        cells = [list(c) for c in spec["cells"]]
        if case["dropCentre"] and len(cells) > 1:
            cells = [c for c in cells if not (c[0] == 0 and c[1] == 0)]
        spec["cells"] = cells
        if case["dropSfp"]:
            spec["sfp"] = False
        self.spec = spec
        parameters.reset()
        self.cs, self.bp, self.r = rg.build(spec)
        self.core = self.r.core
        self.groups = case["groups"]
        self.P = [PARAMS[i] for i in case["params"]]
        present = set(self.core.getNuclides())
        self.nucs = [n for n in NUCS if n in present][:5]
        # initial parameter state: every (block, parameter in play); None = leave the default
        init = case["init"]
        first = next((x for x in init if x is not None), 1.0)
        blocks = [b for a in self.core for b in a]
        for pi, (name, kind, _vi) in enumerate(self.P):
            for bi, b in enumerate(blocks):
                v = init[(bi * 7 + pi * 3) % len(init)]
                if v is None:
                    if bi != 0:
                        continue
                    v = first  # every parameter in play holds at least one assigned value before any conversion
                _assign(b, name, kind, v, self.groups)
        assems = list(self.core)
        for ai, k in case.get("rot", []):
            assems[ai % len(assems)].rotate(math.radians(60.0 * k))  # some assemblies are already rotated (k = 1..4)
        from armi.reactor import grids

        gridded = [b for b in blocks if b.spatialGrid is not None]
        self.nsites = 0
        for bi, ci, si, mode in case.get("sites", []):
            if not gridded:
                break
            b = gridded[bi % len(gridded)]
            single = [c for c in b if not isinstance(c.spatialLocator, grids.MultiIndexLocation)]
            if not single:
                continue
            c = single[ci % len(single)]
            i, j = SITES[si]
            if mode == "index":
                c.spatialLocator = b.spatialGrid[i, j, 0]  # HexBlock.rotate documents the IndexLocation branch
            else:
                x, y = hm.centre(i, j, 0.75, False)
                c.spatialLocator = grids.CoordinateLocation(x, y, 0.0, b.spatialGrid)
            self.nsites += 1
        comps = [c for b in blocks for c in b if c.getNumberDensities()]
        for ci, ni, f in case["ndens"]:
            c = comps[ci % len(comps)]
            nucs = sorted(c.getNumberDensities())
            nuc = nucs[ni % len(nucs)]
            c.setNumberDensity(nuc, c.getNumberDensity(nuc) * f)
        self.build_zones()
        self.zones0 = self.zone_state()
        self.take_third_snapshot()

    def build_zones(self):
        z = self.case.get("zones") or {"mode": "none"}
        self.zone_mode = "none"
        if z["mode"] == "none":
            return
        n, pick = z["n"], z["pick"]
        members = {}
        uncovered = 0
        for i, a in enumerate(self.core):
            p = pick[i % len(pick)]
            if z["mode"] == "all" or (p // n) % 2 == 0:
                members.setdefault("zone-%d" % (p % n), []).append(a.getLocation())
            else:
                uncovered += 1
        if not members:
            return
        defs = ["%s: %s" % (name, ", ".join(locs)) for name, locs in sorted(members.items())]
        self.core.buildManualZones(self.cs.modified(newSettings={"zoneDefinitions": defs}))
        self.zone_mode = "all" if uncovered == 0 else "some"

    def zone_state(self):
        return {z.name: set(z.locs) for z in self.core.zones}

    # -- consistency of the lookup tables (after every step) -----------------------------------
    def check_tables(self, where):
        core, out = self.core, self.out
        kids = list(core)
        names = [a.getName() for a in kids]
        out.check(len(set(names)) == len(names), "tables/assembly-names-not-unique", lambda: "%s: %s" % (where, sorted(names)))
        byloc = core.childrenByLocator
        out.check(len(byloc) == len(kids) and all(byloc.get(a.spatialLocator) is a for a in kids), "tables/childrenByLocator-out-of-step",
                  lambda: "%s: %d entries for %d assemblies" % (where, len(byloc), len(kids)))
        out.check(set(core.assembliesByName) == set(names) and all(core.assembliesByName[a.getName()] is a for a in kids),
                  "tables/assembliesByName-out-of-step",
                  lambda: "%s: extra %s missing %s" % (where, sorted(set(core.assembliesByName) - set(names)), sorted(set(names) - set(core.assembliesByName))))
        bnames = [b.getName() for a in kids for b in a]
        out.check(len(set(bnames)) == len(bnames), "tables/block-names-not-unique", lambda: "%s" % where)
        out.check(set(core.blocksByName) == set(bnames) and all(core.blocksByName[b.getName()] is b for a in kids for b in a),
                  "tables/blocksByName-out-of-step",
                  lambda: "%s: extra %s missing %s" % (where, sorted(set(core.blocksByName) - set(bnames))[:4], sorted(set(bnames) - set(core.blocksByName))[:4]))
        out.check(all(a.parent is core and a.spatialLocator.grid is core.spatialGrid for a in kids), "tables/assembly-not-in-core-grid", where)

    # -- expected-unchanged check ---------------------------------------------------------------
    def expect_unchanged(self, before, what):
        from vp.model import observe as ob

        d = ob.diff(before, self.snap(), limit=4)
        for x in d:
            self.out.fail("noop/%s/state-changed" % what, "documented no-op changed the core: " + x)

    # -- restore oracle ---------------------------------------------------------------------------
    def check_back_to_third(self, what, scaled_centre):
        """The core must be the expected third core ``self.s3`` again (what = 'restore' | 'remove-edge')."""
        from armi.reactor import geometry

        from vp.model import observe as ob

        core, out = self.core, self.out
        sig = what
        sym = core.symmetry
        out.check(sym.domain == geometry.DomainType.THIRD_CORE and sym.boundary == geometry.BoundaryType.PERIODIC and not core.isFullCore
                  and core.powerMultiplier == 3, sig + "/symmetry-not-restored", lambda: "symmetry after %s: %s" % (what, sym))
        kids = list(core)
        same = len(kids) == len(self.s3_assems) and all(x is y for x, y in zip(kids, self.s3_assems))
        out.check(same, sig + "/assemblies-not-the-same-objects", lambda: "children %s expected %s" % ([a.getName() for a in kids], [a.getName() for a in self.s3_assems]))
        now = self.snap()
        within = []  # (params dict, name, actual value) accepted within 4 ulp
        if same and scaled_centre:
            # centre assembly: volume-integrated values went through *3 and /3
            ca = self.centre()
            if ca is not None and id(ca) in self.s3_index:
                n = self.s3_index[id(ca)]
                vi = self.vi_names
                for bexp, bnow in zip(self.s3["children"][n]["children"], now["children"][n]["children"]):
                    for name in vi:
                        if name in bexp["params"] and name in bnow["params"] and bexp["params"][name] != bnow["params"][name]:
                            if _leaves_close(bexp["params"][name], bnow["params"][name], 4):
                                within.append((bnow["params"], name, bnow["params"][name]))
                                bnow["params"][name] = bexp["params"][name]
        for n, bi, name in self.late:
            exp = self.s3["children"][n]["children"][bi]["params"]
            got = now["children"][n]["children"][bi]["params"] if same else {}
            if name in got and got[name] != exp[name]:
                out.fail(SIG_LATE, "centre block %d, %s assigned for the first time while the core was full: %r after restore, a third of the full-core value is %r"
                         % (bi, name, got[name], exp[name]))
                got[name] = exp[name]
        self.late = []
        nfail = len(out.violations)
        for x in ob.diff(self.s3, now, limit=5):
            out.fail(sig + "/state-differs/" + _bucket(x), "core after %s differs from the third core before: %s" % (what, x))
        # lookup tables: same keys bound to the same objects
        byloc = {(int(k.i), int(k.j), int(k.k)): v for k, v in core.childrenByLocator.items()}
        out.check(set(byloc) == set(self.s3_byloc) and all(byloc[k] is self.s3_byloc[k] for k in byloc), sig + "/childrenByLocator-differs",
                  lambda: "extra %s missing %s" % (sorted(set(byloc) - set(self.s3_byloc)), sorted(set(self.s3_byloc) - set(byloc))))
        abn = core.assembliesByName
        out.check(set(abn) == set(self.s3_byname) and all(abn[k] is self.s3_byname[k] for k in abn), sig + "/assembliesByName-differs",
                  lambda: "extra %s missing %s" % (sorted(set(abn) - set(self.s3_byname)), sorted(set(self.s3_byname) - set(abn))))
        bbn = core.blocksByName
        out.check(set(bbn) == set(self.s3_blocks) and all(bbn[k] is self.s3_blocks[k] for k in bbn), sig + "/blocksByName-differs",
                  lambda: "extra %s missing %s" % (sorted(set(bbn) - set(self.s3_blocks))[:4], sorted(set(self.s3_blocks) - set(bbn))[:4]))
        # lookups resolve as before
        for (i, j, k), a in sorted(self.s3_byloc.items()):
            got = core.childrenByLocator.get(core.spatialGrid[i, j, k])
            if not out.check(got is a, sig + "/location-lookup", lambda: "cell %s resolves to %r expected %r" % ((i, j, k), got, a)):
                break
        for label, a in sorted(self.s3_labels.items()):
            got = core.getAssemblyWithStringLocation(label)
            if not out.check(got is a and a.getLocation() == label, sig + "/label-lookup", lambda: "label %s resolves to %r expected %r (own label %s)" % (label, got, a, a.getLocation())):
                break
        for name, a in sorted(self.s3_byname.items()):
            if not out.check(core.getAssemblyByName(name) is a, sig + "/name-lookup", "assembly name %s" % name):
                break
        for name, b in sorted(self.s3_blocks.items()):
            if not out.check(core.getBlockByName(name) is b, sig + "/block-name-lookup", "block name %s" % name):
                break
        gone = self.removed_labels
        for label in sorted(gone)[:12]:
            got = core.getAssemblyWithStringLocation(label)
            if not out.check(got is None, sig + "/removed-location-still-resolves", lambda: "label %s still resolves to %r" % (label, got)):
                break
        zs = self.zone_state()
        out.check(all(self.zones0.get(k, set()) <= v for k, v in zs.items()) and set(zs) == set(self.zones0), sig + "/zone-lost-locations",
                  lambda: "zones now %s, defined as %s" % (zs, self.zones0))
        out.check(self.sfp_len() == self.s3_sfp, sig + "/spent-fuel-pool-changed", lambda: "pool holds %r assemblies, %r before" % (self.sfp_len(), self.s3_sfp))
        m = None
        if not self.s3_dirty_mass:
            m = self.masses()
            for k in sorted(m):
                out.check(_rel_ok(m[k], self.s3_mass[k], abs(self.s3_mass[k]), 1e-13), sig + "/mass-or-volume-differs",
                          lambda: "%s: %r after %s, %r before" % (k, m[k], what, self.s3_mass[k]))
        if len(out.violations) == nfail:
            for params, name, actual in within:
                params[name] = actual  # the next comparison is against what the core really holds now
            self.take_third_snapshot(snap=now, mass=m)
        else:
            self.take_third_snapshot()

    # -- reference totals before a conversion ---------------------------------------------------
    def totals(self, blocks):
        """What armi reports for the given blocks: {key: (value(s), sum of magnitudes)}."""
        import numpy as np

        core = self.core
        res = {}
        for name, kind, vi in self.P:
            if kind == "f" and vi:
                res["total:" + name] = (core.calcTotalParam(name, objs=blocks), sum(abs(b.p[name]) for b in blocks))
            elif kind == "f":
                res["volint:" + name] = (core.calcTotalParam(name, objs=blocks, volumeIntegrated=True), sum(abs(b.p[name]) * b.getVolume() for b in blocks))
            elif vi and kind in ("arr", "lst"):
                tot = np.zeros(self.groups)
                mag = np.zeros(self.groups)
                for b in blocks:
                    v = b.p[name]
                    if v is None:
                        continue
                    tot = tot + np.array(v, dtype=float)
                    mag = mag + np.abs(np.array(v, dtype=float))
                res["total:" + name] = (tot, mag)
        return res

    # -- operations -------------------------------------------------------------------------------
    def op_convert(self, op):
        from armi.reactor import geometry
        from armi.reactor.converters import geometryConverters as gc

        import numpy as np

        core, out = self.core, self.out
        if self.state == "FULL":
            # documented: "Detected that full core reactor already exists. Cannot expand." -> nothing happens
            before = self.snap()
            self.changer.convert(self.r)
            self.expect_unchanged(before, "convert-when-full")
            self.count("convert:noop")
            return
        # ----- reference, as armi reports it for the third core (edge assemblies are not part of the third core)
        from_edge = self.state == "EDGE"
        sources = [a for a in core if hm.symmetry_line(*self.ij(a)) != 120]
        src_cells = {self.ij(a): a for a in sources}
        ref_blocks = [b for a in sources for b in a]
        ref_tot = self.totals(ref_blocks)
        if from_edge:
            # block volumes on the symmetry lines are halved while the edge assemblies are there: no third-core reference
            ref_tot = {k: v for k, v in ref_tot.items() if not k.startswith("volint:")}
            ref_mass = None if self.s3_dirty_mass else self.s3_mass
            ref_sym = None
        else:
            ref_mass = self.masses()
            ref_sym = {name: core.calcTotalParam(name, generationNum=2, addSymmetricPositions=True) for name, kind, vi in self.P if kind == "f" and vi}
        light = bool(op.get("light"))  # later leading rounds: the copies were compared with their sources in the first round
        src_records = {} if light else {cell: _copy_record(a) for cell, a in src_cells.items()}
        src_serials = set(_serials(core))
        centre = src_cells.get((0, 0))
        c = 1 if centre is not None else 0
        nsrc = len(sources)

        zones_before = self.zone_state()
        src_labels = {a.getLocation(): cell for cell, a in src_cells.items()}
        if self.changer is None or op["fresh"]:
            self.changer = gc.ThirdCoreHexToFullCoreChanger(self.cs)
            self.changer_uses = 0
        changer = self.changer
        try:
            if op["via"] == "core":
                changer = self.changer = core.growToFullCore(self.cs)
                self.changer_uses = 0
            else:
                changer.convert(self.r)
        except Exception as exc:  # noqa: BLE001  (only the armi call is inside the try)
            out.fail("convert/raises-instead-of-converting", "convert of a third core (zones: %s) raised %s: %s; %d assemblies, symmetry %s"
                     % (self.zone_mode, type(exc).__name__, exc, len(core), core.symmetry))
            self.state = "BROKEN"
            return
        self.changer_uses += 1
        self.restored_changer = None
        self.state = "FULL"
        self.count("convert:from-edge" if from_edge else "convert")
        self.removed_labels = set()

        # ----- symmetry
        sym = core.symmetry
        out.check(sym.domain == geometry.DomainType.FULL_CORE and core.isFullCore and core.powerMultiplier == 1, "convert/symmetry-not-full",
                  lambda: "symmetry after convert: %s" % sym)
        # ----- occupied cells = closure of the third-core cells under 120-degree rotation
        want = {}
        for cell in src_cells:
            for k in (0, 1, 2):
                want.setdefault(hm.rotate60(cell[0], cell[1], 2 * k), (cell, k))
        have = {self.ij(a): a for a in core}
        out.check(len(have) == len(list(core)), "convert/two-assemblies-in-one-cell", "duplicate cell")
        if not out.check(set(have) == set(want), "convert/cells-not-the-rotation-closure",
                         lambda: "extra %s missing %s" % (sorted(set(have) - set(want)), sorted(set(want) - set(have)))):
            return
        out.check(len(have) == 3 * (nsrc - c) + c, "convert/assembly-count", lambda: "%d assemblies, expected 3*(%d-%d)+%d" % (len(have), nsrc, c, c))
        out.check(set(core.childrenByLocator[core.spatialGrid[i, j, 0]] is a for (i, j), a in have.items()) == {True}, "convert/location-lookup",
                  "childrenByLocator does not resolve the occupied cells")
        self.removed_labels = {a.getLocation() for cell, a in have.items() if want[cell][1] != 0}
        # ----- each added assembly: independent, uniquely named, rotated copy of its source
        serials = _serials(core)
        out.check(len(set(serials)) == len(serials), "convert/serial-numbers-not-unique", "two objects share a serial number")
        seen_ids = {}
        for cell in sorted(have):
            a = have[cell]
            (scell, k) = want[cell]
            src = src_cells[scell]
            if k == 0:
                out.check(a is src, "convert/source-assembly-replaced", lambda: "cell %s holds %r, the third-core assembly was %r" % (cell, a, src))
                continue
            for o in _walk(a):
                seen_ids[id(o)] = cell
            label = "%03d-%03d" % _ring_pos(cell)
            out.check(a.getLocation() == label, "convert/copy-location-label", lambda: "copy at %s reports %s expected %s" % (cell, a.getLocation(), label))
            if not light:
                self.check_copy(a, src, src_records[scell], k, cell, src_serials)
        for src in sources:
            shared = [o for o in _walk(src) if id(o) in seen_ids]
            out.check(not shared, "convert/copy-shares-objects-with-source", lambda: "%r shared between %r and the copy at %s" % (shared[0], src, seen_ids[id(shared[0])]))
            mats = [id(comp.material) for b in src for comp in b]
            for cell, a in have.items():
                if want[cell] != (self.ij(src), 0) and want[cell][0] == self.ij(src):
                    out.check(not set(mats) & {id(comp.material) for b in a for comp in b}, "convert/copy-shares-material-with-source", "cell %s" % (cell,))
        # ----- zones: "thisZone.addLoc(newAssem.getLocation())": a copy joins the zone of its source; nothing else changes
        zones_after = self.zone_state()
        for zname in sorted(zones_before):
            exp = set(zones_before[zname])
            for label in zones_before[zname]:
                if label in src_labels:
                    i, j = src_labels[label]
                    for k in (1, 2):
                        exp.add("%03d-%03d" % _ring_pos(hm.rotate60(i, j, 2 * k)))
            got = zones_after.get(zname)
            out.check(got == exp, "convert/zone-locations", lambda: "zone %s: extra %s missing %s" % (zname, sorted((got or set()) - exp), sorted(exp - (got or set()))))
        out.check(set(zones_after) == set(zones_before), "convert/zone-set-changed", lambda: "%s -> %s" % (sorted(zones_before), sorted(zones_after)))
        if zones_before:
            self.count("convert:zones-" + self.zone_mode)
        # ----- times three
        known_shape = self.flags_cleared and c == 1
        sig_tot = SIG_FLAGS if known_shape else "convert/total-not-times-three/" + ("centre" if c else "no-centre")
        self.flags_cleared = False
        all_blocks = [b for a in core for b in a]
        full_tot = self.totals(all_blocks)
        for key in sorted(ref_tot):
            ref, mag = ref_tot[key]
            got = full_tot[key][0]
            ok = bool(np.all(np.abs(np.asarray(got) - 3 * np.asarray(ref)) <= 1e-10 * 3 * np.asarray(mag) + 1e-300))
            out.check(ok, sig_tot, lambda: "%s: full core %r, third core %r (x3 = %r)" % (key, got, ref, 3 * np.asarray(ref)))
        if ref_sym is not None:
            for name in sorted(ref_sym):
                got = core.calcTotalParam(name, generationNum=2, addSymmetricPositions=True)
                mag = ref_tot["total:" + name][1]
                out.check(_rel_ok(got, ref_sym[name], 3 * mag), sig_tot if known_shape else "convert/addSymmetricPositions-total-changed", lambda: "%s: %r after, %r before" % (name, got, ref_sym[name]))
        if ref_mass is not None:
            m = self.masses()
            for k in sorted(m):
                out.check(_rel_ok(m[k], 3 * ref_mass[k], 3 * abs(ref_mass[k])), "convert/mass-or-volume-not-times-three",
                          lambda: "%s: full core %r, third core %r" % (k, m[k], ref_mass[k]))
        else:
            self.count("convert:mass-reference-skipped")

    def check_copy(self, a, src, src_record, k, cell, src_serials):
        """``a`` must be a copy of ``src`` (record taken before the conversion) rotated by k*120 degrees."""
        import numpy as np

        from vp.model import observe as ob

        out = self.out
        rec = _copy_record(a)
        for x in ob.diff(src_record["plain"], rec["plain"], limit=3):
            out.fail("convert/copy-differs-from-source/" + _bucket(x, 1), "copy at %s vs source %r: %s" % (cell, src, x))
        out.check(a.getName() != src.getName() and a.p.assemNum != src.p.assemNum and a.p.assemNum >= 0, "convert/copy-name-not-unique", lambda: "copy %r of %r" % (a, src))
        out.check(not (set(_serials(a)) & src_serials), "convert/copy-serial-number-reused", "cell %s" % (cell,))
        for bs, bn in zip(src, a):
            for name in ["orientation"] + [n for n, kind, _vi in self.P if kind != "disp"]:
                vs, vn = bs.p[name], bn.p[name]
                if isinstance(vs, (list, np.ndarray)):
                    out.check(vs is not vn, "convert/copy-shares-parameter-value-with-source", lambda: "%s of %r and %r is one object" % (name, bs, bn))
        rot = 2 * k
        for bi, (bsrc, bnew) in enumerate(zip(src_record["blocks"], rec["blocks"])):
            want_o = bsrc["orientation"][2] + 120.0 * k
            got_o = bnew["orientation"]
            out.check(got_o[0] == bsrc["orientation"][0] and got_o[1] == bsrc["orientation"][1] and (got_o[2] - want_o) % 360.0 == 0.0 and bnew["rotNum"] == (bsrc["rotNum"] + rot) % 6,
                      "convert/copy-orientation", lambda: "copy at %s block %d orientation %s, source %s, rotation %d deg" % (cell, bi, got_o, bsrc["orientation"], 120 * k))
            for name in sorted(bsrc["boundary"]):
                old, new = bsrc["boundary"][name], bnew["boundary"][name]
                if old is None or new is None or len(old) != 6:
                    out.check(_same(old, new), "convert/copy-boundary-param", lambda: "%s: %r -> %r" % (name, old, new))
                    continue
                ok = type(old) is type(new) and len(new) == 6 and all(new[(m + rot) % 6] == old[m] for m in range(6))
                out.check(ok, "convert/copy-boundary-param-not-rotated", lambda: "%s at %s: source %s copy %s, rotation by %d corners" % (name, cell, list(old), list(new), rot))
            dx, dy = bsrc["disp"]
            if dx is not None and dy is not None:
                ex, ey = hm.rot_xy(dx, dy, 120.0 * k)
                tol = 1e-12 * (abs(dx) + abs(dy)) + 1e-300
                gx, gy = bnew["disp"]
                out.check(gx is not None and gy is not None and abs(gx - ex) <= tol and abs(gy - ey) <= tol, "convert/copy-displacement-not-rotated",
                          lambda: "cell %s: (%r, %r) expected (%r, %r)" % (cell, gx, gy, ex, ey))
            else:
                out.check(bnew["disp"] == bsrc["disp"], "convert/copy-displacement-not-rotated", "unset displacement changed")
            for ci, (ls, ln) in enumerate(zip(bsrc["locs"], bnew["locs"])):
                if ls[0] == "multi":
                    exp = sorted(hm.rotate60(i, j, rot) + (kk,) for i, j, kk in ls[1])
                    out.check(ln[0] == "multi" and sorted(ln[1]) == exp, "convert/copy-pin-lattice-not-rotated", lambda: "cell %s block %d component %d: %s expected %s" % (cell, bi, ci, ln, exp))
                elif ls[0] == "coord":
                    ex, ey = hm.rot_xy(ls[1][0], ls[1][1], 120.0 * k)
                    out.check(ln[0] == "coord" and abs(ln[1][0] - ex) <= 1e-9 and abs(ln[1][1] - ey) <= 1e-9 and ln[1][2] == ls[1][2], "convert/copy-free-coordinate-child-not-rotated",
                              lambda: "cell %s block %d component %d: %s -> %s, expected (%r, %r)" % (cell, bi, ci, ls[1], ln[1], ex, ey))
                elif ls[0] == "index":
                    exp = hm.rotate60(ls[1][0], ls[1][1], rot) + (ls[1][2],)
                    out.check(ln[0] == "index" and tuple(ln[1]) == exp, "convert/copy-single-site-child-not-rotated",
                              lambda: "cell %s block %d component %d: site %s -> %s, expected %s (rotation %d deg)" % (cell, bi, ci, ls[1], ln[1], list(exp), 120 * k))
                else:
                    out.check(ln == ls, "convert/copy-component-location", lambda: "%s -> %s" % (ls, ln))

    def op_restore(self, op):
        core, out = self.core, self.out
        if self.state != "FULL":
            if self.state == "THIRD" and self.restored_changer is not None:
                # a second restore on the changer that just restored: nothing is left to undo ("if bool(self._newAssembliesAdded)")
                before = self.snap()
                try:
                    self.restored_changer.restorePreviousGeometry(self.r)
                except Exception as exc:  # noqa: BLE001
                    out.fail("restore/raises-instead-of-restoring", "second restorePreviousGeometry on the same changer (round %d): %s: %s" % (self.rounds_done, type(exc).__name__, exc))
                    self.state = "BROKEN"
                    return
                self.expect_unchanged(before, "restore-twice")
                self.count("restore:twice")
            return  # otherwise restore is only documented after convert, on the changer that converted
        if self.centre() is None and self.excluded(SIG_NOCENTRE):
            out.label("excluded:" + SIG_NOCENTRE)
            return
        try:
            if op["via"] == "core":
                self.changer.restorePreviousGeometry()
            else:
                self.changer.restorePreviousGeometry(self.r)
        except Exception as exc:  # noqa: BLE001  (only the armi call is inside the try)
            if isinstance(exc, TypeError) and self.centre() is None:
                out.fail(SIG_NOCENTRE, "restorePreviousGeometry raises TypeError ('NoneType' object is not iterable) when the core has no centre assembly; "
                         "the added assemblies are removed, the converter is not reset")
            else:
                out.fail("restore/raises-instead-of-restoring", "restorePreviousGeometry, conversion no. %d of this changer object: %s: %s"
                         % (self.changer_uses, type(exc).__name__, exc))
            self.state = "BROKEN"
            return
        self.state = "THIRD"
        self.rounds_done += 1
        self.restored_changer = self.changer
        self.count("restore" if self.changer_uses <= 1 else "restore:reused-changer")
        self.check_back_to_third("restore", scaled_centre=True)

    def op_add_edge(self, op):
        from armi.reactor.converters import geometryConverters as gc

        core, out = self.core, self.out
        if self.state == "FULL":
            before = self.snap()
            gc.EdgeAssemblyChanger().addEdgeAssemblies(core)  # documented: returns at once for a full core
            self.expect_unchanged(before, "add-edge-when-full")
            self.count("addEdge:noop-full")
            return
        lower = [a for a in core if hm.symmetry_line(*self.ij(a)) == 0]
        if self.state == "EDGE":
            before = self.snap()
            if op["fresh"]:
                gc.EdgeAssemblyChanger().addEdgeAssemblies(core)  # "Edge assembly already exists ... Not adding"
            else:
                self.edger.addEdgeAssemblies(core)  # "Skipping addition of edge assemblies because they are already there"
            self.expect_unchanged(before, "add-edge-twice")
            self.count("addEdge:noop-twice")
            return
        if not lower:
            if self.excluded(SIG_FLAGS):
                out.label("excluded:" + SIG_FLAGS)
                return
            before = self.snap()
            self.edger = gc.EdgeAssemblyChanger()
            self.edger.addEdgeAssemblies(core)
            self.flags_cleared = True
            self.expect_unchanged(before, "add-edge-nothing-to-add")
            self.count("addEdge:nothing-to-add")
            return
        before_cells = {self.ij(a): a for a in core}
        src_serials = set(_serials(core))
        self.restored_changer = None
        reuse = bool(op.get("reuseEdger")) and self.edger is not None
        if not reuse:
            self.edger = gc.EdgeAssemblyChanger()
        self.edger.addEdgeAssemblies(core)
        self.state = "EDGE"
        self.count("addEdge:long-lived-changer" if reuse else "addEdge")
        have = {self.ij(a): a for a in core}
        want = set(before_cells) | {hm.rotate60(i, j, 2) for (i, j) in (self.ij(a) for a in lower)}
        out.check(set(have) == want, "add-edge/cells-not-the-120-degree-images",
                  lambda: "extra %s missing %s" % (sorted(set(have) - want), sorted(want - set(have))))
        out.check(all(have.get(cell) is a for cell, a in before_cells.items()), "add-edge/third-core-assembly-replaced", "an assembly of the third core moved")
        shared = set()
        for a in lower:
            shared |= {id(o) for o in _walk(a)}
        added = [a for cell, a in have.items() if cell not in before_cells]
        for a in added:
            out.check(not any(id(o) in shared for o in _walk(a)), "add-edge/copy-shares-objects-with-source", lambda: "%r" % a)
            out.check(not (set(_serials(a)) & src_serials), "add-edge/copy-serial-number-reused", lambda: "%r" % a)
        self.removed_labels = {a.getLocation() for a in added}
        m = self.masses()  # what a flux solver does with the edge model: read volumes and masses (fills the volume caches)
        if (-1, 2) in have and not self.s3_dirty_mass and set(have) == want:
            # HexBlock.getSymmetryFactor: with edge assemblies on both edges the assemblies on the two lines are halves (factor 2), so the
            # third core with edges holds the same volume and mass as without (armi detects the edges through position (-1, 2))
            for k in sorted(m):
                out.check(_rel_ok(m[k], self.s3_mass[k], abs(self.s3_mass[k])), "add-edge/mass-or-volume-changed",
                          lambda: "%s: %r with edge assemblies, %r without" % (k, m[k], self.s3_mass[k]))
        shape = self.case.get("edgeShape", "")
        if shape in ("twice", "twice-remove") and not self.edge_shape_done:
            # a second changer object finds the 120-degree positions occupied: "Edge assembly already exists in ... Not adding."
            self.edge_shape_done = True
            before = self.snap()
            second = gc.EdgeAssemblyChanger()
            try:
                second.addEdgeAssemblies(core)
            except Exception as exc:  # noqa: BLE001
                out.fail("add-edge/raises-when-positions-occupied", "addEdgeAssemblies by a second changer with %d edge assemblies present raised %s: %s"
                         % (len(added), type(exc).__name__, exc))
                self.state = "BROKEN"
                return
            self.expect_unchanged(before, "add-edge-positions-occupied")
            self.check_tables("after the second edge addition")
            self.count("addEdge:second-changer")
            if shape == "twice-remove":
                second.removeEdgeAssemblies(core)
                self.state = "THIRD"
                self.count("removeEdge:by-second-changer")
                self.check_back_to_third("remove-edge", scaled_centre=False)

    def shape_long_lived(self, tmpl):
        """E.add, T.convert (drops the edges with its own changer), T.restore, E.remove (nothing left: resets E), E.add."""
        from vp.model import observe as ob

        self.op_add_edge(dict(tmpl, op="addEdge"))
        E = self.edger
        for kind in ("convert", "restore"):
            if self.state == "BROKEN":
                return
            getattr(self, "op_" + kind)(dict(tmpl, op=kind, fresh=True, light=True))
        if self.state != "THIRD":
            return
        before = self.snap()
        E.removeEdgeAssemblies(self.core)  # "No edge assemblies to remove." + reset()
        self.expect_unchanged(before, "remove-edge-after-convert-dropped-them")
        self.edger = E
        self.op_add_edge(dict(tmpl, op="addEdge", reuseEdger=True))  # oracle inside: the 120-degree images are occupied
        _ = ob

    def shape_protocol(self, tmpl, write):
        """add -> [results written on every block] -> scaleParamsRelatedToSymmetry -> remove (GlobalFluxInterface._undoGeometryTransformations)."""
        from armi.reactor.converters import geometryConverters as gc

        from vp.model import observe as ob

        self.op_add_edge(dict(tmpl, op="addEdge"))
        if self.state != "EDGE":
            return
        core = self.core
        have = {self.ij(a): a for a in core}
        Q = [name for name, kind, vi in self.P if vi and kind == "f"] if write else []
        v0 = self.case["init"][0] or 1.0
        base = v0 if 1e-6 < abs(v0) < 1e9 else 1.5
        for ai, a in enumerate(core):
            n = self.s3_index.get(id(a))
            for bi, b in enumerate(a):
                for qi, name in enumerate(Q):
                    val = base * (1 + (ai * 3 + bi + qi) % 7)  # non-zero "half-assembly" results on every block of the edge model
                    b.p[name] = val
                    if n is not None:
                        self.s3["children"][n]["children"][bi]["params"][name] = ob.norm_value(val)
        # docstring: "Scale them right before deleting their symmetric identicals ... identical to combining two half-assemblies into a full one"
        for cell, a in have.items():
            if hm.symmetry_line(*cell) != 0:
                continue
            up = have.get(hm.rotate60(cell[0], cell[1], 2))
            n = self.s3_index.get(id(a))
            if up is None or n is None:
                continue
            for bi, (b, bu) in enumerate(zip(a, up)):
                for name in Q:
                    self.s3["children"][n]["children"][bi]["params"][name] = ob.norm_value(b.p[name] + bu.p[name])
        gc.EdgeAssemblyChanger.scaleParamsRelatedToSymmetry(core)
        self.count("protocol:write" if Q else "protocol:nothing-written")
        self.edger.removeEdgeAssemblies(core)
        self.state = "THIRD"
        self.count("removeEdge")
        self.check_back_to_third("remove-edge", scaled_centre=False)

    def op_remove_edge(self, op):
        from armi.reactor.converters import geometryConverters as gc

        core = self.core
        if self.state == "FULL":
            before = self.snap()
            gc.EdgeAssemblyChanger().removeEdgeAssemblies(core)
            self.expect_unchanged(before, "remove-edge-when-full")
            self.count("removeEdge:noop-full")
            return
        if self.state == "THIRD":
            before = self.snap()
            gc.EdgeAssemblyChanger().removeEdgeAssemblies(core)  # "No edge assemblies to remove."
            self.expect_unchanged(before, "remove-edge-without-edges")
            self.count("removeEdge:noop")
            return
        changer = gc.EdgeAssemblyChanger() if op["fresh"] else self.edger
        changer.removeEdgeAssemblies(core)
        self.state = "THIRD"
        self.count("removeEdge")
        self.check_back_to_third("remove-edge", scaled_centre=False)

    def op_assign(self, op):
        from vp.model import observe as ob

        if not self.P:
            return
        core = self.core
        name, kind, vi = self.P[op["pidx"] % len(self.P)]
        ca = self.centre()
        late = False
        if op.get("late") and self.state == "FULL" and ca is not None:
            cands = [p for p in PARAMS if p[2] and p[1] in ("arr", "lst") and p not in self.P]  # no default value: never assigned so far
            if cands and self.excluded(SIG_LATE):
                self.out.label("excluded:" + SIG_LATE)
            elif cands:
                late = True
                name, kind, vi = cands[op["pidx"] % len(cands)]
        if (op["centre"] or late) and ca is not None:
            blocks = list(ca)
        else:
            blocks = [b for a in core for b in a]
        b = blocks[op["obj"] % len(blocks)]
        a = b.parent
        before = ob.params_record(b)
        _assign(b, name, kind, op["v"], self.groups)
        after = ob.params_record(b)
        self.count("assign:" + self.state.lower() + (":centre" if a is ca else ""))
        n = self.s3_index.get(id(a))
        if n is None:
            return  # an added copy: it disappears with the restore / removal
        target = self.s3["children"][n]["children"][list(a).index(b)]["params"]
        if late:
            self.late.append((n, list(a).index(b), name))
        for key in after:
            if key not in before or before[key] != after[key] or type(before[key]) is not type(after[key]):
                if self.state == "FULL" and a is ca and key in self.vi_names:
                    target[key] = ob.norm_value(_third(b.p[key]))
                else:
                    target[key] = after[key]

    def op_ndens(self, op):
        from vp.model import observe as ob

        core = self.core
        comps = [(a, b, c) for a in core for b in a for c in b if c.getNumberDensities()]
        a, b, c = comps[op["obj"] % len(comps)]
        nucs = sorted(c.getNumberDensities())
        nuc = nucs[op["obj2"] % len(nucs)]
        c.setNumberDensity(nuc, c.getNumberDensity(nuc) * op["factor"])
        self.count("ndens:" + self.state.lower())
        self.s3_dirty_mass = True
        n = self.s3_index.get(id(a))
        if n is None:
            return
        bi, ci = list(a).index(b), list(b).index(c)
        self.s3["children"][n]["children"][bi]["children"][ci] = ob.observe(c, params=True, only_saved=False, serial=True, derived=True, skip_params=SKIP)

    # -- driver -----------------------------------------------------------------------------------
    def run(self):
        from armi.reactor.parameters import ParamLocation

        self.build()
        b0 = self.core.getFirstBlock()
        armi_vi = set(b0.p.paramDefs.atLocation(ParamLocation.VOLUME_INTEGRATED).names)
        self.vi_names = armi_vi
        self.removed_labels = set()
        for name, kind, vi in PARAMS:
            if kind != "disp":
                self.out.check((name in armi_vi) == vi, "setup/volume-integrated-table", "%s: armi says volume integrated = %s" % (name, name in armi_vi))
        self.check_tables("initial")
        enabled = set(self.case["enabled"])
        if not enabled & {"full", "edge", "convert", "addEdge"}:
            enabled.add("full")  # every program changes the symmetry at least once
        no_lower = not any(hm.symmetry_line(*self.ij(a)) == 0 for a in self.core)
        # deliberate shape: N convert/restore rounds on one changer object, then optionally a second restore
        tmpl = {"op": "full", "obj": 0, "obj2": 0, "pidx": 0, "v": 1.0, "centre": False, "late": False, "fresh": False, "via": "changer", "factor": 1.0}
        rounds = self.case.get("rounds", 0)
        for n in range(rounds):
            for kind in ("convert", "restore"):
                if self.state == "BROKEN":
                    break
                getattr(self, "op_" + kind)(dict(tmpl, op=kind, light=n > 0))
                if self.state != "BROKEN":
                    self.check_tables("after %s of leading round %d" % (kind, n + 1))
        if rounds and self.case.get("double") and self.state == "THIRD":
            self.op_restore(dict(tmpl, op="restore"))
        shape = self.case.get("edgeShape")
        if shape and self.state == "THIRD" and not no_lower:
            if shape == "long-lived":
                self.shape_long_lived(tmpl)
            elif shape.startswith("protocol"):
                self.shape_protocol(tmpl, shape == "protocol-write")
            else:
                self.op_add_edge(dict(tmpl, op="addEdge"))  # add, second changer adds again (and maybe removes)
            if self.state != "BROKEN":
                self.check_tables("after the leading edge addition")
        for n, op in enumerate(self.case["program"]):
            kind = op["op"]
            if kind not in enabled or self.state == "BROKEN":
                continue
            if kind == "full":
                kind = "restore" if self.state == "FULL" else "convert"
            elif kind == "edge":
                kind = {"EDGE": "removeEdge", "THIRD": "addEdge", "FULL": "restore"}[self.state]
                if kind == "addEdge" and no_lower and self.excluded(SIG_FLAGS):
                    self.out.label("excluded:" + SIG_FLAGS)
                    kind = "convert"  # nothing to add on the 0-degree line: the known shape is avoided, the step converts instead
            elif kind == "removeEdge" and self.state == "THIRD" and not op["fresh"] and not no_lower:
                kind = "addEdge"  # two of three explicit removals without edges are turned into additions (more add/remove cycles)
            getattr(self, {"convert": "op_convert", "restore": "op_restore", "addEdge": "op_add_edge", "removeEdge": "op_remove_edge",
                           "assign": "op_assign", "ndens": "op_ndens"}[kind])(op)
            if self.state != "BROKEN":
                self.check_tables("after step %d (%s)" % (n, kind))


# ---------------------------------------------------------------------------------------------
# records


def _bucket(difftext, base=0):
    """Root-cause bucket of a difference: the level of the object and the kind of field, not the parameter name."""
    path = difftext.split(":")[0]
    level = ["core", "assembly", "block", "component"][min(3, base + path.count("/children"))]
    rest = [p for p in path.replace("]", "").split("/") if p and not p.startswith("children")]
    field = rest[0].split("[")[0] if rest else "structure"
    return "%s-%s" % (level, field)


def _walk(o):
    yield o
    for c in o:
        yield from _walk(c)


def _serials(o):
    return [x.p.serialNum for x in _walk(o)]


def _ring_pos(cell):
    i, j = cell
    ring = hm.hex_distance(i, j) + 1
    return ring, hm.ring_cells(ring).index((i, j)) + 1


def _same(a, b):
    import numpy as np

    if a is None or b is None:
        return a is None and b is None
    return type(a) is type(b) and np.array_equal(np.asarray(a), np.asarray(b))


def _strip(rec, skip_params):
    rec = {k: v for k, v in rec.items() if k not in ("name", "serialNum", "locator")}
    if "params" in rec:
        rec["params"] = {k: v for k, v in rec["params"].items() if k not in skip_params}
    return rec


def _copy_record(a):
    """What a copy must share with its source ('plain') and the rotation-dependent state per block."""
    from armi.reactor import grids
    from armi.reactor.parameters import ParamLocation

    from vp.model import observe as ob

    rec = ob.observe(a, params=True, only_saved=False, serial=False, derived=True, skip_params=SKIP + ("serialNum",))
    plain = _strip(rec, ENTRY_PARAMS)
    plain["children"] = []
    blocks = []
    for b, brec in zip(a, rec["children"]):
        names = list(b.p.paramDefs.atLocation(ParamLocation.CORNERS).names) + list(b.p.paramDefs.atLocation(ParamLocation.EDGES).names)
        bplain = _strip(brec, tuple(names) + ROTATED_BLOCK_PARAMS)
        bplain["children"] = [_strip(crec, ()) for crec in brec["children"]]
        plain["children"].append(bplain)
        locs = []
        for c in b:
            loc = c.spatialLocator
            if isinstance(loc, grids.MultiIndexLocation):
                locs.append(("multi", [(int(l.i), int(l.j), int(l.k)) for l in loc]))
            elif isinstance(loc, grids.CoordinateLocation):
                locs.append(("coord", [float(x) for x in loc.getLocalCoordinates()]))
            elif loc is None:
                locs.append(("none", None))
            else:
                locs.append(("index", [int(loc.i), int(loc.j), int(loc.k)]))
        o = b.p.orientation
        blocks.append(
            {
                "orientation": [float(x) for x in o],
                "rotNum": int(b.getRotationNum()),
                "boundary": {n: (None if b.p[n] is None else (list(b.p[n]) if isinstance(b.p[n], list) else b.p[n].copy())) for n in names},
                "disp": (b.p.displacementX, b.p.displacementY),
                "locs": locs,
            }
        )
    return {"plain": plain, "blocks": blocks}


# ---------------------------------------------------------------------------------------------


def execute(case):
    out = Out()
    run = _Run(case, out)
    run.run()
    first = {}
    for sig, msg in out.violations:
        first.setdefault(sig, msg)  # one report per root-cause signature and case
    out.violations = list(first.items())
    cells = {(c[0], c[1]) for c in run.spec["cells"]}
    centre = (0, 0) in cells
    online = sum(1 for c in cells if hm.symmetry_line(*c) == 0)
    did = run.counts
    out.nontrivial = centre and online >= 1 and any(k.startswith(("convert", "addEdge")) and "noop" not in k and "nothing" not in k for k in did)
    out.label("geom:" + run.spec["geom"], "rings:%d" % run.spec["rings"], "centre" if centre else "no-centre",
              "on-0-degree-line:%s" % ("0" if online == 0 else "1" if online == 1 else "2+"),
              "pin-grid" if any(d["pinGrid"] for d in run.spec["designs"]) else "no-pin-grid", "final:" + run.state.lower())
    out.label(*["op:" + k for k in sorted(did)])
    if (did.get("restore") or did.get("restore:reused-changer")) and (did.get("assign:full:centre") or did.get("assign:full")):
        out.label("assign-between-convert-and-restore")
    out.label("zones:" + run.zone_mode)
    if run.nsites:
        out.label("single-site-children")
    if did.get("convert:from-edge") and (did.get("restore") or did.get("restore:reused-changer")):
        out.label("edge-convert-restore")
    return out


PARTS = [
    Part("programs", execute, strategy=strategy, budget={"quick": 200, "thorough": 20000}, procs={"quick": 6, "thorough": 16},
         rule="Hypothesis: third-core hex reactor from blueprint text (2-5 rings, holes, centre assembly dropped in 1 of 5, flats/corners up, pin "
              "lattices), initial values for a drawn subset of 24 block parameters (14 volume integrated; scalars, lists, arrays, 6-vectors on "
              "corners/edges, displacement) and composition edits, then a program of <= 12 steps over convert (changer or Core.growToFullCore) / "
              "restorePreviousGeometry (0-3 leading convert/restore rounds re-use ONE changer object, optional second restore; pin-lattice blocks "
              "carry children on a single off-centre site or at free coordinates; manual zones cover all / some / none of the assemblies; a "
              "second changer may add edges over occupied positions; one long-lived edge changer across a convert/restore; the add -> write -> "
              "scaleParamsRelatedToSymmetry -> remove protocol; mass/volume with edge assemblies = without) / addEdgeAssemblies / removeEdgeAssemblies / parameter assignment / number-density edit with a swarm subset "
              "of enabled kinds; non-trivial = centre assembly present, >= 1 assembly on the 0-degree symmetry line and at least one effective "
              "conversion or edge addition; oracle: rotation closure of the cells, copies equal to their source up to the documented rotation, "
              "identity-disjoint, unique names/serials, x3 on mass per nuclide / volume / parameter totals, observe() snapshot + identity of the "
              "lookup tables after restore and after add-then-remove, lookup tables consistent after every step"),
]
